"""Generator for C37: Hypothesis draws an abstract *recipe*; concretize() turns it into a concrete case
(vf/c37_model.py format) by walking the streams with the model's table bookkeeping, so that

  * a "good" use names a reader macro that is in the reader's table when its top-level form starts to be read,
  * form-consuming reader macros always find a form inside their own group (construction, not filtering),
  * each stream contains at most one deliberately wrong use (never defined / defined later in the stream / defined in the
    same top-level form / known only to another reader, module or library), placed where the recipe says.
"""
from vf import c37_model as Mo

POOL, KINDS, LIB_KINDS, NEVER = Mo.POOL, Mo.KINDS, Mo.LIB_KINDS, Mo.NEVER
HOWS = ["never", "later", "sameform", "foreign", "foreign", "later", "sameform", "notreq", "notreq"]


def make_recipe(rnd, quick=True):
    """rnd: a random.Random seeded by a Hypothesis draw (st.randoms(use_true_random=True)), so a run is a function of VERIF_SEED"""
    R = rnd.randrange
    pick = rnd.choice
    kinds = ["int", "int", "wrap1", "wrap1", "none", "empty", "symnone", "drop1", "key", "ct", "ct"]

    def leaf():
        k = R(5)
        if k == 0:
            return R(10)
        if k == 4:
            return ["u", "_"] if R(2) else R(10)
        return ["g", R(12)]

    def item(depth):
        if depth < 2 and R(4) == 0:
            return [pick(["l", "l", "p"]), [item(depth + 1) for _ in range(R(4))]]
        return leaf()

    def items():
        return [item(0) for _ in range(1 + R(5))]

    def def_r():
        return ["def", R(len(POOL)), pick(kinds)]

    def req_r():
        return ["req", R(2), R(64), bool(R(2))]

    def ct_r():
        return ["ct", 1 + R(9), bool(R(2))]

    def use_r():
        return ["use", items(), bool(R(2))]

    def nest_r():
        return ["nest", R(4)]

    def part():
        return pick([def_r, def_r, req_r, ct_r, use_r, use_r, nest_r])()

    def do_r():
        return ["do", [part() for _ in range(2 + R(2))]]

    def bare_r():
        return ["bare", items()]

    def entry():
        return pick([def_r, def_r, def_r, use_r, use_r, use_r, bare_r, do_r, do_r, req_r, req_r, ct_r, nest_r])()

    def bad():
        if R(3):
            return None
        return dict(at=R(9), how=pick(HOWS), items=items(), ipos=R(6), form=pick(["use", "use", "bare", "do"]))

    def stream():
        head = [pick([def_r, def_r, def_r, req_r])() for _ in range(R(4))]
        body = [entry() for _ in range(1 + R(6 if quick else 9))]
        return dict(mod=R(2), driver=pick(["lazy", "step", "lazy", "step", "nested"]), reuse=R(3) if R(4) == 0 else None,
                    entries=head + body, bad=bad())

    def lib():
        forms = [pick([def_r, def_r, def_r, req_r, lambda: ["use", items()]])() for _ in range(1 + R(4))]
        if R(8) == 0:
            forms.append(["baduse", R(12)])  # the library's own text uses a reader macro only others have
        return forms

    return dict(libs=[lib() for _ in range(R(3))], streams=[stream() for _ in range(1 + R(4))], sched=[R(4) for _ in range(R(13))])


# ------------------------------------------------------------------------------------------------


class _Ids:
    def __init__(self):
        self.n = 99

    def new(self):
        self.n += 1
        return self.n


def _resolve(items, tab, avoid=()):
    names = sorted(n for n in tab if n not in avoid)
    out = []
    for it in items:
        if isinstance(it, int):
            out.append(it)
        elif it[0] == "g":
            out.append(["u", names[it[1] % len(names)]] if names else it[1] % 10)
        elif it[0] in ("l", "p"):
            out.append([it[0], _resolve(it[1], tab, avoid)])
        else:
            out.append(it)
    return out


def _repair(items, tab, defs):
    """append literals until every form-consuming reader macro of every sequence is satisfied inside its sequence"""
    items = [[it[0], _repair(it[1], tab, defs)] if isinstance(it, list) and it[0] in ("l", "p") else it for it in items]
    for _ in range(12):
        try:
            Mo.parse_all(items, Mo.Env(tab, defs, {0: 0, 1: 0}))
            return items
        except Mo.Invalid:
            items = items + [0]
        except Mo.LexErr:
            return items
    return items


def _bare(items, tab, defs):
    for n in range(len(items), 0, -1):
        cand = _repair(items[:n], tab, defs)
        try:
            Mo.Model._read_bare(None, cand, Mo.Env(tab, defs, {0: 0, 1: 0}))
            return cand
        except (Mo.Invalid, Mo.LexErr):
            continue
    return [7]


def _subset(names, bits):
    sel = [n for i, n in enumerate(names) if bits >> i & 1]
    return sel or list(names)


def concretize(rec):
    ids = _Ids()
    defs = {}  # id -> (kind, home)
    # ---- libraries
    libs, libtab, libbroken = [], [], []
    stream_names = sorted({POOL[p[1]] for r in rec["streams"] for e in r["entries"] for p in (e[1] if e[0] == "do" else [e]) if p[0] == "def"})
    for k, forms in enumerate(rec["libs"]):
        tab, out = {}, []
        broken = False
        for f in forms:
            if broken:
                break
            if f[0] == "baduse":
                cands = [x for x in stream_names if x not in tab] or [NEVER]
                out.append(["use", [1, ["u", cands[f[1] % len(cands)]], 2]])
                broken = True
            elif f[0] == "def":
                kind = f[2] if f[2] in LIB_KINDS else "int"
                d = ids.new()
                defs[d] = (kind, "L%d" % k)
                out.append(["def", POOL[f[1]], kind, d])
                tab[POOL[f[1]]] = d
            elif f[0] == "req":
                if k == 0 or not libtab[f[1] % k]:
                    continue
                j = f[1] % k
                if libbroken[j]:
                    broken = True
                names = sorted(libtab[j])
                if f[3]:
                    out.append(["req", j, "*"])
                    sel = names
                else:
                    sel = _subset(names, f[2])
                    out.append(["req", j, sel])
                for n in sel:
                    tab[n] = libtab[j][n]
            else:
                out.append(["use", _repair(_resolve(f[1], tab), tab, defs)])
        if not tab:
            d = ids.new()
            defs[d] = ("int", "L%d" % k)
            out.append(["def", POOL[k], "int", d])
            tab[POOL[k]] = d
        libs.append(out)
        libtab.append(tab)
        libbroken.append(broken)
    # ---- stream attributes
    rs = rec["streams"]
    n = len(rs)
    attrs = []
    for s, r in enumerate(rs):
        driver, mod, reuse = r["driver"], r["mod"], r["reuse"]
        if reuse is not None:
            if reuse < s and driver != "nested" and attrs[reuse]["driver"] != "nested":
                mod = attrs[reuse]["mod"]
            else:
                reuse = None
        attrs.append(dict(mod=mod, driver=driver, reuse=reuse))
    # which nested streams get launched from where: decided while walking; unreferenced ones become lazy top-level streams
    nested_free = [s for s in range(n) if attrs[s]["driver"] == "nested"]
    all_def_names = {}  # name -> list of (stream index | "L", mod)
    for s, r in enumerate(rs):
        for e in r["entries"]:
            for p in e[1] if e[0] == "do" else [e]:
                if p[0] == "def":
                    all_def_names.setdefault(POOL[p[1]], []).append(s)
    for k, t in enumerate(libtab):
        for nme in t:
            all_def_names.setdefault(nme, []).append("L%d" % k)
    # which streams put which names into which module's table (for the `:readers *` exclusion, see c37_model.compile_entry)
    touch = [{}, {}]
    for s, r in enumerate(rs):
        for e in r["entries"]:
            for p in e[1] if e[0] == "do" else [e]:
                if p[0] == "def" or (p[0] == "req" and not libs):
                    touch[attrs[s]["mod"]].setdefault(POOL[p[1] % len(POOL)], set()).add(s)
                elif p[0] == "req":
                    j = p[1] % len(libs)
                    for nme in sorted(libtab[j]) if p[3] else _subset(sorted(libtab[j]), p[2]):
                        touch[attrs[s]["mod"]].setdefault(nme, set()).add(s)
        if r["bad"] and r["bad"]["how"] in ("sameform", "notreq"):
            for nme in POOL:
                touch[attrs[s]["mod"]].setdefault(nme, set()).add(s)

    def chain(s):
        out = {s}
        while attrs[s]["reuse"] is not None:
            s = attrs[s]["reuse"]
            out.add(s)
        return out

    final_tab = [None] * n
    died = []
    final_avoid = [None] * n
    out_streams = [None] * n

    def conv_part(p, s, tab, newtab, in_do, avoid, newavoid):
        """-> concrete part or None; newtab is updated with what the part defines"""
        a = attrs[s]
        if p[0] == "def":
            d = ids.new()
            defs[d] = (p[2], a["mod"])
            newtab[POOL[p[1]]] = d
            return ["def", POOL[p[1]], p[2], d]
        if p[0] == "req":
            if not libs:
                d = ids.new()
                defs[d] = ("int", a["mod"])
                newtab[POOL[p[1] % len(POOL)]] = d
                return ["def", POOL[p[1] % len(POOL)], "int", d]
            j = p[1] % len(libs)
            names = sorted(libtab[j])
            sel = names if p[3] else _subset(names, p[2])
            if libbroken[j]:
                died.append(True)  # the require fails when the library is read: nothing is brought in, the stream ends
                return ["req", j, "*" if p[3] else sel]
            for nme in sel:
                newtab[nme] = libtab[j][nme]
            if p[3]:
                mine = chain(s)
                for nme, who in touch[a["mod"]].items():
                    if nme not in libtab[j] and who - mine:
                        newavoid.add(nme)
            return ["req", j, "*" if p[3] else sel]
        if p[0] == "ct":
            return ["ct", p[1], bool(p[2] and a["driver"] == "step" and not in_do)]
        if p[0] == "use":
            return ["use", _repair(_resolve(p[1], tab, avoid), tab, defs)] + ([bool(p[2])] if not in_do else [])
        if p[0] == "bare":
            return ["bare", _bare(_resolve(p[1], tab, avoid), tab, defs)]
        if p[0] == "nest":
            if a["driver"] == "nested":
                return None
            cands = [k for k in nested_free if k != s]
            if not cands:
                return None
            k = cands[p[1] % len(cands)]
            nested_free.remove(k)
            return ["nest", k]
        raise ValueError(p)

    def bad_entry(b, s, idx, tab, later_names, avoid):
        how = b["how"]
        name = None
        tab = dict(tab)
        for x in avoid:
            tab.setdefault(x, 0)
        pre = []
        if how == "notreq":
            # a library name that is left out of an explicit :readers list
            how = "foreign"
            for j0 in range(len(libs)):
                j = (j0 + b["ipos"]) % len(libs)
                missing = [x for x in sorted(libtab[j]) if x not in tab]
                if missing and len(libtab[j]) >= 2 and not libbroken[j]:
                    name = missing[b["at"] % len(missing)]
                    sel = [x for x in sorted(libtab[j]) if x != name]
                    pre = [["req", j, sel]]
                    for x in sel:
                        tab[x] = libtab[j][x]
                    how = "notreq"
                    break
        if how == "later":
            name = next((x for x in later_names if x not in tab), None)
            if name is None:
                how = "foreign"
        if how == "sameform":
            name = next((x for x in POOL if x not in tab), None)
            if name is None:
                how = "never"
        if how == "foreign":
            name = next((x for x in sorted(all_def_names) if x not in tab and any(w != s for w in all_def_names[x])), None)
            if name is None:
                how = "never"
        if how == "never":
            name = NEVER
        its = _repair(_resolve(b["items"], tab, avoid), tab, defs)
        pos = b["ipos"] % (len(its) + 1)
        its = its[:pos] + [["u", name]] + its[pos:]
        if how == "sameform":
            d = ids.new()
            kind = ["int", "wrap1", "none"][b["ipos"] % 3]
            defs[d] = (kind, attrs[s]["mod"])
            return [["do", [["def", name, kind, d], ["use", its + [0]]]]]
        if b["form"] == "bare":
            return pre + [["bare", [["u", name], 0] if pos % 2 else [["u", "_"], ["u", name], 0]]]
        if b["form"] == "do":
            d = ids.new()
            other = next((x for x in POOL if x != name), POOL[0])
            defs[d] = ("int", attrs[s]["mod"])
            return pre + [["do", [["def", other, "int", d], ["use", its]]]]
        return pre + [["use", its, bool(pos % 2)]]

    order = [s for s in range(n)]
    for s in order:
        r, a = rs[s], attrs[s]
        tab = dict(final_tab[a["reuse"]]) if a["reuse"] is not None else {}
        avoid = set(final_avoid[a["reuse"]]) if a["reuse"] is not None else set()
        entries = []
        b = r["bad"]
        at = b["at"] % (len(r["entries"]) + 1) if b else None
        dead = False
        after_dead = 0
        for idx, e in enumerate(list(r["entries"]) + [None]):
            if b and idx == at and not dead:
                later = []
                for e2 in r["entries"][idx:]:
                    for p in e2[1] if e2 and e2[0] == "do" else [e2]:
                        if p and p[0] == "def":
                            later.append(POOL[p[1]])
                entries.extend(bad_entry(b, s, idx, tab, later, avoid))
                dead = True
            if e is None:
                break
            if dead:
                after_dead += 1
                if after_dead > 2:
                    break
            newtab = {}
            newavoid = set()
            del died[:]
            if e[0] == "do":
                parts = [c for c in (conv_part(p, s, tab, newtab, True, avoid, newavoid) for p in e[1]) if c is not None]
                if not parts:
                    continue
                ce = ["do", parts] if len(parts) > 1 else (parts[0] + [False] if parts[0][0] == "use" else parts[0])
            else:
                ce = conv_part(e, s, tab, newtab, False, avoid, newavoid)
                if ce is None:
                    continue
            entries.append(ce)
            if died and not dead:
                dead = True
                continue
            if not dead:
                tab.update(newtab)
                # order inside a (do ...): a definition after the star-require makes the name definite again; a definition
                # before it does not matter (then the bindings agree unless another stream interfered: stay conservative)
                avoid |= newavoid
                if e[0] != "do":
                    avoid -= set(newtab)
        final_tab[s] = tab
        final_avoid[s] = avoid
        out_streams[s] = dict(mod=a["mod"], driver=a["driver"], reuse=a["reuse"], entries=entries)
    for k in nested_free:
        out_streams[k]["driver"] = "lazy"
    # a stream that reuses a reader must come after its source has been created: guaranteed by drive()
    sched = [x % n for x in rec["sched"]]
    return dict(libs=libs, streams=out_streams, sched=sched)
