"""Scenario table and executor for C34 (one Hy name = one Python identifier in every construct).

A scenario is a *writer* (a construct that binds something under the Hy name s in some
namespace) combined with a *reader* (a construct that looks a Hy name t up in the same
namespace). The harness itself only ever touches the namespaces through Python, under
hy.mangle(s) / hy.mangle(t): it pre-seeds a sentinel under mangle(t) when the two
manglings differ, and after the run it inspects the namespace's raw keys.

Namespaces:  G  module globals / local variables          A  attributes of an object
             K  keyword-argument and parameter names      M  macro tables

Everything here is deterministic; the program text is a pure function of (scenario id, s, t).
"""
import functools
import inspect
import math
import sys
import types

BASE = "VF_"  # every harness identifier starts with this; generated names never mangle to such an identifier
HARNESS_LOCALS = frozenset(["vfk", "vfmac", "vfa", "vfr", "vfalias", "vfmac_impl"])  # fixed names used inside the templates


# ---------------------------------------------------------------------------------------------
# harness objects


class Val:
    """A tagged, callable value."""

    def __init__(self, tag):
        self.tag = "tag:" + tag
        self._t = tag

    def __call__(self, *a, **kw):
        return "called:" + self._t

    def vfmac(self):
        return "attr-called:" + self._t


class Obj:
    pass


class VFError(Exception):
    pass


def describe(x, env):
    """Canonical text for an observed object (identity based for the harness objects)."""
    if x is env["VAL"]:
        return "VAL"
    if x is env["SENT"]:
        return "SENT"
    if x is env["EXC"]:
        return "EXC"
    if x is math:
        return "mod:math"
    if x is math.sqrt:
        return "sqrt"
    if x is env.get("SENTMAC"):
        return "SENTMAC"
    if x is None:
        return "None"
    if isinstance(x, str):
        return x
    if isinstance(x, types.FunctionType):
        return "fn:" + x.__name__
    if isinstance(x, types.MethodType):
        return "method:" + x.__func__.__name__
    if isinstance(x, type):
        return "cls:" + x.__name__
    if isinstance(x, tuple):
        return "tuple(" + ",".join(describe(e, env) for e in x) + ")"
    if isinstance(x, list):
        return "list(" + ",".join(describe(e, env) for e in x) + ")"
    if isinstance(x, dict):
        return "dict(" + ",".join("%s=%s" % (k, describe(v, env)) for k, v in x.items()) + ")"
    if type(x).__module__ == "vfm34":
        return "inst:" + type(x).__name__
    return "other:" + type(x).__name__


# ---------------------------------------------------------------------------------------------
# writers and readers


class W:
    def __init__(self, ns, wid, tmpl, kind, scope="module", leaves=True, head=False, param=False,
                 cls=False, match=False, pre=None, obj="VF_O", inst="VF_O", own=False):
        self.ns, self.id, self.tmpl, self.kind = ns, wid, tmpl, kind
        self.scope = scope      # where READ is placed: module | inner | class | comp
        self.leaves = leaves    # binding still in the namespace under mangle(s) after the program
        self.head = head        # s stands at the head of a form (a core macro name would be taken as the macro)
        self.param = param      # s stands in a lambda list ('*' and '/' are markers there)
        self.cls = cls          # s is compiled inside a class body (Python privatises __x there)
        self.match = match      # s is a match pattern ('_' is the wildcard)
        self.pre = pre          # python-side writer: "global" | "attr" | "macro-src"
        self.obj, self.inst = obj, inst  # A: text of the object whose attributes are read / an instance of it
        self.own = own          # A: the attribute lives in the object's own __dict__


class R:
    def __init__(self, ns, rid, tmpl, kinds=None, scopes=None, head=False, need_leaves=False,
                 dele=False, own=False, glue=None):
        self.ns, self.id, self.tmpl = ns, rid, tmpl
        self.kinds = kinds      # writer kinds this reader can observe (None = all)
        self.scopes = scopes    # writer scopes it can be placed in (None = all)
        self.head = head
        self.need_leaves = need_leaves
        self.dele = dele        # reader deletes the binding
        self.own = own          # needs the attribute in the object's own __dict__
        self.glue = glue        # token built by gluing t to other text; must read back as expected


WRITERS = [
    # ---- G: variables
    W("G", "setv", "(setv {s} VF_V)\n{READ}", "val"),
    W("G", "setx", "(setx {s} VF_V)\n{READ}", "val"),
    W("G", "py-global", "{READ}", "val", pre="global"),
    W("G", "defn", "(defn {s} [] VF_V)\n{READ}", "fn"),
    W("G", "defclass", "(defclass {s} [])\n{READ}", "cls"),
    W("G", "import-as", "(import math :as {s})\n{READ}", "mod"),
    W("G", "import-from-as", "(import math [sqrt :as {s}])\n{READ}", "sqrt"),
    W("G", "for", "(for [{s} [VF_V]] {READ})", "val"),
    W("G", "with-as", "(with [{s} (VF_CM)] {READ})", "val"),
    W("G", "except-as", "(try (raise VF_X) (except [{s} VF_XT] {READ}))", "exc", scope="inner", leaves=False),  # renamed like a let variable
    W("G", "match-capture", "(match VF_V {s} (do {READ}))", "val", match=True),
    W("G", "match-as", "(match VF_V _ :as {s} (do {READ}))", "val", match=True),
    W("G", "match-star", "(match [VF_V] [#* {s}] (do {READ}))", "list", match=True),
    W("G", "match-mapping-rest", "(match {\"k\" VF_V} {#** {s}} (do {READ}))", "kdict", match=True),
    W("G", "let", "(let [{s} VF_V] {READ})", "val", scope="inner", leaves=False),
    # a statement that rebinds a name the enclosing let binds: afterwards the name is the new binding
    W("G", "import-as-in-let", "(let [{s} 0] (import math :as {s}) {READ})", "mod", scope="inner"),
    W("G", "import-from-as-in-let", "(let [{s} 0] (import math [sqrt :as {s}]) {READ})", "sqrt", scope="inner"),
    W("G", "import-in-fn-in-let", "(let [{s} 0] (defn VF_F [] (import math [sqrt :as {s}]) {READ}) (VF_F))", "sqrt", scope="inner", leaves=False),
    W("G", "defn-in-let", "(let [{s} 0] (defn {s} [] VF_V) {READ})", "fn", scope="inner"),
    W("G", "defclass-in-let", "(let [{s} 0] (defclass {s} []) {READ})", "cls", scope="inner"),
    W("G", "lfor", "(lfor {s} [VF_V] {READ})", "val", scope="comp", leaves=False),
    W("G", "global-decl", "(defn VF_F [] (global {s}) (setv {s} VF_V))\n(VF_F)\n{READ}", "val"),
    W("G", "class-var", "(defclass VF_C [] (setv {s} VF_V) {READ})", "val", scope="class", leaves=False, cls=True),
    W("G", "param", "(setv VF_FN (fn [{s}] {READ}))\n(VF_FN VF_V)", "val", scope="inner", leaves=False, param=True),
    W("G", "param-default", "(setv VF_FN (fn [[{s} VF_V]] {READ}))\n(VF_FN)", "val", scope="inner", leaves=False, param=True),
    W("G", "param-kwonly", "(setv VF_FN (fn [* {s}] {READ}))\n(VF_FN #** {\"{ms}\" VF_V})", "val", scope="inner", leaves=False, param=True),
    W("G", "param-posonly", "(setv VF_FN (fn [{s} /] {READ}))\n(VF_FN VF_V)", "val", scope="inner", leaves=False, param=True),
    W("G", "param-rest", "(setv VF_FN (fn [#* {s}] {READ}))\n(VF_FN VF_V)", "rest", scope="inner", leaves=False, param=True),
    W("G", "param-kwargs", "(setv VF_FN (fn [#** {s}] {READ}))\n(VF_FN :vfk VF_V)", "kwargs", scope="inner", leaves=False, param=True),
    W("G", "defn-param-by-keyword", "(defn VF_FN [{s}] {READ})\n(VF_FN #** {\"{ms}\" VF_V})", "val", scope="inner", leaves=False, param=True),
    # ---- A: attributes
    W("A", "setv-dotted", "(setv VF_O.{s} VF_V)\n{READ}", "val", own=True),
    W("A", "setv-dot-form", "(setv (. VF_O {s}) VF_V)\n{READ}", "val", own=True),
    W("A", "py-setattr", "{READ}", "val", pre="attr", own=True),
    W("A", "class-setv", "(defclass VF_C [VF_B] (setv {s} VF_V))\n{READ}", "val", cls=True, obj="VF_C", inst="(VF_C)"),
    W("A", "class-defn", "(defclass VF_C [VF_B] (defn {s} [self] VF_V))\n{READ}", "meth", cls=True, obj="VF_C", inst="(VF_C)"),
    # ---- M: macros
    W("M", "defmacro", "(defmacro {s} [] \"mac:VAL\")\n{READ}", "mac", head=True),
    W("M", "defmacro-local", "(defn VF_F [] (defmacro {s} [] \"mac:VAL\") {READ})\n(VF_F)", "mac", scope="inner", leaves=False, head=True),
    W("M", "require-as", "(require VF_MM [vfmac :as {s}])\n{READ}", "reqmac", head=True),
    W("M", "require-name", "(require VF_MM [{s}])\n{READ}", "reqmac", head=True, pre="macro-src"),
]

READERS = [
    R("G", "symbol", "(VF_OUT {t})"),
    R("G", "call", "(VF_OUT ({t}))", kinds=("val", "fn", "cls"), head=True),
    R("G", "kwget-globals", "(VF_OUT (:{t} VF_G))", scopes=("module",), glue="kw"),
    R("G", "del", "(del {t})", kinds=("val", "fn", "cls", "mod", "sqrt"), scopes=("module",), need_leaves=True, dele=True),
    R("A", "dotted", "(VF_OUT {o}.{t})", glue="dotted"),
    R("A", "dot-form", "(VF_OUT (. {o} {t}))"),
    R("A", "dotted-middle", "(VF_OUT {o}.{t}.tag)", kinds=("val",), glue="dotted"),
    R("A", "method-call", "(VF_OUT (.{t} {i}))", kinds=("val", "meth"), glue="method"),
    R("A", "dot-form-call", "(VF_OUT (. {i} ({t})))", kinds=("val", "meth"), head=True),
    R("A", "match-class-keyword", "(match {i} (VF_object :{t} VF_cap) (VF_OUT VF_cap))", kinds=("val",), glue="kw"),
    R("A", "kwget-vars", "(VF_OUT (:{t} (VF_vars {o})))", own=True, glue="kw"),
    R("A", "del-attr", "(del {o}.{t})", own=True, dele=True, glue="dotted"),
    R("M", "call", "(VF_OUT ({t}))", head=True),
    R("M", "get-macro", "(VF_OUT ((get-macro {t})))"),
]

# K: keyword arguments and parameters; whole-program templates (writer and reader are entangled)
KSCEN = {
    "K:kwarg>kwargs-dict": "(VF_OUT (VF_K {PRE}:{s} VF_V))",
    "K:kwarg>param": "(defn VF_FN [[{t} VF_S] #** VF_kw] (VF_OUT {t}) (VF_OUT VF_kw))\n(VF_FN :{s} VF_V)",
    "K:kwarg>kwonly-param": "(defn VF_FN [* [{t} VF_S] #** VF_kw] (VF_OUT {t}) (VF_OUT VF_kw))\n(VF_FN :{s} VF_V)",
    "K:kwarg>kwget": "(VF_OUT (:{t} (VF_K {PRE}:{s} VF_V)))",
    "K:kwarg>kwget-default": "(VF_OUT (:{t} (VF_K :{s} VF_V) VF_S))",
    "K:method-kwarg>kwargs-dict": "(VF_OUT (.vfk VF_O {PRE}:{s} VF_V))",
    "K:dot-form-kwarg>kwargs-dict": "(VF_OUT (. VF_O (vfk {PRE}:{s} VF_V)))",
    "K:pydict>kwget": "(VF_OUT (:{t} VF_D))",
    "K:mixed-kwarg>param": "(defn VF_FN [vfa [{t} VF_S] #* vfr #** VF_kw] (VF_OUT {t}) (VF_OUT VF_kw))\n(VF_FN 1 :{s} VF_V)",
}
# special pair programs in G: declaration with s, assignment through t
GSPECIAL = {
    "G:global-decl>setv": "(defn VF_F [] (global {s}) (setv {t} VF_V))\n(VF_F)",
    "G:nonlocal-decl>setv": "(defn VF_F [] (setv {s} VF_S2) (defn VF_H [] (nonlocal {s}) (setv {t} VF_V)) (VF_H) (VF_OUT {s}))\n(VF_F)",
    # a name whose identifier is `_` is the wildcard of match, as `_` itself: matches, binds nothing
    "G:match-wildcard>body": "(match VF_V {s} (VF_OUT \"hit\"))",
    "M:require-prefix>call": "(require VF_MM :as {s})\n(VF_OUT ({t}.vfmac))",
    "M:require-name-as>call": "(require VF_MM [{s} :as vfalias])\n(VF_OUT (vfalias))",
    "M:defmacro-local>local-macros": "(defn VF_F [] (defmacro {s} [] 1) (VF_OUT (VF_keys (local-macros))))\n(VF_F)",
}

_W = {(w.ns, w.id): w for w in WRITERS}
_R = {(r.ns, r.id): r for r in READERS}


def _compatible(w, r):
    if w.ns != r.ns:
        return False
    if r.kinds is not None and w.kind not in r.kinds:
        return False
    if r.scopes is not None and w.scope not in r.scopes:
        return False
    if r.need_leaves and not w.leaves:
        return False
    if r.own and not w.own:
        return False
    return True


def all_scenarios():
    out = []
    for w in WRITERS:
        for r in READERS:
            if _compatible(w, r):
                out.append("%s:%s>%s" % (w.ns, w.id, r.id))
    out.extend(KSCEN)
    out.extend(GSPECIAL)
    return out


SCENARIOS = all_scenarios()


# ---------------------------------------------------------------------------------------------
# domain: which names a scenario is defined for

_PY_SPECIAL = None
_CORE = None


def core_macros():
    global _CORE
    if _CORE is None:
        import builtins

        import hy  # noqa: F401

        _CORE = frozenset(builtins._hy_macros)
    return _CORE


def py_special():
    global _PY_SPECIAL
    if _PY_SPECIAL is None:
        m = types.ModuleType("x")
        names = set(dir(m)) | set(dir(Obj())) | set(dir(Obj)) | set(dir(lambda: 0)) | {"__debug__", "__builtins__", "__class__"}
        _PY_SPECIAL = frozenset(names)
    return _PY_SPECIAL


@functools.lru_cache(maxsize=4096)
def reads_as_symbol(name):
    """True iff the text is one Hy symbol (not a number, keyword, dotted identifier, or several tokens)."""
    import hy
    from hy.models import Symbol

    if not name or "." in name:
        return False
    try:
        ms = list(hy.read_many(name))
    except Exception:
        return False
    return len(ms) == 1 and type(ms[0]) is Symbol and str(ms[0]) == name


@functools.lru_cache(maxsize=4096)
def name_status(name):
    """None if the name is in the property's domain for every construct, else the reason it is not."""
    from hy.reader.mangling import mangle

    if not reads_as_symbol(name):
        return "not-a-symbol"
    m = mangle(name)
    if m in ("None", "True", "False"):
        return "constant"
    if m == "hy" or m.startswith("_hy_"):
        return "compiler-reserved"
    if m.startswith(BASE) or m in HARNESS_LOCALS:
        return "harness-name"
    if (m.startswith("__") and m.endswith("__") and len(m) > 4) or m in py_special():
        return "python-dunder"
    return None


def glued_ok(kind, t):
    """The token obtained by gluing t to fixed text still reads as the intended construct."""
    import hy
    from hy.models import Expression, Keyword, Symbol

    text = {"kw": ":" + t, "dotted": "VF_O." + t, "method": "." + t, "head": t + ".vfmac"}[kind]
    try:
        ms = list(hy.read_many(text))
    except Exception:
        return False
    if len(ms) != 1:
        return False
    x = ms[0]
    if kind == "kw":
        return type(x) is Keyword and x.name == t
    if kind == "dotted":
        return isinstance(x, Expression) and list(x) == [Symbol("."), Symbol("VF_O"), Symbol(t)]
    if kind == "head":
        return isinstance(x, Expression) and list(x) == [Symbol("."), Symbol(t), Symbol("vfmac")]
    return isinstance(x, Expression) and list(x) == [Symbol("."), Symbol("None"), Symbol(t)]


def applicable(scen, s, t):
    """None if (scen, s, t) is a case of the property, else a reason string."""
    from hy.reader.mangling import mangle

    for n in (s, t):
        st = name_status(n)
        if st:
            return st
    ms, mt = mangle(s), mangle(t)
    core = core_macros()
    ns, rest = scen.split(":", 1)
    if scen in KSCEN:
        for n in (s, t):
            if not glued_ok("kw", n):
                return "glued-token-reads-differently"
        if "param" in scen and (t in ("*", "/")):
            return "lambda-list-marker"
        return None
    if scen in GSPECIAL:
        if scen == "G:match-wildcard>body" and ms != "_":
            return "not-the-wildcard-identifier"
        if scen.startswith("M:"):
            if ms in core or mt in core:
                return "core-macro-name"
            if scen == "M:require-prefix>call" and not glued_ok("head", t):
                return "glued-token-reads-differently"
        return None
    wid, rid = rest.split(">")
    w, r = _W[(ns, wid)], _R[(ns, rid)]
    if (w.head and ms in core) or (r.head and mt in core) or (ns == "M" and (ms in core or mt in core)):
        return "core-macro-name"
    if w.param and s in ("*", "/"):
        return "lambda-list-marker"
    if w.match and ms == "_":
        # docs/api.rst: `_` is the wildcard pattern (see G:match-wildcard>body); Python forbids `as _` and `**_`, `*_` is the star wildcard
        return "match-wildcard"
    if wid == "with-as" and s == "_":
        return "with-nonbinding-marker"  # docs/api.rst: the symbol `_` in a manager list binds nothing
    if w.cls:
        for m in (ms, mt):
            if m.startswith("__") and not m.endswith("__"):
                return "python-class-private-name"
    if r.glue and not glued_ok(r.glue, t):
        return "glued-token-reads-differently"
    if wid == "setv-dotted" and not glued_ok("dotted", s):
        return "glued-token-reads-differently"
    return None


# ---------------------------------------------------------------------------------------------
# expectations


def _kind_desc(kind, ms):
    return {"val": "VAL", "fn": "fn:" + ms, "cls": "cls:" + ms, "mod": "mod:math", "sqrt": "sqrt", "exc": "EXC",
            "rest": "tuple(VAL)", "kwargs": "dict(vfk=VAL)", "meth": "fn:" + ms, "list": "list(VAL)", "kdict": "dict(k=VAL)"}[kind]


def _g_expected(w, r, ms, collide):
    if r.id in ("symbol", "kwget-globals"):
        return [_kind_desc(w.kind, ms) if collide else "SENT"]
    if r.id == "call":
        if not collide:
            return ["called:SENT"]
        return [{"val": "called:VAL", "fn": "VAL", "cls": "inst:" + ms}[w.kind]]
    if r.id == "del":
        return []
    raise AssertionError(r.id)


def _a_expected(w, r, ms, collide):
    if r.id in ("dotted", "dot-form", "kwget-vars", "match-class-keyword"):
        return [_kind_desc(w.kind, ms) if collide else "SENT"]
    if r.id == "dotted-middle":
        return ["tag:VAL" if collide else "tag:SENT"]
    if r.id in ("method-call", "dot-form-call"):
        if not collide:
            return ["called:SENT"]
        return ["called:VAL" if w.kind == "val" else "VAL"]
    if r.id == "del-attr":
        return []
    raise AssertionError(r.id)


def _m_expected(w, r, ms, collide):
    if r.id == "call":
        return ["mac:VAL" if collide else "mac:SENT"]
    if r.id == "get-macro":  # the macro's function object, called without arguments
        return ["mac:VAL" if collide else "mac:SENT"]
    raise AssertionError(r.id)


# ---------------------------------------------------------------------------------------------
# running one case


def hy_str(s):
    return s.replace("\\", "\\\\").replace('"', '\\"')


def build(scen, s, t):
    """-> (source text, collide). Pure function of its arguments and hy.mangle."""
    from hy.reader.mangling import mangle

    ms, mt = mangle(s), mangle(t)
    collide = ms == mt
    if scen in KSCEN:
        pre = "" if collide or scen == "K:pydict>kwget" else '#** {"%s" VF_S} ' % hy_str(mt)
        return KSCEN[scen].replace("{PRE}", pre).replace("{s}", s).replace("{t}", t), collide
    if scen in GSPECIAL:
        return GSPECIAL[scen].replace("{s}", s).replace("{t}", t), collide
    ns, rest = scen.split(":", 1)
    wid, rid = rest.split(">")
    w, r = _W[(ns, wid)], _R[(ns, rid)]
    read = r.tmpl.replace("{o}", w.obj).replace("{i}", w.inst).replace("{t}", t)
    src = w.tmpl.replace("{READ}", read).replace("{ms}", hy_str(ms)).replace("{s}", s)
    return src, collide


def param_names(fn):
    """Parameter names of a Python function, in code-object order (inspect.signature rejects keyword-named parameters)."""
    c = fn.__code__
    n = c.co_argcount + c.co_kwonlyargcount + bool(c.co_flags & inspect.CO_VARARGS) + bool(c.co_flags & inspect.CO_VARKEYWORDS)
    return list(c.co_varnames[:n])


def _mk_macro(result, name):
    def vfmac_impl():
        return result

    vfmac_impl.__name__ = name
    return vfmac_impl


def run_case(scen, s, t):
    """Execute one case. Returns None (agrees with the property) or (kind, detail).

    Exceptions raised by reading/compiling/running the generated program are findings
    (every case handed to this function is inside the property's domain); exceptions in the
    harness's own code propagate.
    """
    import hy
    from hy.compiler import hy_compile
    from hy.reader.mangling import mangle

    ms, mt = mangle(s), mangle(t)
    src, collide = build(scen, s, t)
    ns = scen.split(":", 1)[0]

    mod = types.ModuleType("vfm34")
    out = []
    env = dict(VAL=Val("VAL"), SENT=Val("SENT"), EXC=VFError("x"))
    env["SENTMAC"] = _mk_macro("mac:SENT", "SENTMAC")

    def VF_OUT(x):
        out.append(x)
        return x

    class VF_CM:
        def __enter__(self):
            return env["VAL"]

        def __exit__(self, *a):
            return False

    class VF_B:
        pass

    O = Obj()
    O.vfk = lambda **kw: kw
    g = mod.__dict__
    base_keys = set(g)
    harness = dict(
        VF_V=env["VAL"], VF_S=env["SENT"], VF_S2=Val("S2"), VF_OUT=VF_OUT, VF_O=O, VF_G=g, VF_vars=vars,
        VF_K=(lambda **kw: kw), VF_CM=VF_CM, VF_X=env["EXC"], VF_XT=VFError, VF_B=VF_B,
        VF_keys=(lambda d: sorted(d)), VF_D={}, VF_object=object,
    )
    env["S2"] = harness["VF_S2"]
    g.update(harness)
    g["_hy_macros"] = {}

    wid = rid = None
    w = r = None
    if scen not in KSCEN and scen not in GSPECIAL:
        wid, rid = scen.split(":", 1)[1].split(">")
        w, r = _W[(ns, wid)], _R[(ns, rid)]

    # ---- python-side pre-state, always under hy.mangle of the names
    macmod = None
    if ns == "G" or scen in ("M:require-prefix>call",):
        if not collide:
            g[mt] = env["SENT"]
        if w is not None and w.pre == "global":
            g[ms] = env["VAL"]
    if ns == "A":
        holder = VF_B if w.obj == "VF_C" else O
        if not collide:
            setattr(holder, mt, env["SENT"])
        if w.pre == "attr":
            setattr(O, ms, env["VAL"])
    if ns == "K":
        harness["VF_D"][ms] = env["VAL"]
        if not collide:
            harness["VF_D"][mt] = env["SENT"]
    if ns == "M":
        if not collide and scen not in ("M:require-prefix>call", "M:require-name-as>call", "M:defmacro-local>local-macros"):
            g["_hy_macros"][mt] = env["SENTMAC"]
        macmod = types.ModuleType("VF_MM")
        macmod._hy_macros = {"vfmac": _mk_macro("mac:VAL", "vfmac_impl")}
        if (w is not None and w.pre == "macro-src") or scen == "M:require-name-as>call":
            macmod._hy_macros = {ms: _mk_macro("mac:VAL", "vfmac_impl")}
    pre_keys = set(g)

    err = None
    saved_mm = sys.modules.get("VF_MM")
    if macmod is not None:
        sys.modules["VF_MM"] = macmod
    try:
        try:
            import warnings

            with warnings.catch_warnings():
                warnings.simplefilter("ignore")
                tree = hy_compile(hy.read_many(src, filename="<vfm34>"), mod, source=src, filename="<vfm34>")
                code = compile(tree, "<vfm34>", "exec")
                exec(code, g)
        except Exception as e:  # the generated program is in-domain: any error is an observation
            err = e
    finally:
        if macmod is not None:
            if saved_mm is None:
                sys.modules.pop("VF_MM", None)
            else:
                sys.modules["VF_MM"] = saved_mm

    detail = dict(scenario=scen, s=s, t=t, mangled_s=ms, mangled_t=mt, same_identifier_expected=collide, source=src)
    if err is not None:
        detail["error"] = "%s: %s" % (type(err).__name__, str(err)[:300])
        return ("error:" + type(err).__name__, detail)

    got = [describe(x, env) for x in out]
    new = sorted(k for k in g if k not in pre_keys and not k.startswith(BASE) and not k.startswith("_hy_")
                 and k not in ("hy", "__builtins__"))

    def bad(kind, **kw):
        detail.update(kw)
        detail["out"] = got
        return (kind, detail)

    # ---- expectations
    if scen in KSCEN:
        kd = "dict(%s=VAL)" % ms
        if scen in ("K:kwarg>kwargs-dict", "K:method-kwarg>kwargs-dict", "K:dot-form-kwarg>kwargs-dict"):
            want = [kd if collide else "dict(%s=SENT,%s=VAL)" % (mt, ms)]
        elif scen in ("K:kwarg>param", "K:kwarg>kwonly-param", "K:mixed-kwarg>param"):
            want = ["VAL", "dict()"] if collide else ["SENT", kd]
        else:
            want = ["VAL" if collide else "SENT"]
        if got != want:
            return bad("out", expected_out=want)
        if "param" in scen:
            names = param_names(g["VF_FN"])
            wn = {"K:kwarg>param": [mt, "VF_kw"], "K:kwarg>kwonly-param": [mt, "VF_kw"],
                  "K:mixed-kwarg>param": ["vfa", mt, "vfr", "VF_kw"]}[scen]
            if names != wn:
                return bad("parameter-names", expected=wn, actual=names)
        return None

    if scen in GSPECIAL:
        if scen == "G:global-decl>setv":
            # the assignment reaches the module global iff t is the declared name
            want_new, want = ([ms] if collide else []), []
            if got != want or new != want_new:
                return bad("namespace", expected_new_globals=want_new, actual_new_globals=new)
            if collide and describe(g[ms], env) != "VAL":
                return bad("namespace", bound=describe(g[ms], env))
            if not collide and describe(g[mt], env) != "SENT":
                return bad("namespace", sentinel=describe(g[mt], env))
            return None
        if scen == "G:match-wildcard>body":
            if got != ["hit"]:
                return bad("out", expected_out=["hit"])
            if new != []:
                return bad("namespace", expected_new_globals=[], actual_new_globals=new)
            return None
        if scen == "G:nonlocal-decl>setv":
            want = ["VAL" if collide else "other:Val"]
            if got != want or new != []:
                return bad("out", expected_out=want, new_globals=new)
            if not collide and describe(g[mt], env) != "SENT":
                return bad("namespace", sentinel=describe(g[mt], env))
            return None
        if scen == "M:require-prefix>call":
            want = ["mac:VAL" if collide else "attr-called:SENT"]
            keys = sorted(g["_hy_macros"])
            if got != want:
                return bad("out", expected_out=want)
            if keys != [ms + ".vfmac"]:
                return bad("macro-table", expected=[ms + ".vfmac"], actual=keys)
            return None
        if scen == "M:require-name-as>call":
            keys = sorted(g["_hy_macros"])
            if got != ["mac:VAL"]:
                return bad("out", expected_out=["mac:VAL"])
            if keys != ["vfalias"]:
                return bad("macro-table", expected=["vfalias"], actual=keys)
            return None
        if scen == "M:defmacro-local>local-macros":
            want = ["list(%s)" % ms]
            if got != want:
                return bad("out", expected_out=want)
            if g["_hy_macros"]:
                return bad("macro-table", expected=[], actual=sorted(g["_hy_macros"]))
            return None
        raise AssertionError(scen)

    if ns == "G":
        want = _g_expected(w, r, ms, collide)
        if got != want:
            return bad("out", expected_out=want)
        gone_s = r.dele and collide
        want_new = [] if (not w.leaves or w.pre or gone_s) else [ms]
        if new != want_new:
            return bad("namespace", expected_new_globals=want_new, actual_new_globals=new)
        if w.leaves and not gone_s:
            if ms not in g or describe(g[ms], env) != _kind_desc(w.kind, ms):
                return bad("namespace", expected_binding=_kind_desc(w.kind, ms),
                           actual_binding=describe(g[ms], env) if ms in g else "(unbound)")
        if w.pre and gone_s and ms in g:
            return bad("namespace", note="del did not remove the python-level binding")
        if not collide:
            if r.dele:
                if mt in g:
                    return bad("namespace", note="del did not remove the sentinel under mangle(t)")
            elif describe(g.get(mt), env) != "SENT":
                return bad("namespace", sentinel=describe(g.get(mt), env))
        if w.param:
            names = param_names(g["VF_FN"])
            if names != [ms]:
                return bad("parameter-names", expected=[ms], actual=names)
        return None

    if ns == "A":
        want = _a_expected(w, r, ms, collide)
        if got != want:
            return bad("out", expected_out=want)
        holder = g["VF_C"] if w.obj == "VF_C" else O
        own = sorted(k for k in vars(holder) if not (k.startswith("__") and k.endswith("__") and len(k) > 4) and k != "vfk")
        gone_s = r.dele and collide
        want_own = sorted(set(([] if gone_s else [ms]) + ([mt] if (not collide and not r.dele and w.obj != "VF_C") else [])))
        if own != want_own:
            return bad("namespace", expected_attributes=want_own, actual_attributes=own)
        if not gone_s and describe(vars(holder)[ms], env) != _kind_desc(w.kind, ms):
            return bad("namespace", actual_binding=describe(vars(holder)[ms], env))
        if not collide and not r.dele and describe(getattr(holder, mt), env) != "SENT":
            return bad("namespace", sentinel=describe(getattr(holder, mt), env))
        return None

    if ns == "M":
        want = _m_expected(w, r, ms, collide)
        if got != want:
            return bad("out", expected_out=want)
        keys = sorted(g["_hy_macros"])
        want_keys = sorted(set(([ms] if w.leaves else []) + ([] if collide else [mt])))
        if keys != want_keys:
            return bad("macro-table", expected=want_keys, actual=keys)
        if w.leaves:
            nm = g["_hy_macros"][ms].__name__
            wn = ms if w.kind == "mac" else "vfmac_impl"
            if nm != wn:
                return bad("macro-function-name", expected=wn, actual=nm)
        if new != []:
            return bad("namespace", expected_new_globals=[], actual_new_globals=new)
        return None
    raise AssertionError(scen)
