"""C16: program IR for staging programs, its renderer to Hy text, and the reference model of staging.

A *form* is JSON:

    int | None                       literal
    ["e", tag, sub]                  (E "tag" sub)        logs [tag, value of sub] and returns that value
    ["do", [form...]]                (do ...)
    ["if", c, a, b]                  (if c a b)
    ["let", [[name, form]...], [form...]]
    ["var", name]                    reference to a let-bound name
    ["fn", [form...], n]             (do (setv gK (fn [] ...)) (gK) ... (gK))   n calls (K numbers the node in source order)
    ["defn", name, [form...]]        (defn name [] ...)    only where it defines a module global (see wellformed)
    ["call", name]                   (name)
    ["ewc", [form...]]               (eval-when-compile ...)
    ["eac", [form...]]               (eval-and-compile ...)
    ["mac", [form...]]               (do-mac ...)
    ["quote", tmpl]                  'tmpl, or `tmpl when the template contains unquotes or other quotes (or is nested in one)
    ["unq", form]                    ~form (inside a quote only)

A *case* is {"forms": [top-level form...]}.  `render(case)` is a deterministic
function of the tree.

The reference model (class Model) is written from docs/api.rst:

 * eval-when-compile "executes the given forms at compile-time, but discards
   them at run-time and simply returns None instead";
 * eval-and-compile: "The input forms are evaluated as soon as the
   eval-and-compile form is compiled, then left in the program so they can be
   executed at run-time as usual"; "The return value ... is its final argument,
   as for do";
 * do-mac "evaluates its arguments (in order) at compile time, and leaves behind
   the value of the last argument (None if no arguments were provided) as code
   to be run".

"Evaluate at compile time" is taken to mean what evaluating code means
everywhere else in Hy: the forms are compiled (in the module's global scope,
api.rst's scoping example) and then run.  The model is compositional: C(form)
is "compile form in place" (it performs the compile-time effects and returns
the residual run-time code), R(residual) runs code.  EVAL(forms) = C then R at
module level.  Consequently a staging form that is itself inside an
eval-and-compile body is compiled twice (once for the compile-time evaluation,
once as part of the program that is "left"), and its compile-time effects occur
once per compilation.
"""
import json


class Invalid(Exception):
    """the case is outside the domain (malformed, or it would raise NameError etc. under the documented semantics)"""


STAGING = ("ewc", "eac", "mac")
KINDS = ("e", "do", "if", "let", "var", "fn", "defn", "call", "ewc", "eac", "mac", "quote", "unq")
MAX_STAGE_DEPTH = 4


def is_lit(f):
    return f is None or (isinstance(f, int) and not isinstance(f, bool))


def _name_ok(s, prefix):
    return isinstance(s, str) and len(s) >= 2 and s[0] == prefix and s[1:].isdigit() and len(s) < 8


def children(f):
    """sub-forms in source order"""
    if is_lit(f):
        return []
    k = f[0]
    if k == "e":
        return [f[2]]
    if k in ("do", "ewc", "eac", "mac"):
        return list(f[1])
    if k == "if":
        return [f[1], f[2], f[3]]
    if k == "let":
        return [b[1] for b in f[1]] + list(f[2])
    if k == "fn":
        return list(f[1])
    if k == "defn":
        return list(f[2])
    if k in ("quote", "unq"):
        return [f[1]]
    return []


def rebuild(f, kids):
    """same node with its sub-forms replaced (in children() order)"""
    kids = list(kids)
    if is_lit(f):
        return f
    k = f[0]
    if k == "e":
        return ["e", f[1], kids[0]]
    if k in ("do", "ewc", "eac", "mac"):
        return [k, kids]
    if k == "if":
        return ["if", kids[0], kids[1], kids[2]]
    if k == "let":
        nb = len(f[1])
        return ["let", [[f[1][i][0], kids[i]] for i in range(nb)], kids[nb:]]
    if k == "fn":
        return ["fn", kids, f[2]]
    if k == "defn":
        return ["defn", f[1], kids]
    if k in ("quote", "unq"):
        return [k, kids[0]]
    return f


def _effectful_unquotes(t, level):
    if is_lit(t):
        return 0
    k = t[0]
    if k == "unq":
        if level == 0:
            return 0 if (is_lit(t[1]) or t[1][0] == "var") else 1
        return _effectful_unquotes(t[1], level - 1)
    if k == "quote":
        return _effectful_unquotes(t[1], level + 1)
    return sum(_effectful_unquotes(c, level) for c in children(t))


def wellformed(case):
    """structural check; raises Invalid.  Also enforces the static rules of the domain:
    defn only where it defines a module global in every phase (ancestors: do / staging forms / quote),
    unq only inside a quote, bounded nesting of staging forms."""
    if not isinstance(case, dict) or not isinstance(case.get("forms"), list) or not case["forms"]:
        raise Invalid("case")
    if len(case["forms"]) > 12:
        raise Invalid("too many forms")
    tags = []
    defs = set()

    def walk(f, chain_ok, qlevel, sdepth, depth):
        if depth > 14:
            raise Invalid("too deep")
        if is_lit(f):
            if f is not None and not (-1000 <= f <= 1000):
                raise Invalid("literal range")
            return
        if not isinstance(f, list) or not f or f[0] not in KINDS:
            raise Invalid("node")
        k = f[0]
        if k == "e":
            if len(f) != 3 or not isinstance(f[1], str) or not f[1].isalnum() or len(f[1]) > 8:
                raise Invalid("e")
            tags.append(f[1])
            walk(f[2], False, qlevel, sdepth, depth + 1)
        elif k in ("do", "ewc", "eac", "mac"):
            if len(f) != 2 or not isinstance(f[1], list) or len(f[1]) > 8:
                raise Invalid(k)
            sd = sdepth + (1 if k != "do" else 0)
            if sd > MAX_STAGE_DEPTH:
                raise Invalid("staging depth")
            for x in f[1]:
                walk(x, chain_ok, qlevel, sd, depth + 1)
        elif k == "if":
            if len(f) != 4:
                raise Invalid("if")
            for x in f[1:]:
                walk(x, False, qlevel, sdepth, depth + 1)
        elif k == "let":
            if len(f) != 3 or not isinstance(f[1], list) or not isinstance(f[2], list) or not f[1] or len(f[1]) > 4 or len(f[2]) > 8:
                raise Invalid("let")
            for b in f[1]:
                if not isinstance(b, list) or len(b) != 2 or not _name_ok(b[0], "v"):
                    raise Invalid("let binding")
                walk(b[1], False, qlevel, sdepth, depth + 1)
            for x in f[2]:
                walk(x, False, qlevel, sdepth, depth + 1)
        elif k == "var":
            if len(f) != 2 or not _name_ok(f[1], "v"):
                raise Invalid("var")
        elif k == "fn":
            if len(f) != 3 or not isinstance(f[1], list) or len(f[1]) > 8 or not isinstance(f[2], int) or isinstance(f[2], bool) or not 0 <= f[2] <= 3:
                raise Invalid("fn")
            for x in f[1]:
                walk(x, False, qlevel, sdepth, depth + 1)
        elif k == "defn":
            if len(f) != 3 or not _name_ok(f[1], "f") or not isinstance(f[2], list) or len(f[2]) > 8:
                raise Invalid("defn")
            if not chain_ok:
                raise Invalid("defn must define a module global")
            if f[1] in defs:
                raise Invalid("function defined twice")
            defs.add(f[1])
            for x in f[2]:
                walk(x, False, qlevel, sdepth, depth + 1)
        elif k == "call":
            if len(f) != 2 or not _name_ok(f[1], "f"):
                raise Invalid("call")
        elif k == "quote":
            if len(f) != 2:
                raise Invalid("quote")
            if qlevel >= 2:
                raise Invalid("quote nesting")
            if _effectful_unquotes(f[1], 0) > 1:
                # docs/semantics.rst: "the evaluation order of the child models of a Sequence is unspecified"; the unquoted forms of one
                # quasiquote become arguments of model constructors, so two of them with effects have no prescribed relative order
                raise Invalid("more than one effectful unquote in one quasiquote")
            walk(f[1], chain_ok, qlevel + 1, sdepth, depth + 1)
        elif k == "unq":
            if len(f) != 2 or qlevel < 1:
                raise Invalid("unq outside quote")
            walk(f[1], False, qlevel - 1, sdepth, depth + 1)

    for f in case["forms"]:
        walk(f, True, 0, 0, 0)
    return tags


# ---------------------------------------------------------------- rendering


def _has_quoting(f):
    if is_lit(f):
        return False
    if f[0] in ("quote", "unq"):
        return True
    return any(_has_quoting(c) for c in children(f))


def render(case):
    """Hy source, one top-level form per line"""
    counter = [0]

    def r(f, inq):
        if f is None:
            return "None"
        if is_lit(f):
            return str(f)
        k = f[0]
        if k == "e":
            return '(E "%s" %s)' % (f[1], r(f[2], inq))
        if k == "do":
            return "(do%s)" % "".join(" " + r(x, inq) for x in f[1])
        if k == "if":
            return "(if %s %s %s)" % (r(f[1], inq), r(f[2], inq), r(f[3], inq))
        if k == "let":
            return "(let [%s]%s)" % (" ".join("%s %s" % (b[0], r(b[1], inq)) for b in f[1]), "".join(" " + r(x, inq) for x in f[2]))
        if k == "var":
            return f[1]
        if k == "fn":
            counter[0] += 1
            g = "g%d" % counter[0]
            body = "".join(" " + r(x, inq) for x in f[1])
            calls = "".join(" (%s)" % g for _ in range(f[2])) or " None"
            return "(do (setv %s (fn []%s))%s)" % (g, body, calls)
        if k == "defn":
            return "(defn %s []%s)" % (f[1], "".join(" " + r(x, inq) for x in f[2]))
        if k == "call":
            return "(%s)" % f[1]
        if k in STAGING:
            name = {"ewc": "eval-when-compile", "eac": "eval-and-compile", "mac": "do-mac"}[k]
            return "(%s%s)" % (name, "".join(" " + r(x, inq) for x in f[1]))
        if k == "quote":
            mark = "`" if (inq or _has_quoting(f[1])) else "'"
            return mark + r(f[1], True)
        if k == "unq":
            return "~" + r(f[1], inq)
        raise Invalid("render")

    return "\n".join(r(f, False) for f in case["forms"]) + "\n"


# ---------------------------------------------------------------- reference model


class _Unspec:
    def __repr__(self):
        return "UNSPEC"


UNSPEC = _Unspec()  # a value the docs do not pin down (value of a defn form); must not reach an observation


class Code:
    """value of a quote: a source-level form"""

    def __init__(self, form):
        self.form = form


class Closure:
    def __init__(self, body, env, G):
        self.body, self.env, self.G = body, env, G


class Model:
    """Reference model of staging.  mode "file": the module is compiled as a whole, then run;
    mode "stream": each top-level form is compiled and run before the next is read."""

    def __init__(self, fuel=20000):
        self.log = []
        self.fuel = fuel
        self.Gct = {}  # functions defined by code evaluated at compile time
        self.Grt = {}  # functions defined by the program when it runs
        self.stats = dict(ct_calls=0, rt_calls=0, max_fn_calls_with_staging=0)

    def tick(self):
        self.fuel -= 1
        if self.fuel < 0:
            raise Invalid("fuel")

    # --- compile in place: performs compile-time effects, returns the residual run-time code
    def C(self, f):
        self.tick()
        if is_lit(f):
            return f
        k = f[0]
        if k in ("var", "call"):
            return f
        if k == "ewc":
            self.EVAL(f[1])
            return None
        if k == "eac":
            self.EVAL(f[1])
            return ["do", [self.C(x) for x in f[1]]]
        if k == "mac":
            v = self.EVAL(f[1])
            return self.C(self.as_code(v))
        if k == "quote":
            return ["quote", self.Cq(f[1], 0)]
        if k == "unq":
            raise Invalid("unquote outside quasiquote")
        return rebuild(f, [self.C(c) for c in children(f)])

    def Cq(self, t, level):
        """compiling a quasiquote compiles (in place) exactly the forms unquoted at level 0; quoted data is not compiled"""
        self.tick()
        if is_lit(t):
            return t
        k = t[0]
        if k == "unq":
            if level == 0:
                return ["unq", self.C(t[1])]
            return ["unq", self.Cq(t[1], level - 1)]
        if k == "quote":
            return ["quote", self.Cq(t[1], level + 1)]
        return rebuild(t, [self.Cq(c, level) for c in children(t)])

    def as_code(self, v):
        if isinstance(v, Code):
            return v.form
        if is_lit(v):
            return v
        raise Invalid("do-mac value is not code")

    def EVAL(self, forms):
        """compile-time evaluation of (do forms...): compile at module level, then run there"""
        res = [self.C(x) for x in forms]
        return self.R(["do", res], {}, self.Gct)

    # --- run residual code
    def obs(self, v):
        if not is_lit(v):
            raise Invalid("unspecified value observed")
        return v

    def R(self, f, env, G):
        self.tick()
        if is_lit(f):
            return f
        k = f[0]
        if k == "e":
            v = self.obs(self.R(f[2], env, G))
            self.log.append([f[1], v])
            return v
        if k == "do":
            last = None
            for x in f[1]:
                last = self.R(x, env, G)
            return last
        if k == "if":
            c = self.obs(self.R(f[1], env, G))
            return self.R(f[2] if c else f[3], env, G)
        if k == "let":
            env2 = dict(env)
            for n, v in f[1]:
                env2[n] = self.R(v, env2, G)
            last = None
            for x in f[2]:
                last = self.R(x, env2, G)
            return last
        if k == "var":
            if f[1] not in env:
                raise Invalid("unbound variable " + f[1])
            return env[f[1]]
        if k == "fn":
            clo = Closure(f[1], env, G)
            last = None
            for _ in range(f[2]):
                last = self.call(clo)
            return last
        if k == "defn":
            G[f[1]] = Closure(f[2], {}, G)
            return UNSPEC
        if k == "call":
            if f[1] not in G:
                raise Invalid("undefined function " + f[1])
            self.stats["ct_calls" if G is self.Gct else "rt_calls"] += 1
            return self.call(G[f[1]])
        if k == "quote":
            return Code(self.Rq(f[1], 0, env, G))
        raise Invalid("run " + str(k))

    def call(self, clo):
        last = None
        for x in clo.body:
            last = self.R(x, clo.env, clo.G)
        return last

    def Rq(self, t, level, env, G):
        self.tick()
        if is_lit(t):
            return t
        k = t[0]
        if k == "unq":
            if level == 0:
                v = self.R(t[1], env, G)
                return self.as_code(v)
            return ["unq", self.Rq(t[1], level - 1, env, G)]
        if k == "quote":
            return ["quote", self.Rq(t[1], level + 1, env, G)]
        return rebuild(t, [self.Rq(c, level, env, G) for c in children(t)])


def _val(v):
    return v if is_lit(v) else "?"


def predict(case):
    """-> dict(ct=[...], rt=[...], stream=[...], stream_values=[...]); raises Invalid"""
    wellformed(case)
    forms = case["forms"]
    # file mode: compile everything, then run everything
    m = Model()
    res = [m.C(f) for f in forms]
    ct = m.log
    m.log = []
    for r in res:
        m.R(r, {}, m.Grt)
    rt = m.log
    # bytecode load: the residual program again, in a fresh namespace
    m2 = Model()
    for r in res:
        m2.R(r, {}, m2.Grt)
    if m2.log != rt:
        raise Invalid("run phase depends on compile-time state")
    # stream mode: per form
    s = Model()
    vals = []
    for f in forms:
        r = s.C(f)
        vals.append(_val(s.R(r, {}, s.Grt)))
    return dict(ct=ct, rt=rt, stream=s.log, stream_values=vals, ct_calls=m.stats["ct_calls"], rt_calls=m.stats["rt_calls"])


# ---------------------------------------------------------------- classification


def classify(case):
    """shape classes for evidence + the non-triviality facts"""
    cls = set()
    info = dict(staged_in_called_fn=0)

    def walk(f, anc, nq):
        if is_lit(f):
            return
        k = f[0]
        if k in STAGING:
            cls.add(k)
            stag_anc = [a for a in anc if a in STAGING]
            if not anc:
                cls.add("top:" + k)
            if stag_anc:
                cls.add("%s>%s" % (stag_anc[-1], k))
                if len(stag_anc) >= 2:
                    cls.add("staging-depth>=3")
            for a in ("fn", "defn", "let", "if", "quote", "unq"):
                if a in anc:
                    cls.add("in-%s:%s" % (a, k))
            if anc and anc[-1] in ("e", "if", "let-binding"):
                cls.add("value-position:" + k)
            if k == "mac":
                last = f[1][-1] if f[1] else None
                if not f[1]:
                    cls.add("mac-empty")
                elif is_lit(last) or last[0] == "e":
                    cls.add("mac-literal-code")
                elif last[0] == "quote":
                    cls.add("mac-quote" + ("-unq" if _has_quoting(last[1]) else ""))
                else:
                    cls.add("mac-computed-code")
            if k != "mac" and not f[1]:
                cls.add(k + "-empty")
        if k == "fn":
            if f[2] >= 2 and any(_has_staging(x) for x in f[1]):
                info["staged_in_called_fn"] += 1
                cls.add("fn-called>=2-with-staging")
            cls.add("fn-calls:%d" % f[2])
        if k == "let":
            for b in f[1]:
                walk(b[1], anc + [k, "let-binding"], nq)
            for x in f[2]:
                walk(x, anc + [k], nq)
            return
        for c in children(f):
            walk(c, anc + [k], nq)

    for f in case["forms"]:
        walk(f, [], 0)
    # defn with staging inside, called >= 2 times (statically: number of call nodes naming it; the model counts executed calls)
    defs = {}
    calls = {}

    def walk2(f):
        if is_lit(f):
            return
        if f[0] == "defn" and any(_has_staging(x) for x in f[2]):
            defs[f[1]] = True
        if f[0] == "call":
            calls[f[1]] = calls.get(f[1], 0) + 1
        for c in children(f):
            walk2(c)

    for f in case["forms"]:
        walk2(f)
    for name in defs:
        if calls.get(name, 0) >= 2:
            info["staged_in_called_fn"] += 1
            cls.add("defn-called>=2-with-staging")
    return sorted(cls), info


def _has_staging(f):
    if is_lit(f):
        return False
    if f[0] in STAGING:
        return True
    return any(_has_staging(c) for c in children(f))


# ---------------------------------------------------------------- generator


def program(max_top=5, size=26):
    """Hypothesis strategy for cases.  The context tracks, by construction,
    * which let variables may be referenced (same staging region as their binder),
    * which functions may be called (defined earlier, in every phase in which the call site runs, and not by the run part of a unit
      whose compile part contains the call site).
    The model is the arbiter afterwards (see c16.py: cases it rejects are repaired by turning calls into plain effects)."""
    from hypothesis import strategies as st

    @st.composite
    def prog(draw):
        state = dict(tag=0, var=0, fn=0, budget=draw(st.integers(6, size)), sid=0)
        funcs = []  # (name, chain, phases)

        def tag():
            state["tag"] += 1
            return "t%d" % state["tag"]

        def phases(chain):
            ph = set()
            if chain:
                ph.add("ct")
            if all(kind == "eac" for kind, _ in chain):
                ph.add("rt")
            return ph

        def callable_from(chain, limit):
            out = []
            ph = phases(chain)
            for name, qchain, qph in (funcs if limit is None else funcs[:limit]):
                if not ph <= qph:
                    continue
                j = 0
                while j < len(chain) and j < len(qchain) and chain[j] == qchain[j]:
                    j += 1
                if len(qchain) == j and len(chain) > j:
                    continue  # defined by the run part of a unit whose compile part contains this call
                out.append(name)
            return out

        class Cx:
            def __init__(self, vars, chain, top, depth, mac_outer=None, quote_inner=None, qlevel=0, flimit=None, qmark=None):
                self.vars, self.chain, self.top, self.depth = vars, chain, top, depth
                self.flimit = flimit  # only the first flimit functions may be called (code that runs before the enclosing template is compiled)
                self.qmark = qmark  # number of functions defined before the innermost enclosing quote
                self.qbox = None  # shared by all positions of one template: {"used": an effectful unquote has been placed}
                self.mac_outer = mac_outer  # (vars, chain, top) at the innermost enclosing do-mac's position
                self.quote_inner = quote_inner  # (vars, chain) at the innermost enclosing quote's position
                self.qlevel = qlevel

            def sub(self, **kw):
                d = dict(vars=self.vars, chain=self.chain, top=False, depth=self.depth + 1, mac_outer=self.mac_outer, quote_inner=self.quote_inner, qlevel=self.qlevel,
                         flimit=self.flimit, qmark=self.qmark)
                d.update(kw)
                c = Cx(**d)
                c.qbox = self.qbox
                return c

        def value(cx):
            """a form in value position"""
            return form(cx.sub(top=False), want_value=True)

        def body(cx, lo, hi, keep_top=False):
            n = draw(st.integers(lo, hi))
            out = []
            for i in range(n):
                out.append(form(cx.sub(top=cx.top and keep_top), want_value=(i == n - 1) and not keep_top))
            return out

        def staging_body(cx, kind):
            state["sid"] += 1
            inner = cx.sub(vars=[], chain=cx.chain + [(kind, state["sid"])], top=cx.top)
            return inner

        def quote_tmpl(cx, allow_top=True):
            """cx is the context inside a do-mac body; the template is compiled where that do-mac stands"""
            ovars, ochain, otop = cx.mac_outer
            otop = otop and allow_top
            tcx = Cx(list(ovars), ochain, otop, cx.depth + 1, mac_outer=cx.mac_outer, quote_inner=(cx.vars, cx.chain), qlevel=cx.qlevel + 1,
                     flimit=cx.flimit, qmark=len(funcs))
            tcx.qbox = dict(used=False)
            return ["quote", form(tcx, want_value=not otop)]

        def form(cx, want_value=False):
            state["budget"] -= 1
            small = state["budget"] <= 0 or cx.depth >= 7
            sdepth = len(cx.chain)
            opts = ["e", "e"]
            if not small:
                opts += ["e_sub", "do", "if", "let", "fn", "fn"]
                if sdepth < 3:
                    opts += ["ewc", "eac", "eac", "mac", "mac"] * 2
            if cx.vars:
                opts += ["var", "var_e"]
            cands = callable_from(cx.chain, cx.flimit)
            if cands:
                opts += ["call", "call", "call_e"]
            if cx.top and not want_value and not small:
                opts += ["defn", "defn", "defn"]
            if cx.qlevel >= 1 and cx.quote_inner is not None:
                opts += ["unq", "unq"]
            if want_value and not small:
                opts += ["lit"]
            k = draw(st.sampled_from(opts))
            if k == "lit":
                return draw(st.sampled_from([None, 0, 1, 7]))
            if k == "e":
                return ["e", tag(), draw(st.sampled_from([0, 1, 2, 3, 5, None]))]
            if k == "e_sub":
                return ["e", tag(), value(cx)]
            if k == "var":
                if want_value:
                    return ["var", draw(st.sampled_from(cx.vars))]
                return ["e", tag(), ["var", draw(st.sampled_from(cx.vars))]]
            if k == "var_e":
                return ["e", tag(), ["var", draw(st.sampled_from(cx.vars))]]
            if k == "call":
                return ["call", draw(st.sampled_from(cands))]
            if k == "call_e":
                return ["e", tag(), ["call", draw(st.sampled_from(cands))]]
            if k == "do":
                return ["do", body(cx, 0, 3, keep_top=cx.top and not want_value)]
            if k == "if":
                return ["if", value(cx), form(cx.sub(), want_value), form(cx.sub(), want_value)]
            if k == "let":
                nb = draw(st.integers(1, 2))
                vs = list(cx.vars)
                binds = []
                for _ in range(nb):
                    state["var"] += 1
                    n = "v%d" % state["var"]
                    binds.append([n, form(cx.sub(vars=list(vs)), want_value=True)])
                    vs.append(n)
                return ["let", binds, body(cx.sub(vars=vs), 1, 3)]
            if k == "fn":
                return ["fn", body(cx, 1, 3), draw(st.sampled_from([0, 1, 2, 2, 3]))]
            if k == "defn":
                state["fn"] += 1
                name = "f%d" % state["fn"]
                b = body(cx.sub(vars=[]), 1, 3)
                funcs.append((name, list(cx.chain), phases(cx.chain)))
                return ["defn", name, b]
            if k in ("ewc", "eac"):
                inner = staging_body(cx, k)
                return [k, body(inner, 0 if draw(st.integers(0, 9)) == 0 else 1, 3, keep_top=inner.top and not want_value)]
            if k == "mac":
                inner = staging_body(cx, "mac")
                inner.mac_outer = (cx.vars, cx.chain, cx.top and not want_value)
                pre = body(inner, 0, 2, keep_top=inner.top)
                final = draw(st.sampled_from(["quote", "quote", "quote", "quote", "let-quote", "if-quote", "lit", "none", "value"]))
                if cx.qlevel >= 2 and final in ("quote", "let-quote", "if-quote"):
                    final = "lit"
                if final == "none":
                    if not pre:
                        return ["mac", []]
                    final = "lit"
                if final == "lit":
                    return ["mac", pre + [["e", tag(), draw(st.sampled_from([0, 4, None]))]]]
                if final == "value":
                    return ["mac", pre + [value(inner)]]
                if final == "quote":
                    return ["mac", pre + [quote_tmpl(inner.sub(top=inner.top))]]
                if final == "let-quote":
                    state["var"] += 1
                    n = "v%d" % state["var"]
                    lcx = inner.sub(vars=[n])
                    return ["mac", pre + [["let", [[n, form(inner.sub(), want_value=True)]], body(lcx, 0, 1) + [quote_tmpl(lcx.sub(), allow_top=False)]]]]
                return ["mac", pre + [["if", value(inner), quote_tmpl(inner.sub(), allow_top=False), quote_tmpl(inner.sub(), allow_top=False)]]]
            if k == "unq":
                qv, qc = cx.quote_inner
                if cx.qbox["used"]:
                    # a second unquote of the same quasiquote must be free of effects (order among unquotes is unspecified)
                    return ["unq", ["var", draw(st.sampled_from(qv))] if qv else draw(st.sampled_from([0, 2, None]))]
                cx.qbox["used"] = True
                lim = cx.qmark if cx.flimit is None else min(cx.flimit, cx.qmark)
                ucx = Cx(list(qv), qc, False, cx.depth + 1, mac_outer=cx.mac_outer, quote_inner=None, qlevel=cx.qlevel - 1, flimit=lim, qmark=cx.qmark)
                state["budget"] = max(state["budget"], 4)  # leave room for a staging form inside the unquote
                return ["unq", form(ucx, want_value=True)]
            raise AssertionError(k)

        n = draw(st.integers(1, max_top))
        forms = []
        for _ in range(n):
            forms.append(form(Cx([], [], True, 0), want_value=False))
        return dict(forms=forms)

    return prog()


def strip_calls(case):
    """repair: every call becomes a plain effect (keeps the rest of the shape)"""
    n = [0]

    def s(f):
        if is_lit(f):
            return f
        if f[0] == "call":
            n[0] += 1
            return ["e", "k%d" % n[0], 0]
        return rebuild(f, [s(c) for c in children(f)])

    return dict(forms=[s(f) for f in case["forms"]])


def key(case):
    return json.dumps(case, sort_keys=True)
