"""Engine A: generated Hy programs (JSON IR), a renderer to Hy text, a reference interpreter
that follows Hy's *documented* semantics directly, and the harness that runs the compiled code.

IR (JSON lists); every form is an expression with a value:
  ["lit", v]                       int / str / bool / None
  ["var", name]
  ["eff", id, v]                   (E id v): logs id, returns the literal v
  ["do", [e...]]
  ["if", c, a, b]   ["when", c, [e...]]   ["cond", [[c, e]...]]
  ["and", [e...]]   ["or", [e...]]   ["not", e]
  ["setv", [[name, e]...]]         value None
  ["setx", name, e]
  ["let", [[name, e]...], [e...]]
  ["fn", [params], [e...]]         ["call", f, [e...]]
  ["op", name, [e...]]             + - *  and two-operand comparisons = != < <= > >=
  ["list", [e...]]  ["tuple", [e...]]  ["dict", [[k, v]...]]
  ["get", e, i]     ["cut", e, a, b]     ["pop", name]  (.pop name): removes and returns the last element of the list in name
  ["while", c, [e...], else|None]  ["for", var, it, [e...], else|None]
  ["break"] ["continue"] ["return", e]
  ["raise", exc, id]               (raise (XA id))
  ["try", [e...], [[var|None, [exc...], [e...]]...], else|None, finally|None]
  ["with", [[var|None, id, enter_value, suppress(, pre_id)]...], [e...]]
                                   manager expression (CM id enter_value suppress); with the optional fifth element it is
                                   (do (E pre_id 0) (CM ...)), a manager expression that needs statements
  ["lfor", var, it, cond|None, e]

Trace: the interpreter records a series-parallel tree of effect events.  Seq = the documented order is
prescribed, Par = the order among the children is unspecified (call arguments, collection elements,
operator operands; docs/semantics.rst).  A real log is accepted iff it has the same multiset of events
and respects every Seq constraint.
"""
import itertools

EXC_NAMES = ["XA", "XB", "XC", "Exception"]


# ----------------------------------------------------------------------------- rendering


def lit_text(v):
    if v is None:
        return "None"
    if v is True:
        return "True"
    if v is False:
        return "False"
    if isinstance(v, int):
        return str(v)
    if isinstance(v, str):
        return '"' + v.replace("\\", "\\\\").replace('"', '\\"') + '"'
    raise ValueError("not a scalar literal: %r" % (v,))


def mgr_pre(m):
    """effect id evaluated (as a statement) before the manager object is built, or None"""
    return m[4] if len(m) > 4 else None


def mgr_text(m):
    cm = "(CM %d %s %s)" % (m[1], lit_text(m[2]), lit_text(m[3]))
    if mgr_pre(m) is not None:
        return "(do (E %d 0) %s)" % (mgr_pre(m), cm)
    return cm


def render(e, ind=0, multiline=False):
    """IR -> Hy text. With multiline=True every subform starts on its own line (used by C17)."""
    sp = "\n" + " " * (ind + 2) if multiline else " "
    r = lambda x: render(x, ind + 2, multiline)
    body = lambda xs: "".join(sp + r(x) for x in xs)
    k = e[0]
    if k == "lit":
        return lit_text(e[1])
    if k == "var":
        return e[1]
    if k == "eff":
        return "(E %d %s)" % (e[1], lit_text(e[2]))
    if k == "do":
        return "(do" + body(e[1]) + ")"
    if k == "if":
        return "(if" + sp + r(e[1]) + sp + r(e[2]) + sp + r(e[3]) + ")"
    if k == "when":
        return "(when" + sp + r(e[1]) + body(e[2]) + ")"
    if k == "cond":
        return "(cond" + "".join(sp + r(c) + sp + r(v) for c, v in e[1]) + ")"
    if k in ("and", "or"):
        return "(" + k + body(e[1]) + ")"
    if k == "not":
        return "(not" + sp + r(e[1]) + ")"
    if k == "setv":
        return "(setv" + "".join(sp + n + sp + r(v) for n, v in e[1]) + ")"
    if k == "setx":
        return "(setx " + e[1] + sp + r(e[2]) + ")"
    if k == "let":
        return "(let [" + " ".join(n + " " + r(v) for n, v in e[1]) + "]" + body(e[2]) + ")"
    if k == "fn":
        return "(fn [" + " ".join(e[1]) + "]" + body(e[2]) + ")"
    if k == "call":
        return "(" + r(e[1]) + body(e[2]) + ")"
    if k == "op":
        return "(" + e[1] + body(e[2]) + ")"
    if k == "list":
        return "[" + " ".join(r(x) for x in e[1]) + "]"
    if k == "tuple":
        return "#(" + " ".join(r(x) for x in e[1]) + ")"
    if k == "dict":
        return "{" + "  ".join(r(a) + " " + r(b) for a, b in e[1]) + "}"
    if k == "pop":
        return "(.pop " + e[1] + ")"
    if k == "get":
        return "(get" + sp + r(e[1]) + sp + r(e[2]) + ")"
    if k == "cut":
        return "(cut" + sp + r(e[1]) + sp + r(e[2]) + sp + r(e[3]) + ")"
    if k == "while":
        return "(while" + sp + r(e[1]) + body(e[2]) + (sp + "(else" + body(e[3]) + ")" if e[3] is not None else "") + ")"
    if k == "for":
        return "(for [" + e[1] + " " + r(e[2]) + "]" + body(e[3]) + (sp + "(else" + body(e[4]) + ")" if e[4] is not None else "") + ")"
    if k == "break":
        return "(break)"
    if k == "continue":
        return "(continue)"
    if k == "return":
        return "(return" + sp + r(e[1]) + ")"
    if k == "raise":
        return "(raise (%s %d))" % (e[1], e[2])
    if k == "try":
        s = "(try" + body(e[1])
        for var, excs, hb in e[2]:
            if not excs:
                spec = "[]" if var is None else "[%s Exception]" % var
            else:
                inner = excs[0] if len(excs) == 1 else "[" + " ".join(excs) + "]"
                spec = "[" + (var + " " if var else "") + inner + "]"
            s += sp + "(except " + spec + body(hb) + ")"
        if e[3] is not None:
            s += sp + "(else" + body(e[3]) + ")"
        if e[4] is not None:
            s += sp + "(finally" + body(e[4]) + ")"
        return s + ")"
    if k == "with":
        ms = " ".join("%s %s" % (m[0] or "_", mgr_text(m)) for m in e[1])
        return "(with [" + ms + "]" + body(e[2]) + ")"
    if k == "boom":
        return {"plain": "(BOOM)", "macro-arg": "(wrap (BOOM))", "macro-template": "(mboom)", "shared-atom": "(mshared)", "py-twice": '(py "BOOM()")',
                "passthru-op": "(passthru :tag\n(+ BOOMER\n1))", "passthru-get": "(passthru :tag\n:tag\n(get BOOMER\n1))"}[e[1]]
    if k == "lfor":
        return "(lfor " + e[1] + " " + r(e[2]) + (" :if " + r(e[3]) if e[3] is not None else "") + " " + r(e[4]) + ")"
    raise ValueError("unknown form %r" % (k,))


# ----------------------------------------------------------------------------- trace


class Trace:
    def __init__(self):
        self.root = ["seq", []]
        self.stack = [self.root]
        self.counts = {}

    def event(self, eid):
        n = self.counts.get(eid, 0)
        self.counts[eid] = n + 1
        self.stack[-1][1].append(("ev", (eid, n)))

    def open(self, kind):
        node = [kind, []]
        self.stack[-1][1].append(node)
        self.stack.append(node)
        return node

    def close(self, node):
        while self.stack[-1] is not node:
            self.stack.pop()
        self.stack.pop()


class _Ctx:
    def __init__(self, tr, kind):
        self.tr, self.kind = tr, kind

    def __enter__(self):
        self.node = self.tr.open(self.kind)

    def __exit__(self, *a):
        self.tr.close(self.node)
        return False


def accept(root, log):
    """log: list of event ids in real order. Returns None if accepted, else a reason."""
    counts = {}
    pos = {}
    for i, eid in enumerate(log):
        n = counts.get(eid, 0)
        counts[eid] = n + 1
        pos[(eid, n)] = i
    leaves = []

    def collect(node):
        if node[0] == "ev":
            leaves.append(node[1])
        else:
            for c in node[1]:
                collect(c)

    collect(root)
    if sorted(map(repr, leaves)) != sorted(map(repr, pos)):
        exp = {}
        for eid, n in leaves:
            exp[eid] = exp.get(eid, 0) + 1
        diff = {k: (exp.get(k, 0), counts.get(k, 0)) for k in set(exp) | set(counts) if exp.get(k, 0) != counts.get(k, 0)}
        return "effect multiset differs {id: (expected, actual)}: %r" % (diff,)

    def rng(node):
        if node[0] == "ev":
            p = pos[node[1]]
            return (p, p)
        lo, hi = None, None
        prev_hi = None
        for c in node[1]:
            r = rng(c)
            if isinstance(r, str):
                return r
            if r is None:
                continue
            if node[0] == "seq" and prev_hi is not None and r[0] < prev_hi:
                return "order violated: an effect of a later form ran before an effect of an earlier form (positions %d < %d)" % (r[0], prev_hi)
            prev_hi = r[1] if prev_hi is None else max(prev_hi, r[1])
            lo = r[0] if lo is None else min(lo, r[0])
            hi = r[1] if hi is None else max(hi, r[1])
        return None if lo is None else (lo, hi)

    r = rng(root)
    return r if isinstance(r, str) else None


# ----------------------------------------------------------------------------- interpreter


FUEL = 100000
MAX_EVENTS = 50000


class OutOfFuel(RuntimeError):
    pass


class Break(Exception):
    pass


class Continue(Exception):
    pass


class Return(Exception):
    def __init__(self, v):
        self.v = v


class Raised(Exception):
    """A Hy-level exception object (class name, payload id)."""

    def __init__(self, cls, payload):
        self.cls, self.payload = cls, payload


def exc_matches(cls, names):
    if not names:
        return True  # bare except
    for n in names:
        if n == cls:
            return True
        if n == "Exception" and cls in ("XA", "XB"):
            return True
    return False


def _faultmap(fault):
    """None | (k, cls) | [(k, cls), ...] -> {k: cls}"""
    if not fault:
        return {}
    if isinstance(fault, dict):
        return {int(k): v for k, v in fault.items()}
    if isinstance(fault[0], (list, tuple)):
        return {int(k): c for k, c in fault}
    return {int(fault[0]): fault[1]}


class Scope:
    def __init__(self, kind, parent):
        self.kind, self.parent, self.vars = kind, parent, {}


class Closure:
    def __init__(self, params, body, scope):
        self.params, self.body, self.scope = params, body, scope


class Interp:
    def __init__(self, fault=None, model_known=False):
        self.tr = Trace()
        self.module = Scope("module", None)
        self.fault = _faultmap(fault)  # {event_index: exc_class}
        self.nevents = 0
        # model_known=True reproduces the recorded finding C09-with-exit-raises-after-body instead of the documented
        # behaviour (used only to decide whether a disagreement IS that finding); model_hits counts how often it mattered
        self.model_known = model_known
        self.model_hits = 0
        self.steps = 0

    # -- scoping (names are unique by construction in Engine A's generator; see vf/props/c06 for shadowing)
    def lookup(self, name, sc):
        s = sc
        while s is not None:
            if name in s.vars:
                return s.vars[name]
            s = s.parent
        raise NameError(name)

    def assign(self, name, v, sc):
        s = sc
        while s is not None:
            if s.kind == "let":
                if name in s.vars:
                    s.vars[name] = v
                    return
                s = s.parent
                continue
            s.vars[name] = v  # function or module scope
            return

    def effect(self, eid):
        self.tr.event(eid)
        self.nevents += 1
        if self.nevents in self.fault:
            raise Raised(self.fault[self.nevents], -eid)

    def seq(self):
        return _Ctx(self.tr, "seq")

    def par(self):
        return _Ctx(self.tr, "par")

    def body(self, forms, sc):
        v = None
        with self.seq():
            for f in forms:
                v = self.ev(f, sc)
        return v

    def ev(self, e, sc):
        self.steps += 1
        if self.steps > FUEL:
            # generated loops are bounded by counters; only a reduced (shrunk) candidate can get here, and valid() rejects it
            raise OutOfFuel("reference interpreter exceeded %d evaluation steps" % FUEL)
        k = e[0]
        if k == "lit":
            return e[1]
        if k == "var":
            return self.lookup(e[1], sc)
        if k == "eff":
            self.effect(e[1])
            return e[2]
        if k == "do":
            return self.body(e[1], sc)
        if k == "if":
            with self.seq():
                return self.ev(e[2] if self.ev(e[1], sc) else e[3], sc)
        if k == "when":
            with self.seq():
                if self.ev(e[1], sc):
                    return self.body(e[2], sc)
                return None
        if k == "cond":
            with self.seq():
                for c, v in e[1]:
                    if self.ev(c, sc):
                        return self.ev(v, sc)
                return None
        if k == "and":
            with self.seq():
                v = True
                for x in e[1]:
                    v = self.ev(x, sc)
                    if not v:
                        return v
                return v
        if k == "or":
            with self.seq():
                v = None
                for x in e[1]:
                    v = self.ev(x, sc)
                    if v:
                        return v
                return v
        if k == "not":
            return not self.ev(e[1], sc)
        if k == "setv":
            with self.seq():
                for n, x in e[1]:
                    self.assign(n, self.ev(x, sc), sc)
            return None
        if k == "setx":
            v = self.ev(e[2], sc)
            self.assign(e[1], v, sc)
            return v
        if k == "let":
            inner = Scope("let", sc)
            with self.seq():
                for n, x in e[1]:
                    inner.vars[n] = self.ev(x, inner)
                return self.body(e[2], inner)
        if k == "fn":
            return Closure(e[1], e[2], sc)
        if k == "call":
            with self.seq():
                with self.par():
                    f = self.ev(e[1], sc)
                    args = [self.ev(a, sc) for a in e[2]]
                return self.call(f, args)
        if k == "op":
            with self.par():
                args = [self.ev(a, sc) for a in e[2]]
            return self.op(e[1], args)
        if k == "list":
            with self.par():
                return [self.ev(a, sc) for a in e[1]]
        if k == "tuple":
            with self.par():
                return tuple(self.ev(a, sc) for a in e[1])
        if k == "dict":
            with self.par():
                d = {}
                for a, b in e[1]:
                    kk = self.ev(a, sc)
                    d[kk] = self.ev(b, sc)
                return d
        if k == "pop":
            return self.lookup(e[1], sc).pop()
        if k == "get":
            with self.par():
                c = self.ev(e[1], sc)
                i = self.ev(e[2], sc)
            return c[i]
        if k == "cut":
            with self.par():
                c = self.ev(e[1], sc)
                a = self.ev(e[2], sc)
                b = self.ev(e[3], sc)
            return c[a:b]
        if k == "while":
            with self.seq():
                broke = False
                while self.ev(e[1], sc):
                    try:
                        self.body(e[2], sc)
                    except Break:
                        broke = True
                        break
                    except Continue:
                        continue
                if not broke and e[3] is not None:
                    self.body(e[3], sc)
            return None
        if k == "for":
            with self.seq():
                it = self.ev(e[2], sc)
                broke = False
                for x in it:
                    self.assign(e[1], x, sc)
                    try:
                        self.body(e[3], sc)
                    except Break:
                        broke = True
                        break
                    except Continue:
                        continue
                if not broke and e[4] is not None:
                    self.body(e[4], sc)
            return None
        if k == "break":
            raise Break()
        if k == "continue":
            raise Continue()
        if k == "return":
            raise Return(self.ev(e[1], sc))
        if k == "raise":
            raise Raised(e[1], e[2])
        if k == "boom":
            raise Raised("XBOOM", 0)
        if k == "try":
            return self.try_(e, sc)
        if k == "with":
            return self.with_(e[1], e[2], sc)
        if k == "lfor":
            with self.seq():
                it = self.ev(e[2], sc)
                inner = Scope("let", sc)
                out = []
                for x in it:
                    inner.vars[e[1]] = x
                    with self.seq():
                        if e[3] is not None and not self.ev(e[3], inner):
                            continue
                        out.append(self.ev(e[4], inner))
                return out
        raise ValueError("unknown form %r" % (k,))

    def op(self, name, args):
        import operator as o

        if name in ("+", "*"):
            f = {"+": o.add, "*": o.mul}[name]
            v = args[0]
            for a in args[1:]:
                v = f(v, a)
            return v
        if name == "-":
            if len(args) == 1:
                return -args[0]
            v = args[0]
            for a in args[1:]:
                v = v - a
            return v
        f = {"=": o.eq, "!=": o.ne, "<": o.lt, "<=": o.le, ">": o.gt, ">=": o.ge}[name]
        return f(args[0], args[1])

    def call(self, f, args):
        sc = Scope("function", f.scope)
        for p, a in zip(f.params, args):
            sc.vars[p] = a
        try:
            return self.body(f.body, sc)
        except Return as r:
            return r.v

    def try_(self, e, sc):
        body, handlers, els, fin = e[1], e[2], e[3], e[4]
        with self.seq():
            try:
                try:
                    v = self.body(body, sc)
                except Raised as x:
                    for var, excs, hb in handlers:
                        if exc_matches(x.cls, excs if not (var and not excs) else ["Exception"]):
                            inner = sc
                            if var is not None:
                                inner = Scope("let", sc)
                                inner.vars[var] = ("exc", x.cls, x.payload)
                            return self.body(hb, inner)
                    raise
                else:
                    if els is not None:
                        v = self.body(els, sc)
                    return v
            finally:
                if fin is not None:
                    self.body(fin, sc)

    def with_(self, mgrs, body, sc, stmt=None):
        """Documented behaviour: the managers nest (Python's `with A, B` = `with A: with B`), the value is the body's,
        or None when some manager suppresses an exception.
        `stmt` only serves model_known: it stands for the Python `with` statement the manager is compiled into (Hy
        starts a new nested statement at a manager whose expression needs statements) and records whether the result
        variable of that statement was assigned, which happens at the end of the statement's body."""
        if not mgrs:
            v = self.body(body, sc)
            if stmt is not None:
                stmt["assigned"], stmt["v"] = True, v
            return v
        m, rest = mgrs[0], mgrs[1:]
        var, cid, ev, sup = m[:4]
        pre = mgr_pre(m)
        outer = None
        if stmt is None or pre is not None:
            outer, stmt = stmt, dict(assigned=False, v=None)
        with self.seq():
            if pre is not None:
                self.effect(pre)
            v = self.with1(var, cid, ev, sup, rest, body, sc, stmt)
        if outer is not None:
            # the nested statement completed: its value is stored as the enclosing statement's result
            outer["assigned"], outer["v"] = True, v
        return v

    def with1(self, var, cid, ev, sup, rest, body, sc, stmt):
        self.effect(1000 + cid * 10 + 1)  # __enter__
        if var is not None:
            self.assign(var, ev, sc)
        try:
            v = self.with_(rest, body, sc, stmt)
        except Raised as x:
            self.effect(1000 + cid * 10 + 2)  # __exit__ with exception
            if sup and x.cls in ("XA", "XB", "XC"):
                if self.model_known and stmt["assigned"]:
                    # the suppressed exception was raised by an inner manager's __exit__ of the same Python `with`
                    # statement after its body had completed: the stored body value survives
                    if canon(stmt["v"]) != "None":
                        self.model_hits += 1
                    return stmt["v"]
                return None
            raise
        except (Break, Continue, Return):
            self.effect(1000 + cid * 10 + 2)
            raise
        else:
            self.effect(1000 + cid * 10 + 2)
            return v


def canon(v):
    """Type-tagged canonical form of a result value."""
    if isinstance(v, Closure) or callable(v):
        return "<function>"
    if isinstance(v, bool) or v is None:
        return repr(v)
    if isinstance(v, int):
        return "int:%d" % v
    if isinstance(v, str):
        return "str:%r" % v
    if isinstance(v, list):
        return "[" + ", ".join(canon(x) for x in v) + "]"
    if isinstance(v, tuple):
        if len(v) == 3 and v[0] == "exc":
            return "<exc %s %s>" % (v[1], v[2])
        return "(" + ", ".join(canon(x) for x in v) + ")"
    if isinstance(v, dict):
        return "{" + ", ".join(canon(a) + ": " + canon(b) for a, b in v.items()) + "}"
    if isinstance(v, BaseException):
        return "<exc %s %s>" % (type(v).__name__, getattr(v, "payload", "?"))
    return "<%s>" % type(v).__name__


def interpret(prog, mode="module", fault=None, model_known=False):
    """prog: list of top-level forms; the value of the last one is the result.
    -> dict(value, exc, trace_root, log, nevents)"""
    it = Interp(fault, model_known)
    sc = it.module if mode == "module" else Scope("function", it.module)
    out = dict(value=None, exc=None)
    try:
        v = it.body(prog, sc)
        out["value"] = canon(v)
    except Raised as x:
        out["exc"] = "%s:%s" % (x.cls, x.payload)
    except Return as r:
        out["value"] = canon(r.v)
    out["trace"] = it.tr.root
    out["nevents"] = it.nevents
    out["model_hits"] = it.model_hits
    return out


# ----------------------------------------------------------------------------- real execution


class XA(Exception):
    def __init__(self, payload=0):
        super().__init__(payload)
        self.payload = payload


class XB(Exception):
    def __init__(self, payload=0):
        super().__init__(payload)
        self.payload = payload


class XC(BaseException):
    def __init__(self, payload=0):
        super().__init__(payload)
        self.payload = payload


class XBOOM(BaseException):
    payload = 0


class XRUNAWAY(BaseException):
    """raised by the harness when a run logs more than MAX_EVENTS effects (the reference never does: see FUEL)"""

    payload = 0


def BOOM():
    raise XBOOM()


class _Boomer:
    """operand whose use by a core operator / subscript form raises XBOOM (C17: the raising form is then a core macro form)"""

    def __add__(self, other):
        raise XBOOM()

    def __getitem__(self, k):
        raise XBOOM()


BOOMER = _Boomer()


_EXC = {"XA": XA, "XB": XB, "XC": XC}


class Harness:
    def __init__(self, fault=None):
        self.log = []
        self.fault = _faultmap(fault)
        self.n = 0

    def hit(self, eid):
        self.log.append(eid)
        self.n += 1
        if self.n > MAX_EVENTS:
            raise XRUNAWAY()
        if self.n in self.fault:
            raise _EXC[self.fault[self.n]](-eid)

    def E(self, eid, v):
        self.hit(eid)
        return v

    def CM(self, cid, enter_value, suppress):
        h = self

        class _CM:
            def __enter__(s):
                h.hit(1000 + cid * 10 + 1)
                return enter_value

            def __exit__(s, et, ev, tb):
                h.hit(1000 + cid * 10 + 2)
                return bool(suppress) and et is not None and et in (XA, XB, XC)

        return _CM()

    def namespace(self):
        return dict(E=self.E, CM=self.CM, XA=XA, XB=XB, XC=XC, BOOM=BOOM, BOOMER=BOOMER)


def wrap_source(prog, mode, multiline=False):
    forms = [render(f, 0, multiline) for f in prog]
    if mode == "module":
        return "\n".join(forms[:-1] + ["(setv RESULT %s)" % forms[-1]])
    if mode == "function":
        return "(defn MAIN []\n  " + "\n  ".join(forms) + ")\n(setv RESULT (MAIN))"
    raise ValueError(mode)


def compile_source(src, name="vfprog"):
    import types

    import hy
    from hy.compiler import hy_compile

    mod = types.ModuleType(name)
    tree = hy_compile(hy.read_many(src, filename="<%s>" % name), mod, source=src, filename="<%s>" % name)
    return mod, tree


def run_real(src, fault=None, via="ast", name="vfprog"):
    """-> dict(value, exc, log) ; raises on compile errors."""
    import ast

    mod, tree = compile_source(src, name)
    h = Harness(fault)
    mod.__dict__.update(h.namespace())
    if via == "ast":
        code = compile(tree, "<%s>" % name, "exec")
    else:
        code = compile(ast.unparse(tree), "<%s-unparsed>" % name, "exec")
    out = dict(value=None, exc=None)
    try:
        exec(code, mod.__dict__)
        out["value"] = canon(mod.__dict__.get("RESULT"))
    except (XA, XB, XC) as x:
        out["exc"] = "%s:%s" % (type(x).__name__, x.payload)
    out["log"] = h.log
    out["globals"] = mod.__dict__
    out["tree"] = tree
    return out


class Compiled:
    """Compile a program once, run it many times (fresh module namespace per run)."""

    def __init__(self, prog, mode="module", via="ast", name="vfprog", multiline=False, prelude=""):
        import ast

        self.prog, self.mode, self.name = prog, mode, name
        self.src = prelude + wrap_source(prog, mode, multiline)
        mod, tree = compile_source(self.src, name)
        self.tree = tree
        self.base = dict(mod.__dict__)
        self.code = compile(tree, "<%s>" % name, "exec") if via == "ast" else compile(ast.unparse(tree), "<%s-unparsed>" % name, "exec")

    def run(self, fault=None):
        h = Harness(fault)
        ns = dict(self.base)
        ns.update(h.namespace())
        out = dict(value=None, exc=None)
        try:
            exec(self.code, ns)
            out["value"] = canon(ns.get("RESULT"))
        except (XA, XB, XC, XBOOM) as x:
            out["exc"] = "%s:%s" % (type(x).__name__, x.payload)
            out["exception"] = x
        out["log"] = h.log
        out["globals"] = ns
        return out

    def check(self, fault=None):
        ref = interpret(self.prog, self.mode, fault)
        try:
            real = self.run(fault)
        except XRUNAWAY:
            return ("real-run-runaway", dict(source=self.src, fault=fault, error="more than %d effects logged; the reference terminates" % MAX_EVENTS))
        except Exception as e:  # noqa
            return ("real-run-raised:" + type(e).__name__, dict(source=self.src, fault=fault, error=str(e)[:300]))
        r = _judge(self.src, ref, real, fault)
        if r is not None:
            # is this disagreement exactly the recorded finding? Only if the run agrees in value, exception and trace with
            # the reference that models that one defect, and the defect's path was actually taken
            ref2 = interpret(self.prog, self.mode, fault, model_known=True)
            if ref2["model_hits"] > 0 and _judge(self.src, ref2, real, fault) is None:
                return (r[0] + KNOWN_WITH_TAG, dict(r[1], agrees_with_model_of="C09-with-exit-raises-after-body"))
        return r


KNOWN_WITH_TAG = "|exit-raises-after-body-then-suppressed"


def _judge(src, ref, real, fault=None):
    extra = dict(fault=fault) if fault else {}
    if ref["exc"] != real["exc"]:
        return ("exception-differs", dict(source=src, expected=ref["exc"] or "value " + str(ref["value"]), actual=real["exc"] or "value " + str(real["value"]), log=real["log"], **extra))
    if ref["exc"] is None and ref["value"] != real["value"]:
        return ("value-differs", dict(source=src, expected=ref["value"], actual=real["value"], log=real["log"], **extra))
    why = accept(ref["trace"], real["log"])
    if why:
        return ("trace:" + why.split(":")[0].split(" {")[0], dict(source=src, why=why, log=real["log"], **extra))
    return None


def compare(prog, mode="module", fault=None, via="ast"):
    """None if the real run agrees with the reference interpreter, else (kind, detail)."""
    src = wrap_source(prog, mode)
    ref = interpret(prog, mode, fault)
    try:
        real = run_real(src, fault, via)
    except SyntaxError as e:
        return ("compile-error:" + type(e).__name__, dict(source=src, error=str(e)[:300]))
    except Exception as e:  # noqa
        return ("real-run-raised:" + type(e).__name__, dict(source=src, error=str(e)[:300]))
    if ref["exc"] != real["exc"]:
        return ("exception-differs", dict(source=src, expected=ref["exc"] or "value " + str(ref["value"]), actual=real["exc"] or "value " + str(real["value"]), log=real["log"]))
    if ref["exc"] is None and ref["value"] != real["value"]:
        return ("value-differs", dict(source=src, expected=ref["value"], actual=real["value"], log=real["log"]))
    why = accept(ref["trace"], real["log"])
    if why:
        return ("trace:" + why.split(":")[0].split(" {")[0], dict(source=src, why=why, log=real["log"]))
    return None


# ----------------------------------------------------------------------------- validity of an IR program
# (used after shrinking / for replayed cases: a reduced program must still obey the generator's discipline,
#  otherwise a disagreement could be one the documentation allows)

_PAR_FORMS = ("call", "op", "list", "tuple", "dict", "get", "cut")
_EXIT_FORMS = ("raise", "return", "break", "continue")


def _walk(x):
    if isinstance(x, list):
        if x and isinstance(x[0], str):
            yield x
        for y in x:
            yield from _walk(y)


def _info(node):
    reads, writes, eff, exits = set(), set(), False, False
    for n in _walk(node):
        k = n[0]
        if k == "var" and len(n) == 2 and isinstance(n[1], str):
            reads.add(n[1])
        elif k == "pop" and len(n) == 2 and isinstance(n[1], str):
            reads.add(n[1])
            writes.add(n[1])  # mutation of the object the variable holds
        elif k == "eff" or k == "with":
            eff = True
        elif k in _EXIT_FORMS:
            exits = True
        if k == "setv":
            for pair in n[1]:
                writes.add(pair[0])
        elif k == "setx" or k == "for" or k == "lfor":
            writes.add(n[1])
        elif k == "with":
            for m in n[1]:
                if m[0]:
                    writes.add(m[0])
        elif k == "try":
            for h in n[2]:
                if h[0]:
                    writes.add(h[0])
    return reads, writes, eff, exits


def _par_children(n):
    k = n[0]
    if k == "call":
        return [n[1]] + list(n[2])
    if k in ("op", "list", "tuple"):
        return list(n[-1])
    if k == "dict":
        return [x for pair in n[1] for x in pair]
    if k == "get":
        return [n[1], n[2]]
    if k == "cut":
        return [n[1], n[2], n[3]]
    return []


def _jumps_out(x, loop=False, fn=False):
    """does x contain a break/continue not inside a loop of x, or a return not inside a function of x?"""
    if not isinstance(x, list):
        return False
    if x and isinstance(x[0], str):
        k = x[0]
        if k in ("break", "continue"):
            return not loop
        if k == "return":
            return not fn or _jumps_out(x[1], loop, fn)
        if k == "fn":
            return _jumps_out(x[2], False, True)
        if k == "while":
            return _jumps_out(x[1], loop, fn) or _jumps_out(x[2], True, fn) or _jumps_out(x[3], loop, fn)
        if k == "for":
            return _jumps_out(x[2], loop, fn) or _jumps_out(x[3], True, fn) or _jumps_out(x[4], loop, fn)
        if k in ("lit", "eff", "raise", "var"):
            return False
    return any(_jumps_out(y, loop, fn) for y in x)


def valid(prog):
    """Structural well-formedness + the Par discipline + the reference interpreter runs it without Python-level errors."""
    try:
        for f in prog:
            render(f)
        binders = []
        for n in _walk(prog):
            k = n[0]
            if k == "lfor" and _jumps_out(n[2]):
                return False  # the documentation does not define break/continue/return in a comprehension's iterable
            if k == "try":
                hs = n[2]
                for i, h in enumerate(hs):
                    if h[0] is None and not h[1] and i != len(hs) - 1:
                        return False  # a bare except must be last
            if k in ("let",):
                binders += [b[0] for b in n[1]]
            if k == "fn":
                binders += list(n[1])
            if k in ("for", "lfor"):
                binders.append(n[1])
            if k in _PAR_FORMS:
                kids = _par_children(n)
                infos = [_info(c) if c[0] != "fn" else (set(), set(), False, False) for c in kids]
                if n[0] == "call" and n[1][0] == "fn":
                    pass
                for i, a in enumerate(infos):
                    for j, b in enumerate(infos):
                        if i != j and a[1] & (b[0] | b[1]):
                            return False
                    if a[3]:
                        for j, b in enumerate(infos):
                            if i != j and (b[2] or b[1] or kids[j][0] not in ("lit", "var", "list", "fn")):
                                return False
        if len(binders) != len(set(binders)):
            return False
        for mode in ("module", "function"):
            interpret(prog, mode)
        return True
    except (Raised, Break, Continue, Return):
        return False
    except Exception:
        return False
