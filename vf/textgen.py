"""Engine B: generated Hy *text* with known structure.

A syntax tree S (plain JSON: lists, strings, ints, None) is drawn by Hypothesis
and rendered deterministically into
  * the source text,
  * the expected hy.models tree, built with model constructors (never by
    calling the reader),
  * the character span of every form,
  * the "open construct" intervals: (lo, hi, kind) meaning that a prefix
    text[:i] with lo < i < hi ends inside that unclosed construct,
  * top-level atom extents (to tell "between forms" from "mid-token" cuts).

Node kinds
  ["sym", text]                      symbol
  ["dot", ndots, [part, ...]]        dotted identifier a.b / .a.b
  ["kw", text]                       keyword
  ["num", text]                      numeric literal
  ["str", prefix, [[src, val], ...]] "..." literal; val is the denoted text (latin-1 for bytes)
  ["bstr", delim, lead_nl, content]  #[delim[ ... ]delim]
  ["fstr", prefix_or_None, delim_or_None, lead_nl, [part, ...]]
        part = ["lit", [[src, val], ...]]
             | ["field", node, ws0, ws1, dbg (None | ws_after_equals), conv (None | "r"/"s"/"a"), spec (None | [part...]), ws2]
  ["seq", opener, [item, ...]]       opener in ( [ { #( #{
  ["pre", name, sugar, [sep...], node]  quote quasiquote unquote unquote-splice unpack-iterable unpack-mapping
  ["ann", sugar, [sep...], type_node, [sep...], target_node]
Separators (items of seq and of the top level)
  ["ws", text]  ["cmt", text, eol]  ["dis", [sep...], node]
"""
import math

SUGAR = {
    "quote": "'",
    "quasiquote": "`",
    "unquote": "~",
    "unquote-splice": "~@",
    "unpack-iterable": "#*",
    "unpack-mapping": "#**",
}
CLOSER = {"(": ")", "[": "]", "{": "}", "#(": ")", "#{": "}"}
SELF_DELIM_START = set("([{'`~;")
SEP_KINDS = ("ws", "cmt", "dis")


def is_sep(item):
    return item[0] in SEP_KINDS


class Rendered:
    __slots__ = ("text", "models", "spans", "opens", "atoms", "top_ends", "features")


class _R:
    def __init__(self):
        import hy.models as M

        self.M = M
        self.buf = []
        self.n = 0
        self.tail_ident = False  # last emitted thing needs separation from an identifier-like start
        self.spans = []  # (start_off, end_off_inclusive, model, kind)
        self.opens = []  # (lo, hi, kind)
        self.atoms = []  # (start, end_exclusive) of atoms at top level
        self.depth = 0
        self.features = set()

    # -- low level -----------------------------------------------------------
    def raw(self, s, tail_ident=False):
        if s:
            self.buf.append(s)
            self.n += len(s)
            self.tail_ident = tail_ident

    def start_token(self, first_char):
        if self.tail_ident and first_char not in SELF_DELIM_START:
            self.raw(" ")

    # -- separators ------------------------------------------------------------
    def sep(self, item):
        k = item[0]
        if k == "ws":
            self.raw(item[1])
        elif k == "cmt":
            self.raw(";" + item[1] + item[2])
            self.features.add("comment")
        elif k == "dis":
            self.features.add("discard")
            lo = self.n
            self.start_token("#")
            lo = self.n
            self.raw("#_", tail_ident=True)
            for s in item[1]:
                self.sep(s)
            start_child = self._peek_start(item[2])
            self.opens.append((lo, start_child + 1, "after-prefix:#_"))
            self.depth += 1
            self.node(item[2], record=False)
            self.depth -= 1
        else:
            raise ValueError(item)

    def _peek_start(self, node):
        """offset at which the child's first character will be written"""
        first = first_char_of(node)
        return self.n + (1 if (self.tail_ident and first not in SELF_DELIM_START) else 0)

    # -- nodes -------------------------------------------------------------------
    def node(self, nd, record=True):
        M = self.M
        k = nd[0]
        if k in ("sym", "kw", "num", "dot"):
            text = atom_text(nd)
            self.start_token(text[0])
            s = self.n
            self.raw(text, tail_ident=True)
            self.atoms.append((s, self.n))
            m = atom_model(M, nd)
            if record:
                self.spans.append((s, self.n - 1, m, k))
            return m
        if k == "str":
            prefix, pieces = nd[1], nd[2]
            self.start_token((prefix or '"')[0])
            s = self.n
            self.raw(prefix)
            q = self.n
            if prefix:
                self.atoms.append((s, q + 1))
            self.raw('"' + "".join(p[0] for p in pieces) + '"')
            self.opens.append((q, self.n, "string"))
            val = pieces_value(pieces)
            m = M.Bytes(val.encode("latin-1")) if "b" in prefix else M.String(val)
            if record:
                self.spans.append((s, self.n - 1, m, k))
            self.features.add("string")
            if any("\n" in p[0] or "\r" in p[0] for p in pieces):
                self.features.add("multiline-string")
            return m
        if k == "bstr":
            delim, lead, content = nd[1], nd[2], nd[3]
            self.start_token("#")
            s = self.n
            self.raw("#[" + delim + "[" + lead + content + "]" + delim + "]")
            self.opens.append((s, self.n, "bracket-string"))
            m = M.String(norm_nl(content), brackets=delim)
            if record:
                self.spans.append((s, self.n - 1, m, k))
            self.features.add("bracket-string")
            if "\n" in lead + content or "\r" in lead + content:
                self.features.add("multiline-string")
            return m
        if k == "fstr":
            return self.fstr(nd, record)
        if k == "seq":
            opener, items = nd[1], nd[2]
            self.start_token(opener[0])
            s = self.n
            self.raw(opener)
            self.depth += 1
            ms = []
            for it in items:
                if is_sep(it):
                    self.sep(it)
                else:
                    ms.append(self.node(it))
            self.depth -= 1
            self.raw(CLOSER[opener])
            self.opens.append((s, self.n, "seq:" + opener))
            cls = {"(": M.Expression, "[": M.List, "{": M.Dict, "#(": M.Tuple, "#{": M.Set}[opener]
            m = cls(ms)
            if record:
                self.spans.append((s, self.n - 1, m, "seq" + opener))
            return m
        if k == "pre":
            name, sugar, gap, child = nd[1], nd[2], nd[3], nd[4]
            if not sugar:
                return self.node(["seq", "(", [["sym", name], ["ws", " "], *gap, child]], record)
            self.features.add("sugar")
            tok = SUGAR[name]
            self.start_token(tok[0])
            s = self.n
            self.raw(tok, tail_ident=tok.startswith("#"))
            if tok == "~" and not gap and first_char_of(child) == "@":
                self.raw(" ")
            for sp in gap:
                self.sep(sp)
            cs = self._peek_start(child)
            self.opens.append((s, cs + 1, "after-prefix:" + tok))
            self.depth += 1
            cm = self.node(child)
            self.depth -= 1
            m = M.Expression([M.Symbol(name, from_parser=True), cm])
            if record:
                self.spans.append((s, self.n - 1, m, "sugar:" + tok))
            return m
        if k == "ann":
            sugar, gap1, typ, gap2, target = nd[1], nd[2], nd[3], nd[4], nd[5]
            if not sugar:
                return self.node(["seq", "(", [["sym", "annotate"], ["ws", " "], target, ["ws", " "], *gap1, *gap2, typ]], record)
            self.features.add("sugar")
            self.start_token("#")
            s = self.n
            self.raw("#^", tail_ident=True)
            for sp in gap1:
                self.sep(sp)
            self.depth += 1
            tm = self.node(typ)
            for sp in gap2:
                self.sep(sp)
            cs = self._peek_start(target)
            self.opens.append((s, cs + 1, "after-prefix:#^"))
            xm = self.node(target)
            self.depth -= 1
            m = M.Expression([M.Symbol("annotate", from_parser=True), xm, tm])
            if record:
                self.spans.append((s, self.n - 1, m, "sugar:#^"))
            return m
        raise ValueError("unknown node %r" % (nd,))

    def fstr(self, nd, record):
        M = self.M
        prefix, delim, lead, parts = nd[1], nd[2], nd[3], nd[4]
        self.features.add("fstring")
        if delim is None:
            self.start_token(prefix[0])
            s = self.n
            self.raw(prefix)
            q = self.n
            self.atoms.append((s, q + 1))
            self.raw('"')
        else:
            self.start_token("#")
            s = q = self.n
            self.raw("#[" + delim + "[" + lead)
            self.features.add("bracket-fstring")
        self.depth += 1
        comps = self.fparts(parts, "t" in (prefix or ""))
        self.depth -= 1
        self.raw('"' if delim is None else "]" + delim + "]")
        self.opens.append((q, self.n, "fstring"))
        m = M.FString(comps, brackets=delim, is_tstring="t" in (prefix or ""))
        if record:
            self.spans.append((s, self.n - 1, m, "fstr"))
        return m

    def fparts(self, parts, is_t):
        M = self.M
        comps = []
        for p in parts:
            if p[0] == "lit":
                self.raw("".join(x[0] for x in p[1]))
                val = pieces_value(p[1])
                if val:
                    comps.append(M.String(val))
            elif p[0] != "field":
                raise ValueError("unknown f-string part %r" % (p[0],))
            else:
                _, child, ws0, ws1, dbg, conv, spec, ws2 = p
                if not ws0 and first_char_of(child) == "{":
                    ws0 = " "  # "{{" would be an escaped brace
                lo = self.n
                self.raw("{" + ws0)
                self.tail_ident = False
                cs = self.n
                cm = self.node(child)
                form_text = "".join(self.buf)[cs:self.n]
                follow = "=" if dbg is not None else "!" if conv else ":" if spec is not None else "}"
                if self.tail_ident and follow != "}" and not ws1:
                    ws1 = " "
                self.raw(ws1)
                if dbg is not None:
                    self.features.add("fstring-debug")
                    self.raw("=" + dbg)
                    # the text the = syntax copies from the source is literal text like any other: newlines are normalised,
                    # and it continues the literal chunk before the field (one component)
                    dtext = (ws0 + form_text + ws1 + "=" + dbg).replace("\r\n", "\n").replace("\r", "\n")
                    if comps and type(comps[-1]) is M.String:
                        comps[-1] = M.String(str(comps[-1]) + dtext)
                    else:
                        comps.append(M.String(dtext))
                conversion = conv
                if conv:
                    self.raw("!" + conv + ws2)
                speccomps = []
                if spec is not None:
                    self.features.add("fstring-spec")
                    self.raw(":")
                    speccomps = self.fparts(spec, False)
                elif dbg is not None and conv is None:
                    conversion = "r"
                self.raw("}")
                self.opens.append((lo, self.n, "fstring-field"))
                comps.append(M.FComponent((cm, *speccomps), conversion=conversion, expression=form_text, is_tstring=is_t))
        return comps


def pieces_value(pieces):
    """denoted text of a piece list; a piece ending in CR followed by one starting with LF forms one CRLF"""
    out = []
    prev_cr = False
    for src, val in pieces:
        if prev_cr and src.startswith("\n") and val.startswith("\n"):
            val = val[1:]
        out.append(val)
        if src:
            prev_cr = src.endswith("\r")
    return "".join(out)


def norm_nl(s):
    return s.replace("\r\n", "\n").replace("\r", "\n")


def atom_text(nd):
    k = nd[0]
    if k == "sym" or k == "num":
        return nd[1]
    if k == "kw":
        return ":" + nd[1]
    if k == "dot":
        return "." * nd[1] + ".".join(nd[2])
    raise ValueError(nd)


def first_char_of(nd):
    k = nd[0]
    if k in ("sym", "num", "kw", "dot"):
        return atom_text(nd)[0]
    if k == "str":
        return (nd[1] or '"')[0]
    if k == "bstr":
        return "#"
    if k == "fstr":
        return nd[1][0] if nd[2] is None else "#"
    if k == "seq":
        return nd[1][0]
    if k == "pre":
        return SUGAR[nd[1]][0] if nd[2] else "("
    if k == "ann":
        return "#" if nd[1] else "("
    raise ValueError(nd)


def num_value(text):
    """Independent evaluation of the numeric literal subset used by this engine."""
    t = text.replace("_", "").replace(",", "")
    sign = 1
    body = t
    if body[0] in "+-":
        sign = -1 if body[0] == "-" else 1
        body = body[1:]
    low = body.lower()
    if low.startswith(("0x", "0o", "0b")):
        return ("int", sign * int(body, 0))
    if body.isdigit():
        return ("int", sign * int(body, 10))
    if low.endswith("j"):
        return ("complex", complex(t))
    return ("float", float(t))


def atom_model(M, nd):
    k = nd[0]
    if k == "sym":
        return M.Symbol(nd[1], from_parser=True)
    if k == "kw":
        return M.Keyword(nd[1], from_parser=True)
    if k == "num":
        kind, v = num_value(nd[1])
        return {"int": M.Integer, "float": M.Float, "complex": M.Complex}[kind](v)
    if k == "dot":
        parts = [M.Symbol(p, from_parser=True) for p in nd[2]]
        if nd[1] == 0:
            return M.Expression([M.Symbol(".", from_parser=True), *parts])
        return M.Expression([M.Symbol("." * nd[1], from_parser=True), M.Symbol("None", from_parser=True), *parts])


def render(items):
    """items: top-level list of nodes and separators."""
    validate(items)
    r = _R()
    models = []
    top_ends = []  # (end_offset_exclusive_of_top_level_form, number_of_models_so_far)
    for it in items:
        if is_sep(it):
            r.sep(it)
        else:
            models.append(r.node(it))
            top_ends.append((r.n, len(models)))
    out = Rendered()
    out.text = "".join(r.buf)
    out.models = models
    out.spans = r.spans
    out.opens = r.opens
    out.atoms = r.atoms
    out.top_ends = top_ends
    out.features = r.features
    return out


def offset_to_linecol(text):
    """-> list pos[i] = (line, col) of character i as the reader counts (only \\n breaks lines)."""
    pos = []
    line, col = 1, 0
    for ch in text:
        col += 1
        pos.append((line, col))
        if ch == "\n":
            line += 1
            col = 0
    return pos


def classify_cut(rd, i):
    """('open', kind) | ('between', n_models) | ('midtoken', None) for the prefix text[:i]."""
    best = None
    for lo, hi, kind in rd.opens:
        if lo < i < hi and (best is None or (hi - lo) < best[0]):
            best = (hi - lo, kind)
    if best is not None:
        return ("open", best[1])
    for s, e in rd.atoms:
        if s < i < e:
            return ("midtoken", None)
    n = 0
    for end, cnt in rd.top_ends:
        if end <= i:
            n = cnt
    return ("between", n)


# -- model comparison ------------------------------------------------------------


def model_diff(a, b, path="", attrs=("brackets", "conversion", "is_tstring", "expression")):
    """None if equal (type-exact, value-exact with NaN == NaN, listed attributes equal), else a description."""
    import hy.models as M

    if type(a) is not type(b):
        return "%s: type %s != %s" % (path or ".", type(a).__name__, type(b).__name__)
    if isinstance(a, M.Sequence):
        if len(a) != len(b):
            return "%s: length %d != %d" % (path or ".", len(a), len(b))
        for at in attrs:
            if hasattr(a, at) or hasattr(b, at):
                if getattr(a, at, "<missing>") != getattr(b, at, "<missing>"):
                    return "%s: attribute %s %r != %r" % (path or ".", at, getattr(a, at, "<missing>"), getattr(b, at, "<missing>"))
        for i, (x, y) in enumerate(zip(a, b)):
            d = model_diff(x, y, "%s[%d]" % (path, i), attrs)
            if d:
                return d
        return None
    if isinstance(a, M.Keyword):
        return None if a.name == b.name else "%s: keyword %r != %r" % (path or ".", a.name, b.name)
    if isinstance(a, M.String) and "brackets" in attrs:
        if a.brackets != b.brackets:
            return "%s: brackets %r != %r" % (path or ".", a.brackets, b.brackets)
    if isinstance(a, M.Float):
        fa, fb = float(a), float(b)
        if (math.isnan(fa) and math.isnan(fb)) or fa == fb:
            return None
        return "%s: float %r != %r" % (path or ".", fa, fb)
    if isinstance(a, M.Complex):
        ca, cb = complex(a), complex(b)

        def eq(x, y):
            return (math.isnan(x) and math.isnan(y)) or x == y

        return None if eq(ca.real, cb.real) and eq(ca.imag, cb.imag) else "%s: complex %r != %r" % (path or ".", ca, cb)
    base = str if isinstance(a, str) else bytes if isinstance(a, bytes) else int if isinstance(a, int) else None
    if base is not None:
        return None if base(a) == base(b) else "%s: %r != %r" % (path or ".", base(a), base(b))
    return None if a == b else "%s: %r != %r" % (path or ".", a, b)


# -- Hypothesis strategies ---------------------------------------------------------

SYMBOLS = [
    "a", "b", "x", "y", "foo", "bar", "foo-bar", "foo_bar", "*x*", "x?", "x!", "->", "->>", "<=", "+", "-", "--", "*", "/",
    "_", "__", "-a", "_a", "None", "True", "False", "j", "J", "nan", "inf", "e5", "1+", "+1x", "x1", "a:b", "a#b", "a#", "a:",
    "&rest", "%", "$", "^", "|", "<", ">", "=", "!=", "?", "!", ",", ",a", "a,b", "@", "@x", "x@", "λ", "é", "中", "🦑", "hyx_XaX",
    "quote", "unquote", "unpack-iterable", "fn", "if", "do", "setv", "...", "..", ".", "if-not", "r", "b", "f", "rb", "t", "fr",
    "N", "U", "x{", "x}y",
]
# NON_IDENT = ()[]{};"'`~  -> "x{" / "x}y" are NOT valid symbols; removed below
SYMBOLS = [s for s in SYMBOLS if not set(s) & set("()[]{};\"'`~")]
PLAIN_SYMBOLS = [s for s in SYMBOLS if "." not in s]
KEYWORDS = ["a", "foo", "foo-bar", "", "x?", "a:b", "1", "-", "_", "λ", "a#", "+", "key_1", "&", "@"]
NUMBERS = [
    "0", "1", "7", "42", "-3", "+5", "007", "1_000", "1,000", "1_,0", "10_", "0x1F", "0XfF", "0o17", "0b101", "-0x10",
    "1.5", "-2.5", "1.", ".5", "1e3", "1E-3", "-1.5e+10", "1_0.5", "1,000.5", "2j", "-2J", "1.5j", "1+2j", "1-2j", "1e2+3.5j",
    "123456789012345678901234567890", "0.1", "1e309", "-1e309",
]


WS = [" ", " ", "  ", "\n", "\t", "\r\n", "\n\n", " \n ", "\x0c", "\x0b", "\r"]
WS_INLINE = ["", " ", "  ", "\t"]
# (a lone CR does not end a line for the reader, so it does not end a comment either: the rest of the line stays comment text)
CMT_TEXT = ["", " c", " (", ' "', " #[[", "; x", " '", " {", "\\", " é", " ]", " first\rsecond (", "\r x", " a\r\""]
GEN_SYM_ALPHABET = "abgkxyzλ_!$%&*+-/<=>?@^|:#019"
DOT_PARTS = ["a", "b", "foo", "x?", "foo-bar", "_", "λ", "a1", "e5", "j"]
PLAIN_PIECES = [["a", "a"], ["b c", "b c"], [" ", " "], ["'", "'"], [";", ";"], ["(", "("], [")", ")"], ["#", "#"],
                ["[", "["], ["é", "é"], ["🦑", "🦑"], ["~", "~"], ["x", "x"], ["1", "1"], [":", ":"], ["!", "!"], ["=", "="]]
NL_PIECES = [["\n", "\n"], ["\r\n", "\n"], ["\r", "\n"]]
ESC_PIECES = [["\\n", "\n"], ["\\t", "\t"], ["\\\\", "\\"], ['\\"', '"'], ["\\'", "'"], ["\\x41", "A"], ["\\101", "A"],
              ["\\000", "\0"], ["\\N{DIGIT ONE}", "1"], ["\\u00e9", "é"], ["\\U0001F600", "\U0001F600"], ["\\\n", ""],
              ["\\a", "\a"], ["\\007", "\x07"], ["\\xff", "\xff"]]
BESC_PIECES = [["\\n", "\n"], ["\\\\", "\\"], ['\\"', '"'], ["\\x41", "A"], ["\\101", "A"], ["\\000", "\0"], ["\\xff", "\xff"], ["\\\n", ""]]
BPLAIN_PIECES = [["a", "a"], [" ", " "], ["'", "'"], ["(", "("], ["#", "#"], ["{", "{"], ["}", "}"], ["\n", "\n"], ["\r\n", "\n"]]
RAW_PIECES = [["\\n", "\\n"], ["\\", "\\"], ['\\"', '\\"'], ["\\d", "\\d"], ["\\\\", "\\\\"], ["{", "{"], ["}", "}"]]
BRACE_PIECES = [["{", "{"], ["}", "}"], ["{x}", "{x}"]]
BDELIMS = ["", "", "=", "==", "x", "foo", "-", "é", "a b", "F", "ff", "(", "#"]
BCONTENT_PIECES = ["a", "b c", "]", "]]", "[", "\n", "\r\n", "x", "=", "]=", "]x", "\\", '"', "{", "}", "é", " ", "]fo", "\r"]
BLEADS = ["", "", "\n", "\r\n", "\r"]
FLIT_PIECES = [["a", "a"], [" ", " "], ["{{", "{"], ["}}", "}"], ["x=", "x="], ["'", "'"], ["(", "("], ["\\n", "\n"],
               ["\\N{DIGIT ONE}", "1"], ['\\"', '"'], ["\n", "\n"], [":", ":"], ["!", "!"], ["é", "é"], ["\\\\", "\\"]]
FRAWLIT_PIECES = [["a", "a"], ["{{", "{"], ["}}", "}"], ["\\n", "\\n"], ["\n", "\n"], [" ", " "]]
FBLIT_PIECES = [["a", "a"], [" ", " "], ["{{", "{"], ["}}", "}"], ['"', '"'], ["\\n", "\\n"], ["\n", "\n"], [":", ":"], ["é", "é"], ["[", "["]]
SPEC_PIECES = [[">", ">"], ["<", "<"], ["^", "^"], ["5", "5"], [".2f", ".2f"], ["x", "x"], [" ", " "], ["+", "+"], ["10", "10"], ["é", "é"]]
FPREFIXES = ["f", "fr", "rf", "t"]
FBDELIMS = ["f", "f-x", "f-", "f-=="]
STR_PIECES = {
    "": PLAIN_PIECES + NL_PIECES + ESC_PIECES + BRACE_PIECES,
    "r": PLAIN_PIECES + RAW_PIECES + NL_PIECES,
    "b": BPLAIN_PIECES + BESC_PIECES,
    "br": BPLAIN_PIECES + RAW_PIECES,
    "rb": BPLAIN_PIECES + RAW_PIECES,
}


def raw_scan_ok(src):
    """In a raw literal a backslash protects the next character: no unprotected quote, no dangling backslash."""
    i = 0
    while i < len(src):
        if src[i] == "\\":
            i += 2
            continue
        if src[i] == '"':
            return False
        i += 1
    return i == len(src)


def fix_raw(pieces):
    out = []
    for p in pieces:
        src = "".join(x[0] for x in out) + p[0]
        if raw_scan_ok(src) or raw_scan_ok(src + "a"):
            out.append(p)
    return out if raw_scan_ok("".join(x[0] for x in out)) else out + [["a", "a"]]


def bstr_ok(nd):
    delim, lead, content = nd[1], nd[2], nd[3]
    closer = "]" + delim + "]"
    if (content + closer).find(closer) != len(content):
        return False
    if lead == "" and content[:1] in ("\n", "\r"):
        return False
    if lead == "\r" and content[:1] == "\n":
        return False
    return True


def validate(items):
    """Raise ValueError unless `items` satisfies every invariant the strategies guarantee.
    (Shrinking and corpus replay go through this, so a reduced case is always a case the generator could have produced.)"""

    def bad(why, x):
        raise ValueError("invalid syntax tree (%s): %r" % (why, x))

    def seps(lst):
        if not isinstance(lst, list):
            bad("gap", lst)
        for x in lst:
            if not (isinstance(x, list) and x and x[0] in SEP_KINDS):
                bad("separator expected", x)
            sep(x)

    def sep(x):
        if x[0] == "ws":
            if len(x) != 2 or x[1] not in WS:
                bad("ws", x)
        elif x[0] == "cmt":
            if len(x) != 3 or x[1] not in CMT_TEXT or x[2] not in ("\n", "\r\n"):
                bad("cmt", x)
        else:
            if len(x) != 3:
                bad("dis", x)
            seps(x[1])
            node(x[2])

    def pieces(ps, pool, what):
        if not isinstance(ps, list):
            bad(what, ps)
        for q in ps:
            if q not in pool:
                bad(what, q)

    def parts(ps, pool, in_spec):
        if not isinstance(ps, list):
            bad("parts", ps)
        prev_lit = False
        for q in ps:
            if not isinstance(q, list) or not q:
                bad("part", q)
            if q[0] == "lit":
                if len(q) != 2 or not q[1] or prev_lit:
                    bad("lit", q)
                pieces(q[1], pool, "f-string literal piece")
                prev_lit = True
            elif q[0] == "field":
                prev_lit = False
                if len(q) != 8:
                    bad("field", q)
                _, child, ws0, ws1, dbg, conv, spec, ws2 = q
                node(child)
                if ws0 not in WS_INLINE or ws1 not in WS_INLINE or ws2 not in WS_INLINE:
                    bad("field ws", q)
                if dbg is not None and dbg not in WS_INLINE:
                    bad("field dbg", q)
                if conv not in (None, "r", "s", "a"):
                    bad("field conv", q)
                if spec is not None:
                    if in_spec:
                        bad("nested spec", q)
                    parts(spec, SPEC_PIECES, True)
            else:
                bad("part kind", q)

    def node(x):
        if not isinstance(x, list) or not x:
            bad("node", x)
        k = x[0]
        if k == "sym":
            if len(x) != 2 or not (x[1] in SYMBOLS or (isinstance(x[1], str) and 0 < len(x[1]) <= 6 and set(x[1]) <= set(GEN_SYM_ALPHABET) and valid_symbol(x[1]))):
                bad("sym", x)
        elif k == "kw":
            if len(x) != 2 or x[1] not in KEYWORDS:
                bad("kw", x)
        elif k == "num":
            if len(x) != 2 or x[1] not in NUMBERS:
                bad("num", x)
        elif k == "dot":
            if len(x) != 3 or x[1] not in (0, 1, 2) or not isinstance(x[2], list) or not x[2] or any(q not in DOT_PARTS for q in x[2]) or (x[1] == 0 and len(x[2]) < 2):
                bad("dot", x)
        elif k == "str":
            if len(x) != 3 or x[1] not in STR_PIECES:
                bad("str", x)
            pieces(x[2], STR_PIECES[x[1]], "string piece")
            if "r" in x[1] and not raw_scan_ok("".join(q[0] for q in x[2])):
                bad("raw string", x)
        elif k == "bstr":
            if len(x) != 4 or x[1] not in BDELIMS or x[2] not in BLEADS or not isinstance(x[3], str) or not bstr_ok(x):
                bad("bstr", x)
            rest = x[3]
            for pc in sorted(BCONTENT_PIECES, key=len, reverse=True):
                rest = rest.replace(pc, "")
            if rest:
                bad("bstr content", x)
        elif k == "fstr":
            if len(x) != 5:
                bad("fstr", x)
            if x[2] is None:
                if x[1] not in FPREFIXES or x[3] != "":
                    bad("fstr prefix", x)
                pool = FRAWLIT_PIECES if "r" in x[1] else FLIT_PIECES
                parts(x[4], pool, False)
                if "r" in x[1] and x[4] and x[4][-1][0] == "lit" and not raw_scan_ok("".join(q[0] for q in x[4][-1][1])):
                    bad("raw f-string", x)
            else:
                if x[1] is not None or x[2] not in FBDELIMS or x[3] not in BLEADS or not fbr_ok(x):
                    bad("bracket fstr", x)
                parts(x[4], FBLIT_PIECES, False)
        elif k == "seq":
            if len(x) != 3 or x[1] not in CLOSER or not isinstance(x[2], list):
                bad("seq", x)
            for it in x[2]:
                if isinstance(it, list) and it and it[0] in SEP_KINDS:
                    sep(it)
                else:
                    node(it)
        elif k == "pre":
            if len(x) != 5 or x[1] not in SUGAR or not isinstance(x[2], bool):
                bad("pre", x)
            seps(x[3])
            node(x[4])
        elif k == "ann":
            if len(x) != 6 or not isinstance(x[1], bool):
                bad("ann", x)
            seps(x[2])
            node(x[3])
            seps(x[4])
            node(x[5])
        else:
            bad("kind", x)

    if not isinstance(items, list):
        bad("program", items)
    for it in items:
        if isinstance(it, list) and it and it[0] in SEP_KINDS:
            sep(it)
        else:
            node(it)


def strategies(max_depth=4, allow_t=False, fields_compile_safe=False):
    from hypothesis import strategies as st

    ws = st.sampled_from(WS)
    ws_inline = st.sampled_from(WS_INLINE)
    cmt_text = st.sampled_from(CMT_TEXT)
    sym_atom = st.sampled_from(SYMBOLS).map(lambda s: ["sym", s])
    gen_sym = st.text(alphabet=GEN_SYM_ALPHABET, min_size=1, max_size=6).filter(valid_symbol).map(lambda s: ["sym", s])
    kw_atom = st.sampled_from(KEYWORDS).map(lambda s: ["kw", s])
    num_atom = st.sampled_from(NUMBERS).map(lambda s: ["num", s])
    dot_part = st.sampled_from(DOT_PARTS)
    dot_atom = st.builds(lambda n, ps: ["dot", n, ps], st.sampled_from([0, 0, 0, 1, 2]), st.lists(dot_part, min_size=1, max_size=3)).filter(
        lambda d: d[1] > 0 or len(d[2]) > 1)

    plain_piece = st.sampled_from(PLAIN_PIECES)
    nl_piece = st.sampled_from(NL_PIECES)
    esc_piece = st.sampled_from(ESC_PIECES)
    besc_piece = st.sampled_from(BESC_PIECES)
    bplain_piece = st.sampled_from(BPLAIN_PIECES)
    raw_piece = st.sampled_from(RAW_PIECES)
    brace_piece = st.sampled_from(BRACE_PIECES)

    str_node = st.one_of(
        st.lists(st.one_of(plain_piece, plain_piece, nl_piece, esc_piece, brace_piece), max_size=6).map(lambda ps: ["str", "", ps]),
        st.lists(st.one_of(plain_piece, raw_piece, nl_piece), max_size=5).map(fix_raw).map(lambda ps: ["str", "r", ps]),
        st.lists(st.one_of(bplain_piece, besc_piece), max_size=5).map(lambda ps: ["str", "b", ps]),
        st.lists(st.one_of(bplain_piece, raw_piece), max_size=4).map(fix_raw).flatmap(
            lambda ps: st.sampled_from(["br", "rb"]).map(lambda p: ["str", p, ps])),
    )

    bdelim = st.sampled_from(BDELIMS)
    bcontent = st.lists(st.sampled_from(BCONTENT_PIECES), max_size=7).map("".join)
    blead = st.sampled_from(BLEADS)
    bstr_node = st.builds(lambda d, l, c: ["bstr", d, l, c], bdelim, blead, bcontent).filter(bstr_ok)

    flit_piece = st.sampled_from(FLIT_PIECES)
    fblit_piece = st.sampled_from(FBLIT_PIECES)
    spec_piece = st.sampled_from(SPEC_PIECES)

    memo = {}

    def node(depth):
        if ("n", depth) not in memo:
            memo[("n", depth)] = node_(depth)
        return memo[("n", depth)]

    def sep_s(depth):
        if ("s", depth) not in memo:
            memo[("s", depth)] = sep_s_(depth)
        return memo[("s", depth)]

    def node_(depth):
        atoms = st.one_of(sym_atom, sym_atom, gen_sym, kw_atom, num_atom, dot_atom, str_node, bstr_node)
        if depth <= 0:
            return atoms
        sub = node(depth - 1)
        sep = sep_s(depth - 1)
        gap = st.lists(sep, max_size=2)
        items = st.lists(st.one_of(sub, sub, sub, sep), max_size=5)
        seq = st.builds(lambda o, its: ["seq", o, its], st.sampled_from(["(", "(", "(", "[", "[", "{", "#(", "#{"]), items)
        pre = st.builds(lambda n, s, g, c: ["pre", n, s, g, c], st.sampled_from(list(SUGAR)), st.sampled_from([True, True, True, False]), gap, sub)
        ann = st.builds(lambda s, g1, t, g2, x: ["ann", s, g1, t, g2, x], st.sampled_from([True, True, False]), gap, sub, gap, sub)

        def fparts(d, lit, in_spec=False):
            sub_expr = node(max(d - 1, 0)) if not fields_compile_safe else st.one_of(sym_atom, num_atom)
            specs = st.none() if (in_spec or d <= 0) else st.one_of(st.none(), st.none(), fparts(d - 1, spec_piece, True))
            field = st.builds(
                lambda c, w0, w1, dbg, conv, spec, w2: ["field", c, w0, w1, dbg, conv, spec, w2],
                sub_expr, ws_inline, ws_inline, st.one_of(st.none(), st.none(), st.none(), ws_inline),
                st.sampled_from([None, None, "r", "s", "a"]), specs, ws_inline)
            litp = st.lists(lit, min_size=1, max_size=3).map(lambda ps: ["lit", ps])
            return st.lists(st.one_of(litp, field), max_size=4).map(merge_lits)

        prefixes = ["f", "f", "fr", "rf"] + (["t"] if allow_t else [])

        def fstr_plain(prefix):
            lit = flit_piece if "r" not in prefix else st.sampled_from(FRAWLIT_PIECES)
            return fparts(depth, lit).map(fix_raw_parts if "r" in prefix else (lambda x: x)).map(lambda ps: ["fstr", prefix, None, "", ps])

        fstr_plain_s = st.sampled_from(prefixes).flatmap(fstr_plain)
        fstr_br = st.builds(lambda d, l, ps: ["fstr", None, d, l, ps], st.sampled_from(["f", "f", "f-x", "f-", "f-=="]), blead,
                            fparts(depth, fblit_piece)).filter(fbr_ok)
        return st.one_of(atoms, atoms, seq, seq, pre, ann, fstr_plain_s, fstr_br)

    def sep_s_(depth):
        base = st.one_of(ws.map(lambda t: ["ws", t]), ws.map(lambda t: ["ws", t]),
                         st.builds(lambda t, e: ["cmt", t, e], cmt_text, st.sampled_from(["\n", "\n", "\r\n"])))
        if depth <= 0:
            return base
        return st.one_of(base, base, base,
                         st.builds(lambda g, c: ["dis", g, c], st.lists(base, max_size=1), node(depth - 1)))

    top = st.lists(st.one_of(node(max_depth), node(max_depth), sep_s(max_depth)), min_size=1, max_size=6)
    return dict(node=node, sep=sep_s, program=top)


def merge_lits(parts):
    out = []
    for p in parts:
        if p[0] == "lit" and out and out[-1][0] == "lit":
            out[-1] = ["lit", out[-1][1] + p[1]]
        else:
            out.append(p)
    return out


def fix_raw_parts(parts):
    # raw f-string: the literal text must not end in a backslash before the closing quote
    if parts and parts[-1][0] == "lit":
        src = "".join(x[0] for x in parts[-1][1])
        if not raw_scan_ok(src):
            parts = parts[:-1] + [["lit", parts[-1][1] + [["a", "a"]]]]
    return parts


def fbr_ok(nd):
    delim, lead, parts = nd[2], nd[3], nd[4]
    first = parts[0] if parts else None
    start = "".join(x[0] for x in first[1]) if first and first[0] == "lit" else ("{" if first else "")
    if lead == "" and start[:1] in ("\n", "\r"):
        return False
    if lead == "\r" and start[:1] == "\n":
        return False
    return True


def valid_symbol(s):
    """Independent predicate for 'reads as one plain symbol' on the restricted alphabet used above."""
    if not s or s[0] in ":#" or "." in s:
        return False
    t = s[0] + s[1:].replace("_", "").replace(",", "") if len(s) > 1 else s
    for conv in (lambda x: int(x, 0), lambda x: int(x, 10), float, complex):
        try:
            conv(t)
            return False
        except ValueError:
            pass
    return True
