"""Engine C: generated scoping programs (let / fn / defn / nonlocal / global / class / comprehension / for) with a
reference semantics that resolves every name occurrence to a *binder* by the documented lexical rules and then
interprets the program over explicit frames.  Hy's renaming (ScopeLet / ScopeFn / ScopeGen / ResolveOuterVars) is never
consulted: the resolver below is a transcription of docs/api.rst (let, nonlocal, global, lfor, for) plus Python's scoping
for functions and classes.

IR (JSON).  Block = list of statements.
  ["set", n, VAL]                       (setv n VAL)
  ["rec", id, n]                        (REC id n)            log (id, value of n)
  ["let", [[n, VAL]...], BLOCK]         sequential bindings (let*), lexical body
  ["defn", f, [params], [DECL...], BLOCK, VAL]     (defn f [params] decls body... ret)
  ["call", f, [VAL...]]                 (f args...)           value discarded
  ["decl", "global"|"nonlocal", [n...]] a declaration at this point of the enclosing function (or let body)
  ["lfor", id, n, k, m|None, VAL|None, do_id|None, q|None, VAL]
        (REC id (lfor n (range k) [:setv m VAL] [:do (REC do_id q)] ELEM))
  ["for", n, k, BLOCK]                  (for [n (range k)] body...)
  ["class", c, [[attr, VAL]...], [DEFN...], [[method, [VAL...]]...]]
        (defclass c [] (setv attr VAL)... (defn m [self ...] ...)...)  then ((. (c) m) args...) for the listed calls
VAL:
  ["int", k] | ["read", id, n] (REC id n) | ["plus", n, k] (+ n k) | ["name", n]
  | ["fn", [params], [DECL...], BLOCK, VAL] | ["callv", f, [VAL...]] (f args...) as a value
DECL: ["global"|"nonlocal", [n...]] at the top of a function body.
"""

POOL = ["x", "y", "z"]
GHOST = "w"  # never assigned at module level by a well-scoped program


class Unbound(Exception):
    pass


class Skip(Exception):
    """the documentation leaves the meaning of this program open; it is not judged"""


class Reject(Exception):
    """the program must be rejected at compile time (SyntaxError family)"""


# ----------------------------------------------------------------------------- rendering
def r_val(v):
    k = v[0]
    if k == "int":
        return str(v[1])
    if k == "read":
        return "(REC %d %s)" % (v[1], v[2])
    if k == "plus":
        return "(+ %s %d)" % (v[1], v[2])
    if k == "name":
        return v[1]
    if k == "fn":
        return "(fn [%s]%s%s %s)" % (r_params(v[1]), r_decls(v[2]), r_block(v[3]), r_val(v[4]))
    if k == "callv":
        return "(%s%s)" % (v[1], "".join(" " + r_val(a) for a in v[2]))
    raise ValueError(k)


def r_params(ps):
    """Parameter list text. The same positional parameters are written in one of three equivalent ways (plain, all
    positional-only, first positional-only), chosen by a fixed function of the names, so that every kind of positional
    parameter meets the let / declaration machinery; calls are positional with exact arity in all three."""
    ps = list(ps)
    if not ps:
        return ""
    style = (sum(ord(c) for n in ps for c in n) + len(ps)) % 3
    if style == 1:
        return " ".join(ps + ["/"])
    if style == 2:
        return " ".join(ps[:1] + ["/"] + ps[1:])
    return " ".join(ps)


def r_decls(ds):
    return "".join(" (%s %s)" % (d[0], " ".join(d[1])) for d in ds)


def r_block(b):
    return "".join(" " + r_stmt(s) for s in b)


def r_defn(s):
    return "(defn %s [%s]%s%s %s)" % (s[1], r_params(s[2]), r_decls(s[3]), r_block(s[4]), r_val(s[5]))


def r_stmt(s):
    k = s[0]
    if k == "set":
        return "(setv %s %s)" % (s[1], r_val(s[2]))
    if k == "rec":
        return "(REC %d %s)" % (s[1], s[2])
    if k == "let":
        return "(let [%s]%s)" % (" ".join("%s %s" % (n, r_val(v)) for n, v in s[1]), r_block(s[2]))
    if k == "defn":
        return r_defn(s)
    if k == "call":
        return "(%s%s)" % (s[1], "".join(" " + r_val(a) for a in s[2]))
    if k == "decl":
        return "(%s %s)" % (s[1], " ".join(s[2]))
    if k == "lfor":
        _, i, n, cnt, m, mv, do_id, q, elem = s
        parts = ["%s (range %d)" % (n, cnt)]
        if m is not None:
            parts.append(":setv %s %s" % (m, r_val(mv)))
        if do_id is not None:
            parts.append(":do (REC %d %s)" % (do_id, q))
        return "(REC %d (lfor %s %s))" % (i, " ".join(parts), r_val(elem))
    if k == "for":
        return "(for [%s (range %d)]%s)" % (s[1], s[2], r_block(s[3]))
    if k == "class":
        body = "".join(" (setv %s %s)" % (a, r_val(v)) for a, v in s[2]) + "".join(" " + r_defn(d) for d in s[3])
        calls = "".join(" ((. (%s) %s)%s)" % (s[1], m, "".join(" " + r_val(a) for a in args)) for m, args in s[4])
        return "(defclass %s []%s)%s" % (s[1], body, calls)
    raise ValueError(k)


def render(prog):
    pre = "(setv %s)" % " ".join("%s %d" % (n, 100 * (i + 1)) for i, n in enumerate(POOL))
    body = "\n".join(r_stmt(s) for s in prog["body"])
    if prog.get("scope") == "function":
        return "%s\n(defn MAIN []\n%s\nNone)\n(MAIN)" % (pre, body)
    return pre + "\n" + body


# ----------------------------------------------------------------------------- resolver + interpreter
class Func:
    """static info about one function body"""

    def __init__(self, fid, params, decls, parent_stack):
        self.fid = fid
        self.params = list(params)
        self.locals = set(params)
        self.globals = set()
        self.nonlocals = set()
        self.used = set(params)  # names that occurred at function level (not captured by an inner let / comprehension)
        self.occurred = set(params)  # every occurrence anywhere lexically inside (incl. nested functions and lets)
        for d in decls:
            if d[0] not in ("global", "nonlocal"):
                raise Reject("bad decl")
            for n in d[1]:
                if n in self.params:
                    raise Reject("name is parameter and %s" % d[0])
                (self.globals if d[0] == "global" else self.nonlocals).add(n)
            if self.globals & self.nonlocals:
                raise Reject("nonlocal and global")


class Interp:
    """Resolves and runs in one pass per execution: static structure is the lexical stack carried along, dynamic
    structure is the frame attached to each stack entry."""

    def __init__(self):
        self.log = []
        self.module = {}
        self.fuel = 20000
        self.fid = 0

    # ---- static pre-pass: which names are locals of a function body ----
    def assigned_names(self, params, decls, block, ret):
        """names assigned in this function body that are not captured by a let / comprehension inside it"""
        out = set()
        declared = set(n for d in decls for n in d[1])

        def val(v, shadow):
            k = v[0]
            if k == "callv":
                for a in v[2]:
                    val(a, shadow)
            # fn: nested function, its assignments are its own

        def block_(b, shadow, unshadowed):
            shadow = set(shadow)
            for s in b:
                k = s[0]
                if k == "set":
                    val(s[2], shadow)
                    if s[1] not in shadow:
                        out.add(s[1])
                elif k == "let":
                    inner = set(shadow)
                    for n, v in s[1]:
                        val(v, inner)
                        inner.add(n)
                    block_(s[2], inner, unshadowed)
                elif k == "defn":
                    out.add(s[1])
                elif k == "class":
                    out.add(s[1])
                elif k == "for":
                    if s[1] not in shadow:
                        out.add(s[1])
                    block_(s[3], shadow, unshadowed)
                elif k == "decl":
                    for n in s[2]:
                        declared.add(n)
                        shadow.discard(n)  # a global declaration inside a let un-shadows the name from here on

        block_(block, set(), set())
        return out - declared

    # ---- execution ----
    def run(self, prog):
        for i, n in enumerate(POOL):
            self.module[n] = 100 * (i + 1)
        stack = [dict(kind="module", used=set(), occurred=set(), globals=set())]
        if prog.get("scope") == "function":
            f = ["defn", "MAIN", [], [], prog["body"], ["int", 0]]
            self.exec_stmt(f, stack)
            self.call(self.lookup("MAIN", stack), [], stack)
        else:
            self.exec_block(prog["body"], stack)

    def tick(self):
        self.fuel -= 1
        if self.fuel < 0:
            raise Unbound("fuel")

    def pyscope(self, stack):
        for e in reversed(stack):
            if e["kind"] in ("module", "func"):
                return e
        raise AssertionError

    def resolve(self, n, stack, for_assign=False):
        """-> frame dict holding n's binding (cells are dict entries), by the documented lexical rules"""
        i = len(stack) - 1
        while i >= 0:
            e = stack[i]
            k = e["kind"]
            if k == "let":
                if e["name"] == n and not e.get("unshadowed"):
                    return e["cell"]
            elif k == "comp":
                if n in e["names"]:
                    return e["vars"]
            elif k == "func":
                f = e["func"]
                if n in f.globals:
                    return self.module
                if n in f.nonlocals:
                    # nearest enclosing binding outside this function: let binding, enclosing function's variable, module variable
                    j = i - 1
                    while j >= 0:
                        o = stack[j]
                        if o["kind"] == "let" and o["name"] == n and not o.get("unshadowed"):
                            return o["cell"]
                        if o["kind"] == "func":
                            if n in o["func"].globals:
                                return self.module
                            if n in o["func"].locals and n not in o["func"].nonlocals:
                                return o["frame"]
                        if o["kind"] == "module":
                            if n not in self.module_names:
                                raise Reject("no binding for nonlocal")
                            return self.module
                        j -= 1
                if n in f.locals:
                    return e["frame"]
            elif k == "module":
                return self.module
            # class bodies: transparent for pool names
            i -= 1
        raise AssertionError

    def lookup(self, n, stack):
        fr = self.resolve(n, stack)
        if n not in fr:
            raise Unbound(n)
        return fr[n]

    def assign(self, n, v, stack):
        self.resolve(n, stack, True)[n] = v

    def ev(self, v, stack):
        self.tick()
        k = v[0]
        if k == "int":
            return v[1]
        if k == "read":
            x = self.lookup(v[2], stack)
            self.log.append([v[1], x if isinstance(x, (int, list)) else "<fn>"])
            return x
        if k == "plus":
            return self.lookup(v[1], stack) + v[2]
        if k == "name":
            return self.lookup(v[1], stack)
        if k == "fn":
            return self.closure(v[1], v[2], v[3], v[4], stack)
        if k == "callv":
            f = self.lookup(v[1], stack)
            args = [self.ev(a, stack) for a in v[2]]
            return self.call(f, args, stack)
        raise ValueError(k)

    def closure(self, params, decls, block, ret, stack):
        self.fid += 1
        f = Func(self.fid, params, decls, stack)
        f.locals |= self.assigned_names(params, decls, block, ret)
        f.locals -= f.globals | f.nonlocals
        # a nonlocal declaration must find a binding: checked when the body is first resolved (resolve raises Reject)
        return dict(func=f, block=block, ret=ret, stack=list(stack))

    def call(self, clo, args, _stack):
        self.tick()
        f = clo["func"]
        if len(args) != len(f.params):
            raise Unbound("arity")
        frame = dict(zip(f.params, args))
        entry = dict(kind="func", func=f, frame=frame, used=set(f.params) | set(), occurred=set(f.params), globals=f.globals)
        stack = clo["stack"] + [entry]
        for n in sorted(f.nonlocals):
            self.resolve(n, stack)  # raises Reject when there is no binding at all
        self.exec_block(clo["block"], stack)
        return self.ev(clo["ret"], stack)

    def exec_block(self, block, stack):
        for s in block:
            self.exec_stmt(s, stack)

    def exec_stmt(self, s, stack):
        self.tick()
        k = s[0]
        if k == "set":
            v = self.ev(s[2], stack)
            self.assign(s[1], v, stack)
        elif k == "rec":
            self.ev(["read", s[1], s[2]], stack)
        elif k == "let":
            st = list(stack)
            for n, v in s[1]:
                x = self.ev(v, st)
                st = st + [dict(kind="let", name=n, cell={n: x})]
            self.exec_block(s[2], st)
        elif k == "defn":
            clo = self.closure(s[2], s[3], s[4], s[5], stack)
            # defn assigns in the Python scope (never a let binding)
            ps = self.pyscope(stack)
            (self.module if ps["kind"] == "module" else ps["frame"])[s[1]] = clo
        elif k == "call":
            self.ev(["callv", s[1], s[2]], stack)
        elif k == "decl":
            self.declare(s[1], s[2], stack)
        elif k == "lfor":
            _, i, n, cnt, m, mv, do_id, q, elem = s
            out = []
            vars_ = {}
            names = {n} | ({m} if m is not None else set())
            st = stack + [dict(kind="comp", names=names, vars=vars_)]
            for it in range(cnt):
                vars_[n] = it
                if m is not None:
                    vars_[m] = self.ev(mv, st)
                if do_id is not None:
                    self.ev(["read", do_id, q], st)
                out.append(self.ev(elem, st))
            self.log.append([i, out])
        elif k == "for":
            for it in range(s[2]):
                self.assign(s[1], it, stack)
                self.exec_block(s[3], stack)
        elif k == "class":
            st = stack + [dict(kind="class")]
            attrs = {}
            for a, v in s[2]:
                attrs[a] = self.ev(v, st)
            methods = {}
            for d in s[3]:
                methods[d[1]] = self.closure(d[2], d[3], d[4], d[5], st)
            ps = self.pyscope(stack)
            (self.module if ps["kind"] == "module" else ps["frame"])[s[1]] = "<class>"
            for m, args in s[4]:
                vals = [self.ev(a, stack) for a in args]
                self.call(methods[m], ["<self>"] + vals, stack)
        else:
            raise ValueError(k)

    def declare(self, kind, names, stack):
        """a global declaration in the middle of a body: from here on the names mean the module-level variables, in every
        let of this Python scope and in the rest of the function (compile-time rejections are decided by precheck)"""
        ps = self.pyscope(stack)
        for e in reversed(stack):
            if e["kind"] == "let":
                if e["name"] in names:
                    e["unshadowed"] = True
            elif e["kind"] in ("func", "module"):
                break
        if ps["kind"] == "func":
            ps["func"].globals |= set(names)
            ps["func"].locals -= set(names)


def reference(prog):
    """-> ("ok", log, module pool values) | ("reject",) | ("unbound", msg)"""
    it = Interp()
    it.module_names = set(POOL)
    try:
        precheck(prog)
        it.run(prog)
    except Skip as e:
        return ("unbound", "skip: " + str(e))
    except Reject as e:
        return ("reject", str(e))
    except Unbound as e:
        return ("unbound", str(e))
    return ("ok", it.log, {n: it.module.get(n, "<absent>") for n in POOL + [GHOST]})


def precheck(prog):
    """compile-time rejections, decided on the source in order: a mid-body declaration after a use of the name at the
    level of the same Python scope; a parameter that is also declared; a nonlocal for which no enclosing let / function /
    module binding exists.  Shapes whose meaning the documentation leaves open raise Skip (the generator avoids them)."""
    it = Interp()

    def walk_block(block, used, lets, lex):
        """used: names used directly at this Python scope's level; lets: let/comprehension names of this scope that capture"""
        lets = set(lets)
        for s in block:
            k = s[0]
            if k == "decl":
                if s[1] != "global":
                    raise Skip("mid-body nonlocal")
                for n in s[2]:
                    if n in used:
                        raise Reject("declared after use")
                    lets.discard(n)
                    for e in reversed(lex):  # un-shadow in every let of this Python scope
                        if e[0] == "let" and e[1] == n:
                            e[2] = True
                        elif e[0] in ("func", "module"):
                            if e[0] == "func":
                                e[2].add(n)
                            break
            elif k == "set":
                walk_val(s[2], used, lets, lex)
                if s[1] not in lets:
                    used.add(s[1])
            elif k == "for":
                if s[1] not in lets:
                    used.add(s[1])
                walk_block(s[3], used, lets, lex)
            elif k == "rec":
                if s[2] not in lets:
                    used.add(s[2])
            elif k == "let":
                inner = set(lets)
                lx = list(lex)
                for n, v in s[1]:
                    walk_val(v, used, inner, lx)
                    inner.add(n)
                    lx = lx + [["let", n, False]]
                walk_block(s[2], used, inner, lx)
            elif k == "defn":
                used.add(s[1])
                walk_func(s[2], s[3], s[4], s[5], lex)
            elif k == "call":
                used.add(s[1])
                for a in s[2]:
                    walk_val(a, used, lets, lex)
            elif k == "lfor":
                _, i, n, cnt, m, mv, do_id, q, elem = s
                comp = lets | {n} | ({m} if m else set())
                lx = lex + [["let", n, False]] + ([["let", m, False]] if m else [])
                if mv is not None:
                    walk_val(mv, used, comp, lx)
                if q is not None and q not in comp:
                    used.add(q)
                walk_val(elem, used, comp, lx)
            elif k == "class":
                used.add(s[1])
                for a, v in s[2]:
                    walk_val(v, used, lets, lex)
                for d in s[3]:
                    walk_func(d[2], d[3], d[4], d[5], lex)
                for m, args in s[4]:
                    for a in args:
                        walk_val(a, used, lets, lex)
            else:
                raise ValueError(k)

    def walk_val(v, used, lets, lex):
        k = v[0]
        if k in ("read", "plus", "name"):
            n = v[2] if k == "read" else v[1]
            if n not in lets:
                used.add(n)
        elif k == "callv":
            used.add(v[1])
            for a in v[2]:
                walk_val(a, used, lets, lex)
        elif k == "fn":
            walk_func(v[1], v[2], v[3], v[4], lex)

    def walk_func(params, decls, block, ret, lex):
        g, nl = set(), set()
        for d in decls:
            for n in d[1]:
                if n in params:
                    raise Reject("parameter and declared")
                (g if d[0] == "global" else nl).add(n)
        local = (it.assigned_names(params, decls, block, ret) | set(params)) - g - nl
        for n in sorted(nl):
            for e in reversed(lex):
                if e[0] == "let" and e[1] == n and not e[2]:
                    break
                if e[0] == "func":
                    if n in e[2]:
                        raise Skip("nonlocal for a name the enclosing function declares global")
                    if n in e[1]:
                        break
                if e[0] == "module":
                    if n not in POOL:
                        raise Reject("no binding for nonlocal")
                    break
        used = set(params)
        lx = lex + [["func", local, set(g), set(nl)]]
        walk_block(block, used, set(), lx)
        walk_val(ret, used, set(), lx)

    # the preamble (setv x 100 y 200 z 300) uses every pool name at module level
    walk_block(prog["body"] if prog.get("scope") != "function" else [["defn", "MAIN", [], [], prog["body"], ["int", 0]]], set(POOL), set(), [["module"]])


# ----------------------------------------------------------------------------- real run
def run_hy(src):
    import types

    import hy
    import hy.compiler

    log = []

    def REC(i, v):
        log.append([i, v if isinstance(v, (int, list)) else "<fn>"])
        return v

    mod = types.ModuleType("scopemod")
    try:
        tree = hy.compiler.hy_compile(hy.read_many(src), mod, filename="<scopes>", source=src)
        code = compile(tree, "<scopes>", "exec")
    except SyntaxError as e:
        return ("reject", "%s: %s" % (type(e).__name__, str(getattr(e, "msg", e))[:150]))
    except RecursionError:
        raise
    except Exception as e:  # noqa
        return ("crash", "%s: %s" % (type(e).__name__, str(e)[:200]))
    ns = mod.__dict__
    ns["REC"] = REC
    try:
        exec(code, ns)  # noqa: S102
    except NameError as e:
        return ("unbound", str(e)[:120], log)
    except RecursionError:
        raise
    except Exception as e:  # noqa
        return ("raise", "%s: %s" % (type(e).__name__, str(e)[:150]), log)
    return ("ok", log, {n: ns.get(n, "<absent>") for n in POOL + [GHOST]})


def comp_conflict(prog):
    """CPython 3.12.0/3.12.1 (PEP 709 inlining) raises UnboundLocalError / NameError when, inside one function, a name is
    bound by one comprehension and read as a free variable by another one, or occurs in a function nested in that function
    (the same happens with the equivalent pure Python source); such programs cannot be judged on this interpreter."""

    def val_reads(v, own, out):
        k = v[0]
        if k in ("read", "plus", "name"):
            n = v[2] if k == "read" else v[1]
            if n not in own:
                out.add(n)
        elif k == "callv":
            out.add(v[1])
            for a in v[2]:
                val_reads(a, own, out)

    def funcs_in_val(v):
        if v[0] == "fn":
            yield (v[3], v[4])
        elif v[0] == "callv":
            for a in v[2]:
                yield from funcs_in_val(a)

    def all_names(block, ret, out):
        """every pool name occurring anywhere inside a function body, nested functions included"""

        def v_(v):
            k = v[0]
            if k in ("read", "plus", "name"):
                out.add(v[2] if k == "read" else v[1])
            elif k == "callv":
                for a in v[2]:
                    v_(a)
            elif k == "fn":
                out.update(v[1])
                out.update(n for d in v[2] for n in d[1])
                all_names(v[3], v[4], out)

        for s in block:
            k = s[0]
            if k == "set":
                out.add(s[1])
                v_(s[2])
            elif k == "rec":
                out.add(s[2])
            elif k == "let":
                for n, v in s[1]:
                    out.add(n)
                    v_(v)
                all_names(s[2], None, out)
            elif k == "defn":
                out.update(s[2])
                out.update(n for d in s[3] for n in d[1])
                all_names(s[4], s[5], out)
            elif k == "call":
                for a in s[2]:
                    v_(a)
            elif k == "decl":
                out.update(s[2])
            elif k == "lfor":
                out.add(s[2])
                if s[4]:
                    out.add(s[4])
                if s[5] is not None:
                    v_(s[5])
                if s[7] is not None:
                    out.add(s[7])
                v_(s[8])
            elif k == "for":
                out.add(s[1])
                all_names(s[3], None, out)
            elif k == "class":
                for a, v in s[2]:
                    v_(v)
                for d in s[3]:
                    out.update(d[2])
                    out.update(n for dd in d[3] for n in dd[1])
                    all_names(d[4], d[5], out)
                for m, args in s[4]:
                    for a in args:
                        v_(a)
        if ret is not None:
            v_(ret)

    def scope(block, ret, is_func):
        bound, free = set(), set()
        inner = []

        def blk(b):
            for s in b:
                k = s[0]
                if k == "lfor":
                    own = {s[2]} | ({s[4]} if s[4] else set())
                    bound.update(own)
                    if s[5] is not None:
                        val_reads(s[5], own, free)
                    if s[7] is not None and s[7] not in own:
                        free.add(s[7])
                    val_reads(s[8], own, free)
                elif k == "let":
                    for n, v in s[1]:
                        inner.extend(funcs_in_val(v))
                    blk(s[2])
                elif k == "for":
                    blk(s[3])
                elif k == "set":
                    inner.extend(funcs_in_val(s[2]))
                elif k == "defn":
                    inner.append((s[4], s[5]))
                elif k == "class":
                    for d in s[3]:
                        inner.append((d[4], d[5]))

        blk(block)
        if is_func and bound & free:
            return True
        if is_func and bound:
            nested = set()
            for b, r in inner:
                all_names(b, r, nested)
            if bound & nested:
                return True
        return any(scope(b, r, True) for b, r in inner)

    return scope(prog["body"], None, prog.get("scope") == "function")


def compare(prog):
    """-> None | (bucket, detail); 'skip' results are returned as ("skip:...", None)"""
    if comp_conflict(prog):
        return ("skip:cpython-3.12.1-comprehension-inlining-bug", None)
    ref = reference(prog)
    if ref[0] == "unbound":
        return ("skip:reference-unbound", None)
    src = render(prog)
    got = run_hy(src)
    detail = dict(hy=src)
    if ref[0] == "reject":
        if got[0] != "reject":
            detail.update(expected="compile-time rejection: " + ref[1], got=repr(got)[:300])
            return ("accepted-but-must-be-rejected:" + ref[1].replace(" ", "-"), detail)
        return None
    if got[0] == "reject":
        detail.update(expected="accepted", got=got[1])
        return ("rejected-but-valid", detail)
    if got[0] in ("crash", "raise", "unbound"):
        detail.update(got=repr(got)[:400], expected_log=ref[1][:40])
        return ("run-fails:" + got[0] + ":" + got[1].split(":")[0], detail)
    if got[1] != ref[1]:
        # first difference
        i = 0
        while i < min(len(got[1]), len(ref[1])) and got[1][i] == ref[1][i]:
            i += 1
        detail.update(first_difference_at=i, expected=ref[1][i : i + 3], got=got[1][i : i + 3], expected_len=len(ref[1]), got_len=len(got[1]))
        return ("value-read-differs", detail)
    if got[2] != ref[2]:
        detail.update(expected_module=ref[2], got_module=got[2])
        leaked = [n for n in got[2] if ref[2][n] == "<absent>" and got[2][n] != "<absent>"]
        return ("module-variable-differs" + (":leak" if leaked else ""), detail)
    return None


# ----------------------------------------------------------------------------- generation
def _reads(v, own, out):
    k = v[0]
    if k in ("read", "plus", "name"):
        n = v[2] if k == "read" else v[1]
        if n not in own:
            out.add(n)
    elif k == "callv":
        out.add(v[1])
        for a in v[2]:
            _reads(a, own, out)


def program_strategy(profile):
    """profile: 'let' (C06: let / closures / comprehensions) or 'decl' (C07: nonlocal / global / classes / negatives)"""
    from hypothesis import strategies as st

    NAMES = POOL + [GHOST]

    @st.composite
    def program(draw):
        ids = [0]
        fns = [0]
        budget = [draw(st.integers(6, 28))]

        def nid():
            ids[0] += 1
            return ids[0]

        def fname(prefix="f"):
            fns[0] += 1
            return "%s%d" % (prefix, fns[0])

        def pick(xs):
            return xs[draw(st.integers(0, len(xs) - 1))]

        def chance(n, d):
            return draw(st.integers(1, d)) <= n

        class Py:
            """one Python scope under construction"""

            def __init__(self, kind, parent, params=(), local=(), g=(), nl=()):
                self.kind, self.parent = kind, parent
                # names reserved for comprehension variables of this scope (see comp_conflict): they never occur in
                # functions nested in this scope and are never read free inside its comprehensions
                self.banned = set() if parent is None else (parent.banned | (parent.cv if parent.kind == "func" else set()))
                free_names = [x for x in NAMES if x not in self.banned]
                self.cv = {free_names[draw(st.integers(0, len(free_names) - 1))]} if kind == "func" and len(free_names) >= 3 and draw(st.booleans()) else set()
                if kind == "module":
                    self.cv = set(NAMES)  # module-level comprehensions are not affected: any name may be a comprehension variable
                self.params, self.local, self.g, self.nl = set(params), set(local), set(g), set(nl)
                self.occurred = set(params) | set(local)
                self.level_used = set(params) | set(local)
                self.comp_bound, self.comp_free, self.nested_occ = set(), set(), set()

        def occur(py, n, captured):
            p = py
            while p is not None:
                p.occurred.add(n)
                if p is not py:
                    p.nested_occ.add(n)
                p = p.parent
            if not captured:
                py.level_used.add(n)

        def readable(n, py, lets):
            if n != GHOST:
                return True
            if n in lets:
                return True
            p = py
            while p is not None:
                if p.kind == "func" and (n in p.params or n in p.local):
                    return True
                if p.kind == "func" and n in p.g:
                    return False
                p = p.parent
            return False

        def assignable(n, py, lets_here):
            if n in lets_here:
                return True
            if py.kind == "module":
                return n != GHOST
            return n in py.local or n in py.params or n in py.g or n in py.nl

        def avail(py):
            return [n for n in NAMES if n not in py.banned]

        def read_name(py, lets, lets_here, exclude=()):
            cands = [n for n in avail(py) if readable(n, py, lets) and n not in exclude]
            if not cands:
                cands = [n for n in avail(py) if readable(n, py, lets)]
            n = pick(cands)
            occur(py, n, n in lets_here)
            return n

        def val(py, lets, lets_here, calls, depth, allow_fn=False, exclude=()):
            k = draw(st.integers(0, 9))
            if k <= 2:
                return ["int", draw(st.integers(1, 9)) + 10 * nid()]
            if k <= 5:
                return ["read", nid(), read_name(py, lets, lets_here, exclude)]
            if k == 6:
                return ["plus", read_name(py, lets, lets_here, exclude), draw(st.integers(1, 3))]
            if k == 7 and calls:
                f, np = pick(calls)
                occur(py, f, False)
                return ["callv", f, [val(py, lets, lets_here, calls, depth, False, exclude) for _ in range(np)]]
            return ["read", nid(), read_name(py, lets, lets_here, exclude)]

        def function(py, lets, calls, depth, method=False):
            """-> (params, decls, block, ret)"""
            params = []
            inner_names = [n for n in NAMES if n not in py.banned and n not in (py.cv if py.kind == "func" else ())]
            for n in inner_names:
                if chance(1, 5):
                    params.append(n)
            params = params[:2]
            decls = []
            g, nl = set(), set()
            if chance(2 if profile == "let" else 5, 8):
                for n in inner_names:
                    if n in params or not chance(1, 3):
                        continue
                    kind = pick(["nonlocal", "nonlocal", "global"])
                    if n == GHOST:
                        if kind == "global" or not readable(GHOST, py, lets):
                            if not (kind == "nonlocal" and chance(1, 6)):  # rare negative: no binding for nonlocal w
                                continue
                    if kind == "nonlocal":
                        p, bad = py, False
                        seen_let = n in lets
                        while p is not None and not seen_let:
                            if p.kind == "func" and n in p.g:
                                bad = True
                                break
                            if p.kind == "func" and (n in p.local or n in p.params):
                                break
                            p = p.parent
                        if bad:
                            continue
                    (g if kind == "global" else nl).add(n)
                for kind, names in (("nonlocal", nl), ("global", g)):
                    names = sorted(names)
                    if len(names) > 1 and chance(1, 2):
                        names = names[::-1]
                    if names:
                        decls.append([kind, names])
                if len(decls) == 2 and chance(1, 2):
                    decls = decls[::-1]
            for n in sorted(g | nl):
                occur(py, n, True)  # an occurrence in the enclosing scopes (blocks later declarations there), but not a use at their level
            local = [n for n in inner_names if n not in params and n not in g and n not in nl and chance(1, 5)]
            f = Py("func", py, params, local, g, nl)
            # names visible through lets outside the function stay readable; lets_here starts empty (new Python scope)
            body = [["set", n, ["int", draw(st.integers(1, 9)) + 10 * nid()]] for n in local]
            outer_lets = set(lets) - set(params) - set(local) - g
            body += block(f, outer_lets | set(), set(), list(calls), depth + 1)
            ret = val(f, outer_lets, set(), calls, depth + 1)
            if method:
                params = ["self"] + params
            return params, decls, body, ret

        def block(py, lets, lets_here, calls, depth):
            out = []
            n_stmts = draw(st.integers(1, 5))
            for _ in range(n_stmts):
                if budget[0] <= 0:
                    break
                budget[0] -= 1
                out.append(stmt(py, lets, lets_here, calls, depth))
            return [s for s in out if s is not None]

        def stmt(py, lets, lets_here, calls, depth):
            kinds = ["set", "set", "rec", "rec", "rec"]
            if depth < 4:
                kinds += ["let", "let", "defn", "defn", "setfn"]
                kinds += ["lfor", "lfor", "for"] if profile == "let" else ["lfor", "class", "letglobal", "negdecl", "defn"]
            if calls:
                kinds += ["call", "call", "call"]
            k = pick(kinds)
            if k == "set":
                cands = [n for n in avail(py) if assignable(n, py, lets_here)]
                if not cands:
                    return None
                n = pick(cands)
                v = val(py, lets, lets_here, calls, depth)
                occur(py, n, n in lets_here)
                return ["set", n, v]
            if k == "rec":
                return ["rec", nid(), read_name(py, lets, lets_here)]
            if k == "let" and chance(1, 4):
                # re-binding inside one binding list with a closure over the earlier binding in between (let* semantics):
                # (let [n V1  g (fn [] n)  n V2] ... (g) ...)
                n = pick(avail(py))
                g_ = fname("g")
                v1 = val(py, lets, lets_here, calls, depth)
                occur(py, n, True)
                l2, lh2 = set(lets) | {n}, set(lets_here) | {n}
                inner = ["fn", [], [], [["rec", nid(), n]], ["plus", n, 1]]
                v2 = val(py, l2, lh2, calls, depth)
                calls2 = calls + [(g_, 0)]
                body = block(py, l2, lh2, calls2, depth + 1)
                body.insert(draw(st.integers(0, len(body))), ["rec", nid(), n])
                body.insert(draw(st.integers(0, len(body))), ["call", g_, []])
                if chance(1, 2):
                    body.insert(0, ["set", n, ["int", draw(st.integers(1, 9)) + 10 * nid()]])
                    body.append(["call", g_, []])
                return ["let", [[n, v1], [g_, inner], [n, v2]], body]
            if k == "let":
                binds = []
                l2, lh2 = set(lets), set(lets_here)
                for _ in range(draw(st.integers(1, 3))):
                    n = pick(avail(py))
                    if chance(1, 5):
                        g_ = fname("g")
                        p, d, b, r = function(py, l2, calls, depth)
                        binds.append([g_, ["fn", p, d, b, r]])
                        calls = calls + [(g_, len(p))]
                        continue
                    v = val(py, l2, lh2, calls, depth)
                    binds.append([n, v])
                    occur(py, n, True)
                    l2.add(n)
                    lh2.add(n)
                return ["let", binds, block(py, l2, lh2, calls, depth + 1)]
            if k == "defn":
                f = fname()
                p, d, b, r = function(py, lets, calls, depth)
                calls.append((f, len(p)))
                return ["defn", f, p, d, b, r]
            if k == "setfn":
                f = fname("g")
                p, d, b, r = function(py, lets, calls, depth)
                calls.append((f, len(p)))
                return ["set", f, ["fn", p, d, b, r]]
            if k == "call":
                f, np = pick(calls)
                occur(py, f, False)
                return ["call", f, [val(py, lets, lets_here, calls, depth) for _ in range(np)]]
            if k == "lfor":
                cvs = sorted(x for x in py.cv if x not in py.banned)
                if not cvs:
                    return ["rec", nid(), read_name(py, lets, lets_here)]
                n = pick(cvs)
                m = pick([None, None] + [x for x in cvs if x != n])
                comp = set(lets) | {n} | ({m} if m else set())
                comp_here = set(lets_here) | {n} | ({m} if m else set())
                ex = set() if py.kind == "module" else (py.cv - {n, m})
                mv = val(py, comp, comp_here, calls, depth, False, ex | {m}) if m else None
                if m and mv[0] in ("read", "plus") and (mv[2] if mv[0] == "read" else mv[1]) == m:
                    mv = ["int", 5]  # the :setv value must not read the variable it defines
                q = do_id = None
                if chance(1, 2):
                    do_id = nid()
                    cands = [x for x in avail(py) if readable(x, py, comp) and (py.kind == "module" or x not in py.cv or x in (n, m))]
                    q = pick(cands)
                    occur(py, q, q in comp_here)
                elem = val(py, comp, comp_here, calls, depth, False, ex)
                stmt_ = ["lfor", nid(), n, draw(st.integers(0, 3)), m, mv, do_id, q, elem]
                # keep clear of the CPython 3.12.1 inlining bug (see comp_conflict): a name bound by one comprehension of a
                # function must not be read free by another one
                b_, f_ = set(), set()
                probe = dict(scope="function", body=[stmt_])
                own = {n} | ({m} if m else set())
                for v_ in ([mv] if mv else []) + [elem]:
                    _reads(v_, own, f_)
                if q is not None and q not in own:
                    f_.add(q)
                if (py.comp_bound | own) & (py.comp_free | f_) or own & py.nested_occ:
                    return ["rec", nid(), read_name(py, lets, lets_here)]
                py.comp_bound |= own
                py.comp_free |= f_
                return stmt_
            if k == "for":
                cands = [n for n in avail(py) if assignable(n, py, lets_here)]
                if not cands:
                    return None
                n = pick(cands)
                occur(py, n, n in lets_here)
                return ["for", n, draw(st.integers(0, 3)), block(py, lets, lets_here, calls, depth + 1)]
            if k == "class":
                c = fname("C")
                attrs = [["a%d" % nid(), val(py, lets, lets_here, calls, depth)] for _ in range(draw(st.integers(0, 2)))]
                methods, mcalls = [], []
                for _ in range(draw(st.integers(1, 2))):
                    mname = fname("m")
                    p, d, b, r = function(py, lets, calls, depth, method=True)
                    methods.append(["defn", mname, p, d, b, r])
                    for _ in range(draw(st.integers(1, 2))):
                        mcalls.append([mname, [val(py, lets, lets_here, calls, depth) for _ in range(len(p) - 1)]])
                return ["class", c, attrs, methods, mcalls]
            if k == "letglobal":
                # (let [n V] (global n) ...): n must not have occurred in this Python scope yet
                cands = [n for n in POOL if n not in py.banned and n not in py.occurred and n not in py.params and n not in py.local and n not in py.nl]
                if not cands:
                    return None
                n = pick(cands)
                v = val(py, lets, lets_here, calls, depth)
                occur(py, n, True)
                py.g.add(n)
                body = [["decl", "global", [n]]]
                l2, lh2 = set(lets) - {n}, set(lets_here) - {n}
                occur(py, n, False)
                body += block(py, l2, lh2, calls, depth + 1)
                body.append(["set", n, ["int", draw(st.integers(1, 9)) + 10 * nid()]])
                body.append(["rec", nid(), n])
                inner = ["let", [[n, v]], body]
                if chance(1, 3):
                    # the same name also bound by an enclosing let of this Python scope: the declaration un-shadows both
                    return ["let", [[n, ["int", draw(st.integers(1, 9)) + 10 * nid()]]], [inner, ["rec", nid(), n], ["set", n, ["int", 10 * nid() + 1]], ["rec", nid(), n]]]
                return inner
            if k == "negdecl":
                # a declaration after the name was used at this scope's level: must be rejected
                cands = sorted(n for n in py.level_used if n in NAMES)
                if not cands or py.kind == "module" or not chance(1, 4):
                    return None
                return ["decl", "global", [pick(cands)]]
            return None

        scope = draw(st.sampled_from(["module", "function"]))
        mod = Py("module", None)
        mod.occurred |= set(POOL)
        mod.level_used |= set(POOL)
        top = mod if scope == "module" else Py("func", mod)
        body = block(top, set(), set(), [], 0)
        while budget[0] > 0 and len(body) < 12:
            more = block(top, set(), set(), [c for c in collect_calls(body)], 0)
            if not more:
                break
            body += more
        return dict(scope=scope, body=body)

    def collect_calls(body):
        return [(s[1], len(s[2])) for s in body if s[0] == "defn"]

    return program()


def features(prog):
    """classification for evidence: which scoping situations a program contains"""
    f = set()

    def blk(b, lets, infunc, depth):
        for s in b:
            k = s[0]
            if k == "let":
                names = [n for n, _ in s[1]]
                f.add("let")
                if any(n in lets for n in names):
                    f.add("let-shadows-let")
                if len(set(names)) < len(names):
                    f.add("let-rebinds-in-one-list")
                for n, v in s[1]:
                    if v[0] == "fn":
                        f.add("closure-in-let-binding")
                        fn(v[1], v[2], v[3], lets | set(names), depth)
                blk(s[2], lets | set(names), infunc, depth)
            elif k == "set":
                if s[1] in lets:
                    f.add("setv-to-let-bound-name")
                if s[2][0] == "fn":
                    fn(s[2][1], s[2][2], s[2][3], lets, depth)
            elif k == "defn":
                fn(s[2], s[3], s[4], lets, depth)
            elif k == "lfor":
                f.add("comprehension")
                if s[2] in lets or (s[4] and s[4] in lets):
                    f.add("comprehension-variable-shadows-let")
                if s[6] is not None:
                    f.add("comprehension-with-do")
            elif k == "for":
                f.add("for")
                if s[1] in lets:
                    f.add("for-variable-is-let-bound")
                blk(s[3], lets, infunc, depth)
            elif k == "class":
                f.add("class")
                for d in s[3]:
                    fn(d[2], d[3], d[4], lets, depth)
            elif k == "decl":
                f.add("mid-body-" + s[1])

    def fn(params, decls, block, lets, depth):
        f.add("function-depth-%d" % min(depth + 1, 3))
        for d in decls:
            f.add(d[0])
            if len(d[1]) > 1:
                f.add(d[0] + "-several-names")
            if any(n in lets for n in d[1]):
                f.add(d[0] + "-of-let-bound-name")
        if len(decls) > 1:
            f.add("nonlocal+global-in-one-function")
        if any(p in lets for p in params):
            f.add("parameter-shadows-let")
        blk(block, lets - set(params), True, depth + 1)

    blk(prog["body"], set(), prog.get("scope") == "function", 0)
    return f
