"""Fresh-interpreter oracle for C28.

default: read one request `[case, k, what]` from stdin, build the case's classes
and values, replay only the arming / registration operations before k, make exactly
that one hy.repr call in this new process and print its outcome.

--history: read a case, run the whole history in this new process, print the verdict.
"""
import json
import sys


def main():
    from vf.props import c28

    if "--history" in sys.argv:
        case = json.loads(sys.stdin.read())
        try:
            r = c28.run_history(case)
        except (c28.Malformed, c28.TooBig):
            r = None
        print(json.dumps(r))
        return
    case, k, what = json.loads(sys.stdin.read())
    print(json.dumps(c28.fresh_outcome_here(case, k, what)))


if __name__ == "__main__":
    main()
