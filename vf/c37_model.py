"""Reference model for C37 (reader macros: stream order, None results, per-module / per-reader tables).

Never imports hy. A *case* (JSON) describes library files, source streams and a schedule:

  case    = {"libs": [[libform, ...], ...], "streams": [stream, ...], "sched": [stream index, ...]}
  stream  = {"mod": 0|1, "driver": "lazy"|"step"|"nested", "reuse": null|index, "entries": [entry, ...]}
  entry   = ["def", name, kind, id]            (defreader name <body of that kind>)
          | ["req", lib index, [names]|"*"]     (require LIB :readers [names] / :readers *)
          | ["ct", value, runtime?]             (eval-and-compile (setv CT value)) / (setv CT value)
          | ["use", [item, ...], rec?]          [items]  or  (REC [items])
          | ["bare", [item, ...]]               the items, unbracketed, at top level
          | ["do", [part, ...]]                 (do part ...) with parts def/req/ct/use/nest
          | ["nest", stream index]              (eval-when-compile (NRUN k)): runs nested stream k at compile time
  item    = int | ["l", [item...]] | ["p", [item...]] | ["u", name]        ("_" = the built-in #_)
  libform = ["def", name, kind, id] | ["req", lib index, names|"*"] | ["use", [items]]

Semantics implemented here are the documented ones (docs/macros.rst "Reader macros", docs/api.rst require,
hy.read-many docstring):
  * a stream is read one top-level form at a time; form k+1 is read after form k has been compiled (compile-time
    effects: defreader, require, eval-and-compile) and, when the driver evaluates form by form, also run;
  * `#name` is looked up in the table of the reader that reads the stream, as it is when the enclosing top-level form
    starts to be read; unknown name => syntax error, the stream ends;
  * a reader macro returning None produces no form; `parse-one-form` inside a reader macro skips such non-forms;
  * defreader / require :readers add to the module's table and to the table of the reader of the stream being compiled;
    a fresh reader starts empty; a module's table is not consulted when `#name` is read;
  * a library file is read by a reader of its own: its text may use only what it defined or required itself, otherwise
    requiring it fails with that syntax error (at compile time of the requiring form) and brings nothing in;
  * NOT specified, hence kept out of the domain (Invalid): after `(require L :readers *)` Hy enables every reader macro the
    requiring *module* has, so a name the module got through another reader becomes usable (table entry MAYBE).
"""

POOL = ["a", "b", "c", "d-e", "q!", "λx"]
NEVER = "zz"
KINDS = ["int", "none", "empty", "symnone", "wrap1", "drop1", "key", "ct"]
LIB_KINDS = ["int", "none", "empty", "symnone", "wrap1", "drop1", "key"]
ANY = "<any>"
MAYBE = -1  # table entry whose visibility/binding is unspecified (see Model.compile_entry, require :readers *)
NONE = object()


class Invalid(Exception):
    """the case is outside the generated domain (shrinker artefact)"""


class LexErr(Exception):
    def __init__(self, name):
        Exception.__init__(self, name)
        self.name = name


# ---------------------------------------------------------------------------- rendering


def body_text(kind, did):
    return {
        "int": " %d" % did,
        "none": " None",
        "empty": "",
        "symnone": " 'None",
        "wrap1": " (setv x (.parse-one-form &reader)) `[%d ~x]" % did,
        "drop1": " (.parse-one-form &reader) None",
        "key": " [%d &key]" % did,
        "ct": " [%d CT]" % did,
    }[kind]


def item_text(it):
    if isinstance(it, bool) or not isinstance(it, (int, list)):
        raise Invalid("item")
    if isinstance(it, int):
        if it < 0:
            raise Invalid("negative literal")
        return str(it)
    if len(it) != 2:
        raise Invalid("item shape")
    if it[0] == "l":
        return "[" + items_text(it[1]) + "]"
    if it[0] == "p":
        return "#(" + items_text(it[1]) + ")"
    if it[0] == "u":
        if not isinstance(it[1], str) or not (it[1] in POOL or it[1] in (NEVER, "_")):
            raise Invalid("name")
        return "#" + it[1]
    raise Invalid("item tag")


def items_text(items):
    if not isinstance(items, list):
        raise Invalid("items")
    return " ".join(item_text(i) for i in items)


def entry_text(e, libnames, in_do=False):
    if not isinstance(e, list) or not e:
        raise Invalid("entry")
    t = e[0]
    if t == "def":
        _, name, kind, did = e
        if name not in POOL or kind not in KINDS or not isinstance(did, int):
            raise Invalid("def")
        return "(defreader %s%s)" % (name, body_text(kind, did))
    if t == "req":
        _, k, names = e
        if not isinstance(k, int) or not 0 <= k < len(libnames):
            raise Invalid("req lib")
        if names == "*":
            return "(require %s :readers *)" % libnames[k]
        if not isinstance(names, list) or any(n not in POOL for n in names):
            raise Invalid("req names")
        return "(require %s :readers [%s])" % (libnames[k], " ".join(names))
    if t == "ct":
        _, v, rt = e
        if not isinstance(v, int) or v < 0:
            raise Invalid("ct")
        return "(setv CT %d)" % v if rt else "(eval-and-compile (setv CT %d))" % v
    if t == "use":
        txt = "[" + items_text(e[1]) + "]"
        return "(REC %s)" % txt if (len(e) > 2 and e[2] and not in_do) else txt
    if t == "bare" and not in_do:
        return items_text(e[1])
    if t == "do" and not in_do:
        if not isinstance(e[1], list) or not e[1]:
            raise Invalid("do")
        return "(do %s)" % " ".join(entry_text(p, libnames, True) for p in e[1])
    if t == "nest":
        if not isinstance(e[1], int):
            raise Invalid("nest")
        return "(eval-when-compile (NRUN %d))" % e[1]
    raise Invalid("entry tag")


def stream_text(stream, libnames):
    return "\n".join(entry_text(e, libnames) for e in stream["entries"])


def lib_text(forms, libnames, k):
    out = []
    nuse = 0
    for f in forms:
        if f[0] == "use":
            out.append("(setv LIBVAL%d [%s])" % (nuse, items_text(f[1])))
            nuse += 1
        elif f[0] == "def":
            if f[2] not in LIB_KINDS:
                raise Invalid("lib kind")
            out.append(entry_text(f, libnames))
        elif f[0] == "req":
            if not (isinstance(f[1], int) and 0 <= f[1] < k):
                raise Invalid("lib requires only earlier libs")
            out.append(entry_text(f, libnames))
        else:
            raise Invalid("lib form")
    return "\n".join(out) + "\n"


# ---------------------------------------------------------------------------- reading items with a table


class Env:
    def __init__(self, table, defs, ct):
        self.table, self.defs, self.ct = table, defs, ct
        self.used = []  # (name, def id) of every resolved use


def try_one(items, i, env):
    it = items[i]
    i += 1
    if isinstance(it, int):
        return it, i
    tag = it[0]
    if tag == "l":
        return ["l", parse_all(it[1], env)], i
    if tag == "p":
        return ["p", parse_all(it[1], env)], i
    name = it[1]
    if name == "_":
        _, i = parse_one(items, i, env)
        return NONE, i
    if name not in env.table:
        raise LexErr(name)
    did = env.table[name]
    if did == MAYBE:
        raise Invalid("use of a reader macro whose visibility is unspecified")
    kind, home = env.defs[did]
    env.used.append((name, did, kind))
    if kind == "int":
        return did, i
    if kind in ("none", "empty"):
        return NONE, i
    if kind == "symnone":
        return ["y", "None"], i
    if kind == "wrap1":
        x, i = parse_one(items, i, env)
        return ["l", [did, x]], i
    if kind == "drop1":
        _, i = parse_one(items, i, env)
        return NONE, i
    if kind == "key":
        return ["l", [did, ["s", name]]], i
    if kind == "ct":
        return ["l", [did, env.ct[home]]], i
    raise Invalid("kind")


def parse_one(items, i, env):
    while True:
        if i >= len(items):
            raise Invalid("a form-consuming reader macro has nothing left to consume in its group")
        r, i = try_one(items, i, env)
        if r is not NONE:
            return r, i


def parse_all(items, env):
    out = []
    i = 0
    while i < len(items):
        r, i = try_one(items, i, env)
        if r is not NONE:
            out.append(r)
    return out


def value_of(m):
    if isinstance(m, int):
        return m
    if m[0] == "s":
        return m
    if m[0] == "y":
        if m[1] != "None":
            raise Invalid("symbol")
        return None
    if m[0] in ("l", "p"):
        return [m[0], [value_of(x) for x in m[1]]]
    raise Invalid("no value for " + repr(m))


# ---------------------------------------------------------------------------- libraries


def lib_tables(case, defs):
    """static tables of the library modules (name -> def id) and the values of their LIBVAL variables"""
    tables, vals, broken = [], [], []
    for k, forms in enumerate(case["libs"]):
        t = {}
        vs = []
        home = "L%d" % k
        bad = None  # the library cannot be imported: its own text uses a reader macro its reader does not know
        for i, f in enumerate(forms):
            if f[0] == "def":
                defs[f[3]] = (f[2], home)
                t[f[1]] = f[3]
            elif f[0] == "req":
                if broken[f[1]] is not None:
                    bad = dict(at=i, name=broken[f[1]]["name"], via=f[1])
                    break
                src = tables[f[1]]
                names = sorted(src) if f[2] == "*" else f[2]
                for n in names:
                    if n not in src:
                        raise Invalid("library requires a missing reader macro")
                    t[n] = src[n]
            elif f[0] == "use":
                env = Env(dict(t), defs, {})
                try:
                    vs.append(value_of(["l", parse_all(f[1], env)]))
                except LexErr as x:
                    bad = dict(at=i, name=x.name, via=None)
                    break
        tables.append(t)
        vals.append(vs)
        broken.append(bad)
    return tables, vals, broken


class CompileErr(Exception):
    """a syntax error that surfaces while a form is compiled (a required library cannot be read)"""


# ---------------------------------------------------------------------------- the driver loop (shared with the harness)


def drive(case, be):
    """Run the schedule against a backend (the model below, or the real Hy in vf/props/c37.py)."""
    streams = case["streams"]
    n = len(streams)
    done = [False] * n
    started = [False] * n

    def root(t):
        while streams[t].get("reuse") is not None:
            t = streams[t]["reuse"]
        return t

    def advance(s):
        st = streams[s]
        if done[s] or st["driver"] == "nested":
            return
        r = st.get("reuse")
        if not started[s] and r is not None:
            # one reader object reads one stream at a time: finish the stream whose reader is taken over, and any other
            # stream that is still being read with that reader
            while not done[r]:
                advance(r)
            for t in range(n):
                if t != s and started[t] and root(t) == root(s):
                    while not done[t]:
                        advance(t)
        started[s] = True
        if st["driver"] == "lazy":
            be.run_lazy(s)
            done[s] = True
        else:
            done[s] = bool(be.step(s))

    for s in case["sched"]:
        if isinstance(s, int) and not isinstance(s, bool) and 0 <= s < n:
            advance(s)
    for s in range(n):
        while not done[s] and streams[s]["driver"] != "nested":
            advance(s)


def validate_shape(case):
    if not isinstance(case, dict) or set(case) != {"libs", "streams", "sched"}:
        raise Invalid("case keys")
    if not isinstance(case["libs"], list) or not isinstance(case["streams"], list) or not isinstance(case["sched"], list):
        raise Invalid("case shape")
    if not case["streams"]:
        raise Invalid("no stream")
    ids = set()
    nest_refs = {}

    def see_def(e):
        if len(e) != 4 or not isinstance(e[3], int) or e[3] in ids or e[3] < 100:
            raise Invalid("def id")
        ids.add(e[3])

    for k, forms in enumerate(case["libs"]):
        if not isinstance(forms, list):
            raise Invalid("lib")
        for f in forms:
            if not isinstance(f, list) or not f:
                raise Invalid("lib form")
            if f[0] == "def":
                see_def(f)
            elif f[0] == "req":
                if len(f) != 3:
                    raise Invalid("req")
            elif f[0] == "use":
                if len(f) != 2:
                    raise Invalid("use")
            else:
                raise Invalid("lib form")
    for s, st in enumerate(case["streams"]):
        if not isinstance(st, dict) or set(st) != {"mod", "driver", "reuse", "entries"}:
            raise Invalid("stream keys")
        if st["mod"] not in (0, 1) or isinstance(st["mod"], bool) or st["driver"] not in ("lazy", "step", "nested"):
            raise Invalid("stream attrs")
        r = st["reuse"]
        if r is not None:
            if isinstance(r, bool) or not isinstance(r, int) or not 0 <= r < s or st["driver"] == "nested":
                raise Invalid("reuse")
            if case["streams"][r]["driver"] == "nested" or case["streams"][r]["mod"] != st["mod"]:
                raise Invalid("reuse source")
        if not isinstance(st["entries"], list):
            raise Invalid("entries")
        for e in st["entries"]:
            if not isinstance(e, list) or not e:
                raise Invalid("entry")
            parts = e[1] if e[0] == "do" else [e]
            if not isinstance(parts, list):
                raise Invalid("do")
            for p in parts:
                if not isinstance(p, list) or not p:
                    raise Invalid("part")
                if p[0] == "def":
                    see_def(p)
                elif p[0] == "req":
                    if len(p) != 3:
                        raise Invalid("req")
                elif p[0] == "ct":
                    if len(p) != 3:
                        raise Invalid("ct")
                    if p[2] and (st["driver"] != "step" or e[0] == "do"):
                        raise Invalid("run-time setv only as a top-level form of a stream evaluated form by form")
                elif p[0] == "nest":
                    k = p[1]
                    if len(p) != 2 or isinstance(k, bool) or not isinstance(k, int) or not 0 <= k < len(case["streams"]):
                        raise Invalid("nest")
                    if st["driver"] == "nested" or case["streams"][k]["driver"] != "nested" or k in nest_refs:
                        raise Invalid("nest target")
                    nest_refs[k] = s
                elif p[0] == "use":
                    if len(p) not in (2, 3):
                        raise Invalid("use")
                elif p[0] == "bare":
                    if len(p) != 2 or e[0] == "do":
                        raise Invalid("bare")
                else:
                    raise Invalid("part tag")


# ---------------------------------------------------------------------------- the model backend


class Model:
    def __init__(self, case):
        validate_shape(case)
        self.case = case
        self.defs = {}  # def id -> (kind, home)
        self.libtab, self.libvals, self.libbroken = lib_tables(case, self.defs)
        self.libnames = ["L%d" % k for k in range(len(case["libs"]))]
        for st in case["streams"]:
            stream_text(st, self.libnames)  # shape check (raises Invalid)
        for k, forms in enumerate(case["libs"]):
            lib_text(forms, self.libnames, k)
        n = len(case["streams"])
        self.modtab = [{}, {}]  # M._hy_reader_macros: name -> def id
        self.ct = {0: 0, 1: 0}
        self.rtab = [None] * n  # per stream: the table of its reader (shared object when reused)
        self.cursor = [0] * n
        self.out = [dict(status="not-run", forms=[], recs=[], final=ANY, nforms=0, err=None) for _ in range(n)]
        self.features = set()
        self.libs_used = set()
        self.defined_anywhere = {}  # name -> set of stream indices / lib tags defining it
        for s, st in enumerate(case["streams"]):
            for e in st["entries"]:
                for p in e[1] if e[0] == "do" else [e]:
                    if p[0] == "def":
                        self.defined_anywhere.setdefault(p[1], set()).add(s)
        for k, t in enumerate(self.libtab):
            if self.libbroken[k] is None:
                for nme in t:
                    self.defined_anywhere.setdefault(nme, set()).add("L%d" % k)

    # -- helpers
    def _reader_table(self, s):
        if self.rtab[s] is None:
            r = self.case["streams"][s].get("reuse")
            if r is not None:
                if self.rtab[r] is None:
                    raise Invalid("reuse of a reader that was never created")
                self.rtab[s] = self.rtab[r]
                self.features.add("reader-reused")
            else:
                self.rtab[s] = {}
        return self.rtab[s]

    def _why_undefined(self, s, idx, name, entry):
        st = self.case["streams"][s]
        for p in entry[1] if entry[0] == "do" else []:
            if p[0] == "def" and p[1] == name:
                return "same-form"
            if p[0] == "req":
                t = self.libtab[p[1]]
                if name in (t if p[2] == "*" else p[2]):
                    return "same-form"
        for e in st["entries"][idx + 1:]:
            for p in e[1] if e[0] == "do" else [e]:
                if p[0] == "def" and p[1] == name:
                    return "defined-later"
        where = self.defined_anywhere.get(name, set())
        if any(isinstance(w, str) for w in where):
            for e in st["entries"][:idx]:
                for p in e[1] if e[0] == "do" else [e]:
                    if p[0] == "req" and name in self.libtab[p[1]]:
                        return "not-required"
        if s in where:
            return "other-reader"  # cannot happen for a live stream; kept for completeness
        mods = {self.case["streams"][w]["mod"] for w in where if isinstance(w, int)}
        if st["mod"] in mods:
            return "same-module-other-reader"
        if mods:
            return "other-module"
        if where:
            return "library-not-required"
        return "never-defined"

    def read_entry(self, s, idx):
        """-> list of top-level models the entry produces (0 or 1); raises LexErr"""
        st = self.case["streams"][s]
        e = st["entries"][idx]
        env = Env(self._reader_table(s), self.defs, self.ct)
        t = e[0]
        try:
            if t in ("def", "req", "ct", "nest"):
                head = ("setv" if e[2] else "eval-and-compile") if t == "ct" else {"def": "defreader", "req": "require", "nest": "eval-when-compile"}[t]
                res = [["opaque", head]]
            elif t == "use":
                m = ["l", parse_all(e[1], env)]
                res = [["e", [["y", "REC"], m]]] if len(e) > 2 and e[2] else [m]
            elif t == "bare":
                res = self._read_bare(e[1], env)
            else:
                parts = []
                for p in e[1]:
                    if p[0] == "use":
                        parts.append(["l", parse_all(p[1], env)])
                    else:
                        parts.append(["opaque", {"def": "defreader", "req": "require", "ct": "eval-and-compile", "nest": "eval-when-compile"}[p[0]]])
                res = [["e", [["y", "do"]] + parts]]
        finally:
            for name, did, kind in env.used:
                self.features.add("use:" + kind)
                self._note_use(s, idx, name, did)
        return res

    def _read_bare(self, items, env):
        # the group must produce at most one form, and nothing may follow the produced form
        i = 0
        out = []
        while i < len(items):
            r, i = try_one(items, i, env)
            if r is not NONE:
                out.append(r)
                if i < len(items):
                    raise Invalid("bare group continues after its form")
        return out

    def _note_use(self, s, idx, name, did):
        st = self.case["streams"][s]
        cur = st["entries"][idx]
        # where did the binding come from?
        for e in st["entries"][:idx]:
            for p in e[1] if e[0] == "do" else [e]:
                if p[0] == "def" and p[3] == did:
                    self.features.add("use-after-def")
                    self.after_change = True
                if p[0] == "req" and did in self.libtab[p[1]].values():
                    self.features.add("use-after-require")
                    self.after_change = True
        if cur[0] == "do":
            for p in cur[1]:
                if p[0] == "def" and p[1] == name:
                    self.features.add("old-definition-used-in-redefining-form")
                if p[0] == "req" and name in (self.libtab[p[1]] if p[2] == "*" else p[2]):
                    self.features.add("old-definition-used-in-requiring-form")
        ndefs = len(self.defined_anywhere.get(name, ()))
        if ndefs > 1:
            self.features.add("name-defined-in-several-places")

    after_change = False

    def compile_entry(self, s, idx):
        st = self.case["streams"][s]
        e = st["entries"][idx]
        m = st["mod"]
        tab = self._reader_table(s)
        for p in e[1] if e[0] == "do" else [e]:
            if p[0] == "def":
                if p[1] in tab:
                    self.features.add("redefinition")
                if p[2] == "ct":
                    pass
                self.defs[p[3]] = (p[2], m)
                tab[p[1]] = p[3]
                self.modtab[m][p[1]] = p[3]
            elif p[0] == "req":
                self._import_lib(p[1])
                b = self.libbroken[p[1]]
                if b is not None:
                    # the library is read by its own reader, which knows only the library's reader macros
                    self.features.add("error:library-text-uses-reader-macro-it-lacks")
                    if b["name"] in tab:
                        self.features.add("library-text-uses-reader-macro-of-the-requiring-stream")
                    raise CompileErr(b["name"])
                src = self.libtab[p[1]]
                names = sorted(src) if p[2] == "*" else p[2]
                self.features.add("require:*" if p[2] == "*" else "require:list")
                if p[2] != "*" and set(p[2]) != set(src):
                    self.features.add("require:proper-subset")
                for nme in names:
                    if nme not in src:
                        raise Invalid("require of a reader macro the library does not have")
                    if nme in tab and tab[nme] != src[nme]:
                        self.features.add("redefinition")
                    tab[nme] = src[nme]
                    self.modtab[m][nme] = src[nme]
                if p[2] == "*":
                    # Hy enables, for `:readers *`, every reader macro the *requiring module* has at that moment, not only
                    # the library's. Neither the docs nor the property say whether a reader macro the module got through
                    # another reader becomes usable this way, so such names are out of the domain until redefined here.
                    for nme in sorted(self.modtab[m]):
                        if nme not in src and tab.get(nme) != self.modtab[m][nme]:
                            tab[nme] = MAYBE
                            self.features.add("unspecified:star-require-with-module-macros-from-another-reader")
            elif p[0] == "ct" and not p[2]:
                self.ct[m] = p[1]
            elif p[0] == "nest":
                self.features.add("nested-stream")
                if self.case["streams"][p[1]]["mod"] == m:
                    self.features.add("nested-stream-same-module")
                self.run_lazy(p[1])

    def _import_lib(self, k):
        b = self.libbroken[k]
        for i, f in enumerate(self.case["libs"][k]):
            if f[0] == "req":
                self.features.add("library-requires-library")
                self._import_lib(f[1])
            if b is not None and i == b["at"]:
                return
        self.libs_used.add(k)

    def run_entry(self, s, idx, model):
        """run-time effects; -> value (or ANY)"""
        st = self.case["streams"][s]
        e = st["entries"][idx]
        m = st["mod"]
        o = self.out[s]
        val = ANY
        for p in e[1] if e[0] == "do" else [e]:
            val = ANY
            if p[0] == "ct":
                self.ct[m] = p[1]
            elif p[0] == "def":
                self.modtab[m][p[1]] = p[3]
            elif p[0] == "req":
                src = self.libtab[p[1]]
                for nme in sorted(src) if p[2] == "*" else p[2]:
                    self.modtab[m][nme] = src[nme]
        t = e[0]
        if t == "use":
            v = value_of(model[1][1] if model[0] == "e" else model)
            if model[0] == "e":
                o["recs"].append(v)
                val = None
            else:
                val = v
        elif t == "bare":
            val = value_of(model)
        elif t == "do" and e[1][-1][0] == "use":
            val = value_of(model[1][-1])
        return val

    # -- backend interface
    def _next_form(self, s):
        """read entries until one produces a form; -> (idx, model) | None at end of stream; raises LexErr"""
        st = self.case["streams"][s]
        while self.cursor[s] < len(st["entries"]):
            idx = self.cursor[s]
            self.cursor[s] += 1
            try:
                ms = self.read_entry(s, idx)
            except LexErr as x:
                self.out[s]["status"] = "syntax-error"
                self.out[s]["err"] = dict(name=x.name, entry=idx, why=self._why_undefined(s, idx, x.name, st["entries"][idx]), phase="read")
                self.features.add("error:" + self.out[s]["err"]["why"])
                raise
            if ms:
                return idx, ms[0]
            self.features.add("entry-produces-no-form")
        return None

    def step(self, s):
        o = self.out[s]
        if o["status"] == "not-run":
            o["status"] = "running"
            self._reader_table(s)
        try:
            nf = self._next_form(s)
        except LexErr:
            return True
        if nf is None:
            o["status"] = "ok"
            return True
        idx, model = nf
        try:
            self.compile_entry(s, idx)
        except CompileErr as x:
            o["forms"].append(dict(model=model, value=ANY))
            o["status"] = "syntax-error"
            o["err"] = dict(name=x.args[0], entry=idx, why="library-text-uses-reader-macro-it-lacks", phase="compile")
            return True
        val = self.run_entry(s, idx, model)
        o["forms"].append(dict(model=model, value=val))
        o["nforms"] += 1
        o["final"] = val
        return False

    def run_lazy(self, s):
        o = self.out[s]
        if o["status"] != "not-run":
            raise Invalid("stream run twice")
        o["status"] = "running"
        self._reader_table(s)
        got = []
        try:
            while True:
                nf = self._next_form(s)
                if nf is None:
                    break
                got.append(nf)
                self.compile_entry(s, nf[0])
        except LexErr:
            return
        except CompileErr as x:
            o["status"] = "syntax-error"
            o["err"] = dict(name=x.args[0], entry=nf[0], why="library-text-uses-reader-macro-it-lacks", phase="compile")
            return
        val = ANY
        for idx, model in got:
            val = self.run_entry(s, idx, model)
        o["nforms"] = len(got)
        o["final"] = val if got else ANY
        o["status"] = "ok"


def expectations(case):
    """-> dict(streams=[...], modkeys=[[..],[..]], probes=[...], eager=[...], libvals, features, nontrivial); raises Invalid"""
    m = Model(case)
    drive(case, m)
    n = len(case["streams"])
    for s in range(n):
        if m.out[s]["status"] in ("running",):
            raise Invalid("stream left running")
    # probes: what `#name 1 2` reads as with each stream's reader after the run
    probes = []
    for s in range(n):
        row = {}
        if m.rtab[s] is not None:
            for name in POOL + [NEVER]:
                if m.rtab[s].get(name) == MAYBE:
                    continue
                env = Env(m.rtab[s], m.defs, m.ct)
                try:
                    r, _ = parse_one([["u", name], 1, 2], 0, env)
                    row[name] = ["ok", r]
                except LexErr:
                    row[name] = ["syntax-error"]
        probes.append(row)
    # eager control: the whole text read by a fresh reader before anything is evaluated
    eager = []
    for s, st in enumerate(case["streams"]):
        env = Env({}, m.defs, m.ct)
        cnt = 0
        res = None
        for e in st["entries"]:
            try:
                if e[0] in ("def", "req", "ct", "nest"):
                    cnt += 1
                elif e[0] == "use":
                    parse_all(e[1], env)
                    cnt += 1
                elif e[0] == "bare":
                    cnt += len(parse_all(e[1], env))
                else:
                    for p in e[1]:
                        if p[0] == "use":
                            parse_all(p[1], env)
                    cnt += 1
            except LexErr:
                res = ["syntax-error", cnt]
                break
        eager.append(res or ["ok", cnt])
    feats = set(m.features)
    drivers = {st["driver"] for st in case["streams"]}
    mods = {st["mod"] for st in case["streams"] if True}
    if len(mods) > 1:
        feats.add("two-modules")
    errs = [o["err"]["why"] for o in m.out if o["err"]]
    nontrivial = bool(m.after_change and (len(case["streams"]) > 1 or errs or m.libs_used))
    return dict(streams=m.out, modkeys=[sorted(m.modtab[0]), sorted(m.modtab[1])], probes=probes, eager=eager,
                libvals=m.libvals, libs_used=sorted(m.libs_used), features=sorted(feats), drivers=sorted(drivers),
                nontrivial=nontrivial, ct=[m.ct[0], m.ct[1]])
