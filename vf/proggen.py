"""Hypothesis generator for Engine A programs (see vf/progs.py for the IR).

Soundness discipline (so that the reference interpreter's answer is the only documented one):
  * names are unique per binder (no shadowing here; shadowing is C06/C07's subject);
  * a variable is read only where it is definitely assigned;
  * under an unspecified-order context (call arguments, collection elements, operator operands) no sibling
    writes a variable that another sibling reads or writes, and if one sibling may exit non-locally
    (raise / break / continue / return) all its siblings are pure;
  * arithmetic only on int-typed expressions, indexing only into 3-element list literals, so no
    incidental Python exceptions occur; loops are bounded by counters.
"""
import itertools


class Info:
    __slots__ = ("reads", "writes", "eff", "exits", "stmt")

    def __init__(self):
        self.reads, self.writes = set(), set()
        self.eff = False  # contains an effect
        self.exits = False  # may exit non-locally
        self.stmt = False  # contains a statement-producing form

    def merge(self, o):
        self.reads |= o.reads
        self.writes |= o.writes
        self.eff |= o.eff
        self.exits |= o.exits
        self.stmt |= o.stmt
        return self


class Env:
    def __init__(self):
        self.vars = {}  # name -> type, definitely assigned and readable
        self.no_read = set()
        self.no_write = set()
        self.in_fn = False
        self.in_loop = False
        self.ret_type = "any"
        self.pure = False  # only literals and variables
        self.no_exits = False
        self.no_bind = False  # no forms that bind names in the enclosing scope (inside comprehensions)

    def child(self, **kw):
        e = Env()
        e.vars = dict(self.vars)
        e.no_read = set(self.no_read)
        e.no_write = set(self.no_write)
        e.in_fn, e.in_loop, e.ret_type, e.pure, e.no_exits, e.no_bind = self.in_fn, self.in_loop, self.ret_type, self.pure, self.no_exits, self.no_bind
        for k, v in kw.items():
            setattr(e, k, v)
        return e


STMT_FORMS = ("do2", "if", "when", "cond", "and", "or", "setv", "setx", "let", "while", "for", "try", "with", "raise", "return", "break", "continue", "lfor", "callfn")


class Gen:
    def __init__(self, draw, budget=40, forms=None, faults=False):
        from hypothesis import strategies as st

        self.st = st
        self.draw = draw
        self.budget = budget
        self.ids = itertools.count(1)
        self.names = itertools.count(1)
        self.faults = faults  # every effect may raise: at most one non-pure child per unspecified-order context
        self.forms = forms  # None = all; else the enabled subset of composite forms (swarm testing)
        self.shapes = set()
        self.vartypes = {}  # (outer, inner) pairs where inner is statement-producing inside an expression slot

    # -- helpers
    def integer(self, lo, hi):
        return self.draw(self.st.integers(lo, hi))

    def choice(self, xs):
        return xs[self.integer(0, len(xs) - 1)]

    def fresh(self, prefix):
        return "%s%d" % (prefix, next(self.names))

    def lit(self, want):
        if want == "int":
            return self.integer(-2, 5)
        if want == "list":
            return None
        return self.choice([0, 1, 2, "", "a", None, True, False, 7, "b"])

    def leaf(self, want, env):
        info = Info()
        cands = [n for n, t in env.vars.items() if n not in env.no_read and (want == "any" or t == want)]
        r = self.integer(0, 9)
        if cands and r < 4:
            n = self.choice(sorted(cands))
            info.reads.add(n)
            return ["var", n], info
        if want == "list":
            els = [["lit", self.integer(-2, 5)] for _ in range(3)]
            return ["list", els], info
        if r < 8 and not env.pure:
            info.eff = True
            return ["eff", next(self.ids), self.lit(want)], info
        return ["lit", self.lit(want)], info

    def enabled(self, f):
        return self.forms is None or f in self.forms

    def body(self, want, depth, env, minlen=1, maxlen=3):
        """A sequence of forms evaluated in order; the last has type `want`. Returns (forms, info, env_after)."""
        n = self.integer(minlen, maxlen)
        forms, info = [], Info()
        cur = env
        for i in range(n):
            f, fi, cur = self.expr_seq(want if i == n - 1 else "any", depth, cur)
            forms.append(f)
            info.merge(fi)
            if fi.exits and self.integer(0, 3) > 0:
                # what follows an unconditional exit would be dead code whose last form still types the body
                pass
        return forms, info, cur

    def expr_seq(self, want, depth, env):
        """Expression in a sequential context: variables it definitely assigns become readable afterwards."""
        node, info = self.expr(want, depth, env)
        after = env
        new = self.definite_writes(node)
        if new:
            after = env.child()
            for n, t in new.items():
                after.vars[n] = t
        return node, info, after

    def definite_writes(self, node):
        """Variables certainly assigned once `node` has completed normally (conservative)."""
        k = node[0]
        if k == "setv":
            out = {}
            for n, v in node[1]:
                out.update(self.definite_writes(v))
                out[n] = self.vartypes.get(n, "any")
            return out
        if k == "setx":
            out = self.definite_writes(node[2])
            out[node[1]] = self.vartypes.get(node[1], "any")
            return out
        if k == "do":
            out = {}
            for f in node[1]:
                out.update(self.definite_writes(f))
            return out
        return {}

    def type_of(self, node):
        k = node[0]
        if k in ("lit", "eff"):
            v = node[1] if k == "lit" else node[2]
            return "int" if isinstance(v, int) and not isinstance(v, bool) else "any"
        if k == "list" and len(node[1]) == 3 and all(x[0] == "lit" and isinstance(x[1], int) for x in node[1]):
            return "list"
        if k == "op" and node[1] in ("+", "-", "*"):
            return "int"
        return "any"

    # -- the main recursive generator
    def expr(self, want, depth, env):
        self.budget -= 1
        if depth <= 0 or self.budget <= 0 or env.pure:
            return self.leaf(want, env)
        opts = ["leaf", "leaf", "do2", "if", "let", "callfn", "try", "with", "setx"]
        if want == "int":
            opts += ["op", "op", "get"]
        if want == "any":
            opts += ["when", "cond", "and", "or", "not", "setv", "setv", "while", "for", "cmp", "list", "tuple", "dict", "cut", "lfor", "callfn", "and", "or"]
            if not env.no_exits:
                opts += ["raise"]
                if env.in_fn:
                    opts += ["return"]
                if env.in_loop:
                    opts += ["break", "continue"]
        opts = [o for o in opts if o in ("leaf", "op", "cmp", "get", "cut", "list", "tuple", "dict", "not") or self.enabled(o)]
        if env.no_bind:
            opts = [o for o in opts if o not in ("setv", "setx", "while", "for", "lfor", "with", "try")]
        k = self.choice(opts)
        node, info = getattr(self, "g_" + k)(want, depth - 1, env)
        if k in STMT_FORMS:
            info.stmt = True
        return node, info

    def g_leaf(self, want, depth, env):
        return self.leaf(want, env)

    def g_do2(self, want, depth, env):
        forms, info, _ = self.body(want, depth, env, 2, 3)
        return ["do", forms], info

    def g_if(self, want, depth, env):
        c, ci, after = self.expr_seq("any", depth, env)
        a, ai = self.expr(want, depth, after)
        b, bi = self.expr(want, depth, after)
        return ["if", c, a, b], ci.merge(ai).merge(bi)

    def g_when(self, want, depth, env):
        c, ci, after = self.expr_seq("any", depth, env)
        forms, bi, _ = self.body("any", depth, after, 1, 2)
        return ["when", c, forms], ci.merge(bi)

    def g_cond(self, want, depth, env):
        n = self.integer(1, 3)
        pairs, info = [], Info()
        cur = env
        for _ in range(n):
            c, ci, cur = self.expr_seq("any", depth, cur)
            v, vi = self.expr("any", depth, cur)
            pairs.append([c, v])
            info.merge(ci).merge(vi)
        return ["cond", pairs], info

    def g_and(self, want, depth, env, name="and"):
        n = self.integer(0, 4)
        ops, info = [], Info()
        for _ in range(n):
            o, oi = self.expr("any", depth, env)
            ops.append(o)
            info.merge(oi)
        return [name, ops], info

    def g_or(self, want, depth, env):
        return self.g_and(want, depth, env, "or")

    def g_not(self, want, depth, env):
        x, xi = self.expr("any", depth, env)
        return ["not", x], xi

    def new_var(self, env, prefix="v"):
        return self.fresh(prefix)

    def g_setv(self, want, depth, env):
        n = self.integer(1, 2)
        pairs, info = [], Info()
        cur = env
        for _ in range(n):
            t = self.choice(["int", "any", "list", "int"])
            v, vi = self.expr(t, depth, cur)
            # assign a fresh name, or re-assign an existing one (unless a Par sibling uses it)
            # (only with a value of the variable's recorded type: a re-assignment nested in a conditional or a try is
            #  not tracked by definite_writes, so a type change would leave the enclosing environment wrong)
            existing = [x for x in cur.vars if x not in cur.no_write and x not in cur.no_read and cur.vars[x] == t]
            if existing and self.integer(0, 2) == 0:
                name = self.choice(sorted(existing))
            else:
                name = self.new_var(env)
            pairs.append([name, v])
            info.merge(vi)
            info.writes.add(name)
            self.vartypes[name] = t
            cur = cur.child()
            cur.vars[name] = t
        return ["setv", pairs], info

    def g_setx(self, want, depth, env):
        v, vi = self.expr(want, depth, env)
        name = self.new_var(env)
        vi.writes.add(name)
        self.vartypes[name] = want
        return ["setx", name, v], vi

    def g_let(self, want, depth, env):
        n = self.integer(0, 2)
        binds, info = [], Info()
        cur = env
        for _ in range(n):
            t = self.choice(["int", "any"])
            v, vi = self.expr(t, depth, cur)
            name = self.fresh("l")
            binds.append([name, v])
            info.merge(vi)
            cur = cur.child()
            cur.vars[name] = t
        forms, bi, _ = self.body(want, depth, cur, 1, 3)
        info.merge(bi)
        return ["let", binds, forms], info

    def par(self, wants, depth, env):
        """Children of an unspecified-order context."""
        n = len(wants)
        nodes, infos = [None] * n, [None] * n
        order = list(range(n))
        wild = self.integer(0, n - 1) if n else 0
        order.remove(wild) if n else None
        order = ([wild] if n else []) + order
        acc = Info()
        exits = False
        for j, i in enumerate(order):
            e = env.child()
            e.no_read |= acc.writes
            e.no_write |= acc.writes | acc.reads
            if j > 0:
                e.no_exits = True
                if exits or self.faults:
                    e.pure = True
            nodes[i], infos[i] = self.expr(wants[i], depth, e)
            if j == 0:
                exits = infos[i].exits
            acc.merge(infos[i])
        return nodes, acc

    def g_callfn(self, want, depth, env):
        nparams = self.integer(0, 2)
        params = [self.fresh("p") for _ in range(nparams)]
        ptypes = [self.choice(["int", "any"]) for _ in range(nparams)]
        fenv = env.child(in_fn=True, in_loop=False, ret_type=want, no_read=set(), no_write=set())
        # a function body may read outer variables but assigns only its own fresh names
        fenv.no_write = set(env.vars)
        for p, t in zip(params, ptypes):
            fenv.vars[p] = t
        forms, bi, _ = self.body(want, depth, fenv, 1, 3)
        args, ai = self.par(ptypes, depth, env)
        info = Info().merge(ai)
        info.eff |= bi.eff
        info.stmt |= bi.stmt
        info.reads |= {r for r in bi.reads if r in env.vars}
        info.exits |= self.body_raises(forms)
        if info.exits and ai.eff:
            # the call's own body may exit; that is sequenced after the arguments, so no ambiguity
            pass
        return ["call", ["fn", params, forms], args], info

    def body_raises(self, forms):
        import json

        s = json.dumps(forms)
        return '"raise"' in s

    def g_op(self, want, depth, env):
        n = self.integer(1, 3)
        name = self.choice(["+", "+", "-", "*"])
        args, info = self.par(["int"] * n, depth, env)
        return ["op", name, args], info

    def g_cmp(self, want, depth, env):
        args, info = self.par(["int", "int"], depth, env)
        return ["op", self.choice(["=", "!=", "<", "<=", ">", ">="]), args], info

    def g_list(self, want, depth, env):
        n = self.integer(0, 3)
        els, info = self.par(["any"] * n, depth, env)
        return ["list", els], info

    def g_tuple(self, want, depth, env):
        n = self.integer(0, 3)
        els, info = self.par(["any"] * n, depth, env)
        return ["tuple", els], info

    def g_dict(self, want, depth, env):
        n = self.integer(0, 2)
        vals, info = self.par(["any"] * n, depth, env)
        # distinct literal keys so that the mapping does not depend on evaluation order
        return ["dict", [[["lit", 10 + i], vals[i]] for i in range(n)]], info

    def g_get(self, want, depth, env):
        nodes, info = self.par(["list", "int"], depth, env)
        # the index must be a valid constant position: wrap so that the effects stay but the value is fixed
        idx = nodes[1]
        fixed = ["lit", self.integer(0, 2)]
        if idx[0] in ("lit", "var"):
            idx = fixed
        else:
            idx = ["do", [idx, fixed]]
        return ["get", nodes[0], idx], info

    def g_cut(self, want, depth, env):
        nodes, info = self.par(["list"], depth, env)
        return ["cut", nodes[0], ["lit", self.integer(0, 2)], ["lit", self.integer(0, 3)]], info

    def g_while_queue(self, want, depth, env):
        """a loop driven by a container that the body empties: the test's value is the container itself (through and/or),
        after a statement, so a compiler that keeps the test's value in a temporary must re-evaluate it every pass"""
        q = self.fresh("q")
        n = self.integer(1, 3)
        lenv = env.child(in_loop=True)
        lenv.vars[q] = "list"
        lenv.no_write = set(lenv.no_write) | {q}
        lenv.no_read = set(lenv.no_read) | {q}
        info = Info()
        info.writes.add(q)
        info.eff = True
        info.stmt = True
        e1 = next(self.ids)
        shape = self.integer(0, 2)
        if shape == 0:
            test = ["do", [["eff", e1, 0], ["or", [["var", q], ["lit", None]]]]]
        elif shape == 1:
            test = ["do", [["eff", e1, 0], ["and", [["lit", 1], ["var", q]]]]]
        else:
            test = ["or", [["do", [["eff", e1, 0], ["var", q]]], ["lit", 0]]]
        forms, bi, _ = self.body("any", depth, lenv.child(no_exits=True), 0, 1)
        info.merge(bi)
        init = ["setv", [[q, ["list", [["lit", 10 + i] for i in range(n)]]]]]
        return ["do", [init, ["while", test, [["pop", q]] + forms, None]]], info

    def g_while(self, want, depth, env):
        if self.integer(0, 3) == 0:
            return self.g_while_queue(want, depth, env)
        w = self.fresh("w")
        k = self.integer(0, 3)
        lenv = env.child(in_loop=True)
        lenv.vars[w] = "int"
        lenv.no_write = set(lenv.no_write) | {w}
        test = ["op", "<", [["var", w], ["lit", k]]]
        info = Info()
        info.writes.add(w)
        if self.integer(0, 1):
            pre, pi = self.expr("any", depth, lenv.child(in_loop=False, no_exits=True))
            test = ["do", [pre, test]]
            info.merge(pi)
            info.stmt = True
        incr = ["setv", [[w, ["op", "+", [["var", w], ["lit", 1]]]]]]
        forms, bi, _ = self.body("any", depth, lenv, 0, 2)
        bi.exits = self.body_raises(forms) or ('"return"' in __import__("json").dumps(forms))
        info.merge(bi)
        els = None
        if self.integer(0, 2) == 0:
            els, ei, _ = self.body("any", depth, env.child(no_write=set(env.no_write) | {w}), 1, 2)
            info.merge(ei)
        return ["do", [["setv", [[w, ["lit", 0]]]], ["while", test, [incr] + forms, els]]], info

    def g_for(self, want, depth, env):
        var = self.fresh("i")
        it, ii, after = self.expr_seq("list", depth, env)
        if it[0] == "list" and self.integer(0, 2) == 0:
            it = ["list", it[1][: self.integer(0, 3)]]
        lenv = after.child(in_loop=True)
        lenv.vars[var] = "int"
        lenv.no_write = set(lenv.no_write) | {var}
        forms, bi, _ = self.body("any", depth, lenv, 1, 2)
        import json

        bi.exits = self.body_raises(forms) or ('"return"' in json.dumps(forms))
        info = Info().merge(ii).merge(bi)
        info.writes.add(var)
        els = None
        if self.integer(0, 2) == 0:
            els, ei, _ = self.body("any", depth, after.child(no_write=set(after.no_write) | {var}), 1, 2)
            info.merge(ei)
        return ["for", var, it, forms, els], info

    def g_break(self, want, depth, env):
        i = Info()
        i.exits = True
        return ["break"], i

    def g_continue(self, want, depth, env):
        i = Info()
        i.exits = True
        return ["continue"], i

    def g_return(self, want, depth, env):
        v, vi = self.expr(env.ret_type, depth, env)
        vi.exits = True
        return ["return", v], vi

    def g_raise(self, want, depth, env):
        i = Info()
        i.exits = True
        return ["raise", self.choice(["XA", "XA", "XB", "XC"]), next(self.ids)], i

    def g_try(self, want, depth, env):
        forms, info, _ = self.body(want, depth, env, 1, 3)
        handlers = []
        for _ in range(self.integer(0, 2)):
            excs = self.choice([[], ["XA"], ["XB"], ["XA", "XB"], ["Exception"], ["XC"]])
            var = self.fresh("e") if (self.integer(0, 2) == 0) else None
            if var and self.faults and self.integer(0, 1):
                # an except variable named like a live outer variable must not clobber it
                outer = sorted(x for x in env.vars if x not in env.no_write and x not in env.no_read and not env.in_fn)
                if outer:
                    var = self.choice(outer)
            henv = env
            if var:
                henv = env.child()
                henv.vars[var] = "any"
                henv.no_write = set(henv.no_write) | {var}
            hb, hi, _ = self.body(want, depth, henv, 1, 2)
            info.merge(hi)
            info.reads.discard(var)
            handlers.append([var, excs, hb])
        bare = [h for h in handlers if h[0] is None and not h[1]]
        handlers = [h for h in handlers if not (h[0] is None and not h[1])] + bare[:1]
        els = fin = None
        if handlers and self.integer(0, 2) == 0:
            els, ei, _ = self.body(want, depth, env, 1, 2)
            info.merge(ei)
        if not handlers or self.integer(0, 1):
            fin, fi, _ = self.body("any", depth, env, 1, 2)
            info.merge(fi)
        return ["try", forms, handlers, els, fin], info

    def g_with(self, want, depth, env):
        wide = self.forms is not None and "withpre" in self.forms
        n = self.integer(1, 3 if wide else 2)
        mgrs, info = [], Info()
        info.eff = True
        benv = env.child()
        for _ in range(n):
            var = self.fresh("m") if self.integer(0, 1) else None
            sup = bool(want == "any" and self.integer(0, 2) == 0)
            ev = self.lit("int")
            m = [var, next(self.ids), ev, sup]
            if wide and self.integer(0, 3) == 0:
                # manager expression that compiles to statements: (do (E k 0) (CM ...))
                m.append(next(self.ids))
            mgrs.append(m)
            if var:
                benv.vars[var] = "int"
                benv.no_write = set(benv.no_write) | {var}
                info.writes.add(var)
        forms, bi, _ = self.body(want, depth, benv, 1, 3)
        info.merge(bi)
        return ["with", mgrs, forms], info

    def g_lfor(self, want, depth, env):
        var = self.fresh("c")
        # (Python forbids an assignment expression in a comprehension's iterable)
        # (nor does Hy define break/continue/return in a comprehension's iterable, which it may move into a function)
        it, ii, after = self.expr_seq("list", depth, env.child(no_bind=True, in_fn=False, in_loop=False))
        after = env
        cenv = after.child(in_loop=False, no_exits=True, no_bind=True)
        cenv.vars[var] = "int"
        cenv.no_write = set(cenv.no_write) | {var} | set(cenv.vars)
        cond = None
        info = Info().merge(ii)
        if self.integer(0, 1):
            cond, ci = self.expr("any", depth, cenv)
            info.merge(ci)
        val, vi = self.expr("any", depth, cenv)
        info.merge(vi)
        return ["lfor", var, it, cond, val], info


def program(budget=40, depth=4, forms=None, faults=False):
    """Strategy: (prog, meta) where prog is a list of top-level forms (the last one gives the result)."""
    from hypothesis import strategies as st

    @st.composite
    def build(draw):
        g = Gen(draw, budget=budget, forms=forms, faults=faults)
        env = Env()
        nforms = draw(st.integers(1, 3))
        prog = []
        info = Info()
        for i in range(nforms):
            f, fi, env = g.expr_seq("any", depth, env)
            prog.append(f)
            info.merge(fi)
        return prog

    return build()
