"""CLI: python -m vf <ID> <quick|thorough> [--replay PATH]

Fixes the process environment (hash seed, bytecode cache keyed by the content
of /repo/hy) and re-executes itself once, then runs the property's check.
"""
import hashlib
import os
import sys

ROOT = os.path.dirname(os.path.dirname(os.path.abspath(__file__)))
REPO = os.environ.get("VF_REPO", "/repo")


def tree_hash():
    h = hashlib.sha1()
    base = os.path.join(REPO, "hy")
    for d, dirs, files in sorted(os.walk(base)):
        dirs.sort()
        if "__pycache__" in d:
            continue
        for f in sorted(files):
            if f.endswith((".py", ".hy")):
                p = os.path.join(d, f)
                h.update(p.encode())
                with open(p, "rb") as fh:
                    h.update(fh.read())
    return h.hexdigest()[:16]


def fix_env():
    if os.environ.get("VF_ENV_FIXED") == "1":
        return
    env = dict(os.environ)
    env["VF_ENV_FIXED"] = "1"
    env.setdefault("PYTHONHASHSEED", "0")
    env.pop("PYTHONDONTWRITEBYTECODE", None)
    th = tree_hash()
    env["VF_TREE_HASH"] = th
    pyc_root = os.path.join(ROOT, ".work", "pyc")
    os.makedirs(pyc_root, exist_ok=True)
    # prune old caches (keep the 3 most recent)
    try:
        olds = sorted(
            (os.path.join(pyc_root, d) for d in os.listdir(pyc_root) if d != th),
            key=os.path.getmtime,
        )
        import shutil

        for d in olds[:-3]:
            shutil.rmtree(d, ignore_errors=True)
    except OSError:
        pass
    env["PYTHONPYCACHEPREFIX"] = os.path.join(pyc_root, th)
    pp = [ROOT, os.path.join(ROOT, ".deps")]
    if env.get("PYTHONPATH"):
        pp.append(env["PYTHONPATH"])
    env["PYTHONPATH"] = os.pathsep.join(pp)
    env["HYLANG_HY_VERIF"] = "1"
    os.execve(sys.executable, [sys.executable, "-m", "vf"] + sys.argv[1:], env)


def main():
    fix_env()
    from vf import core

    sys.exit(core.main(sys.argv[1:]))


if __name__ == "__main__":
    main()
