"""Subprocess worker for C15.   python -m vf.c15worker JOBS.json OUT.json

Runs in an interpreter that writes bytecode (the parent unsets PYTHONDONTWRITEBYTECODE and sets a private PYTHONPYCACHEPREFIX).
Each job is one generated package already written to disk by the parent.

import job : phases "fresh" (import from source; must write the .pyc) and/or "cached" (modules dropped from sys.modules, imported
             again; nothing may be compiled from source).  After each import every module of the case is snapshotted: public values
             (canonicalised), _hy_macros / _hy_reader_macros (key -> defining module), the zero-argument probe functions zp_* are
             called, and probe texts are evaluated from outside with hy.eval(..., module=M).
ext job    : one file; its code is obtained the way `hy FILE` obtains it (HyLoader(name, path).get_code(name)) and executed; when
             hy.importer.runhy.run_path works on this interpreter it is run through that as well.

Source compilations are observed at importlib.machinery.SourceFileLoader.source_to_code (the entry point hy.importer replaces) and
through the documented HY_MESSAGE_WHEN_COMPILING messages; bytecode loads at importlib._bootstrap_external._compile_bytecode.
"""
import hashlib
import importlib
import importlib.machinery
import importlib.util
import io
import json
import os
import sys
import types

PY_SUFFIXES = list(importlib.machinery.SOURCE_SUFFIXES)  # Python's own source suffixes, read before hy is imported

CASE_MODULES = set()  # dotted names of the modules of the job being run
compiled = []  # source paths handed to source_to_code
loaded = []  # source paths whose code came out of a .pyc


def install_counters():
    sfl = importlib.machinery.SourceFileLoader
    inner = sfl.source_to_code

    def counting_source_to_code(self, data, path, *a, **k):
        compiled.append(os.fspath(path))
        return inner(self, data, path, *a, **k)

    sfl.source_to_code = counting_source_to_code
    be = importlib._bootstrap_external
    inner_cb = be._compile_bytecode

    def counting_compile_bytecode(data, name=None, bytecode_path=None, source_path=None):
        loaded.append(source_path)
        return inner_cb(data, name, bytecode_path, source_path)

    be._compile_bytecode = counting_compile_bytecode


def code_canon(co):
    consts = []
    for c in co.co_consts:
        if isinstance(c, types.CodeType):
            consts.append(code_canon(c))
        elif isinstance(c, frozenset):
            consts.append("frozenset:" + repr(sorted(map(repr, c))))
        else:
            consts.append(type(c).__name__ + ":" + repr(c))
    t = (co.co_name, co.co_qualname, co.co_argcount, co.co_posonlyargcount, co.co_kwonlyargcount, co.co_flags, co.co_code.hex(), consts,
         co.co_names, co.co_varnames, co.co_freevars, co.co_cellvars, co.co_firstlineno, co.co_linetable.hex(), co.co_exceptiontable.hex())
    return hashlib.sha256(repr(t).encode()).hexdigest()[:20]


def canon(v, d=0):
    import hy

    if d > 8:
        return "<deep>"
    t = type(v)
    if v is None or t is bool:
        return repr(v)
    if t is int:
        return "int:%d" % v
    if t is float:
        return "float:" + repr(v)
    if t is complex:
        return "complex:" + repr(v)
    if t is str:
        return "str:" + v
    if t is bytes:
        return "bytes:" + v.hex()
    if t in (list, tuple):
        return [t.__name__] + [canon(x, d + 1) for x in v]
    if t in (set, frozenset):
        return [t.__name__] + sorted((canon(x, d + 1) for x in v), key=lambda c: json.dumps(c, sort_keys=True))
    if t is dict:
        return ["dict"] + [[canon(k, d + 1), canon(x, d + 1)] for k, x in v.items()]
    if isinstance(v, hy.models.Object):
        return ["model", t.__name__, hy.repr(v)]
    if isinstance(v, types.ModuleType):
        return ["module", v.__name__]
    if isinstance(v, (type, types.FunctionType)) and v.__module__ not in CASE_MODULES:
        return ["foreign", v.__module__, v.__qualname__]  # the harness's own E/CM/XA..., builtins: not produced by the case's code
    if isinstance(v, type):
        attrs = {}
        for k in sorted(vars(v)):
            if k in ("__dict__", "__weakref__", "__module__", "__firstlineno__", "__static_attributes__"):
                continue
            attrs[k] = canon(vars(v)[k], d + 1)
        return ["class", v.__module__, v.__qualname__, [b.__qualname__ for b in v.__bases__], attrs]
    if isinstance(v, types.FunctionType):
        return ["fn", v.__module__, v.__qualname__, canon(v.__doc__), canon(v.__defaults__, d + 1), canon(v.__kwdefaults__, d + 1),
                sorted(v.__annotations__), code_canon(v.__code__)]
    if isinstance(v, (staticmethod, classmethod)):
        return [t.__name__, canon(v.__func__, d + 1)]
    if isinstance(v, BaseException):
        return ["exc", t.__name__, canon(getattr(v, "payload", None))]
    if callable(v):
        return ["callable", getattr(v, "__module__", None) or "?", getattr(v, "__qualname__", t.__name__)]
    r = repr(v)
    if " at 0x" in r:
        r = "<instance>"
    return ["obj", t.__module__ + "." + t.__qualname__, r]


def outcome_of(fn):
    """-> ["ok", canon] | ["raise", type name, text]"""
    try:
        return ["ok", canon(fn())]
    except (KeyboardInterrupt, SystemExit, MemoryError):
        raise
    except BaseException as e:  # noqa: the programs raise BaseException subclasses on purpose
        p = getattr(e, "payload", None)
        return ["raise", type(e).__name__, str(p) if p is not None else str(e)[:300]]


def macro_table(d):
    out = {}
    for k in sorted(d):
        f = d[k]
        out[k] = [getattr(f, "__module__", None), getattr(f, "__name__", None), canon(getattr(f, "__doc__", None))]
    return out


def snapshot(job):
    """Probes first (they may import further modules of the case), then every module of the case that is loaded."""
    import hy

    snap = {}
    main = sys.modules.get(job["main"])
    probes = ext = None
    if main is not None:
        d = main.__dict__
        probes = {}
        for k in sorted(d):
            if k.startswith("zp_") and callable(d[k]):
                probes[k] = outcome_of(d[k])
        ext = [outcome_of(lambda src=src: hy.eval(hy.read(src), module=main)) for src in job.get("ext_probes", [])]
    for name in job["modules"]:
        m = sys.modules.get(name)
        if m is None:
            snap[name] = None
            continue
        d = m.__dict__
        s = dict(
            # a package's attribute that is its own submodule is put there by the import system when anybody imports the submodule
            # (e.g. hy.R at compile time only): which modules are loaded is not a value of the module
            public={k: canon(d[k]) for k in sorted(d) if not k.startswith("_")
                    and not (isinstance(d[k], types.ModuleType) and d[k].__name__ == m.__name__ + "." + k)},
            macros=macro_table(d.get("_hy_macros", {})),
            readers=macro_table(d.get("_hy_reader_macros", {})),
            extras={k: canon(d.get(k)) for k in ("__all__", "_hy_export_macros", "__doc__", "__name__", "__package__")},
            file=d.get("__file__"),
            cached=d.get("__cached__"),
        )
        if name == job["main"]:
            s["probes"] = probes
            s["ext_probes"] = ext
        snap[name] = s
    return snap


def pyc_info(path):
    """Header of the cache file that belongs to source `path`, next to the source's stat."""
    st = os.stat(path)
    cache = importlib.util.cache_from_source(path)
    info = dict(source=path, cache=cache, exists=os.path.exists(cache), src_mtime=int(st.st_mtime) & 0xFFFFFFFF, src_size=st.st_size & 0xFFFFFFFF)
    if info["exists"]:
        with open(cache, "rb") as f:
            head = f.read(16)
        info["magic_ok"] = head[:4] == importlib.util.MAGIC_NUMBER
        info["flags"] = int.from_bytes(head[4:8], "little")
        info["pyc_mtime"] = int.from_bytes(head[8:12], "little")
        info["pyc_size"] = int.from_bytes(head[12:16], "little")
        info["cache_stat"] = [os.stat(cache).st_mtime_ns, os.stat(cache).st_size]
    return info


class Capture:
    def __enter__(self):
        self.old = sys.stderr
        self.buf = io.StringIO()
        sys.stderr = self.buf
        return self

    def __exit__(self, *a):
        sys.stderr = self.old

    def compiling(self):
        return [ln[len("Compiling "):] for ln in self.buf.getvalue().splitlines() if ln.startswith("Compiling ")]

    def other(self):
        return [ln for ln in self.buf.getvalue().splitlines() if not ln.startswith("Compiling ")][:20]


def purge(names, root):
    for n in names:
        sys.modules.pop(n, None)
    sys.path_importer_cache.pop(root, None)
    importlib.invalidate_caches()


def do_import(job, phase):
    from vf import c15_fx

    c15_fx.reset()
    del compiled[:]
    del loaded[:]
    under = lambda p: p is not None and os.fspath(p).startswith(job["root"] + os.sep)
    with Capture() as cap:
        out = outcome_of(lambda: importlib.import_module(job["main"]) and None)
        res = dict(phase=phase, outcome=out, log=c15_fx.log(), compiled_by_import=sorted(p for p in compiled if under(p)))
        res["snap"] = snapshot(job)
    res.update(
        compiled=sorted(p for p in compiled if under(p)),
        messages=sorted(p for p in cap.compiling() if under(p)),
        loaded=sorted(p for p in loaded if under(p)),
        stderr=cap.other(),
        log_after_probes=c15_fx.log(),
    )
    res["pyc"] = {name: pyc_info(os.path.join(job["root"], rel)) for name, rel in sorted(job["files"].items())}
    return res


def run_import_job(job):
    root = job["root"]
    for n in job["modules"]:
        if n in sys.modules:
            raise RuntimeError("module name %s of job %s is already imported in the worker" % (n, job["id"]))
    sys.path.insert(0, root)
    CASE_MODULES.clear()
    CASE_MODULES.update(job["modules"])
    out = dict(id=job["id"], phases=[])
    try:
        for phase in job["phases"]:
            if phase == "cached":
                purge(job["modules"] if job["drop"] != "main" else [job["main"]], root)
            out["phases"].append(do_import(job, phase))
    finally:
        sys.path.remove(root)
        purge(job["modules"], root)
    return out


RUNPATH = {"state": None, "why": None}


def runpath_usable(scratch):
    """`hy FILE` goes through hy.importer.runhy.run_path; probe it once on a trivial .hy file."""
    import hy.importer

    if RUNPATH["state"] is None:
        p = os.path.join(scratch, "vf_runpath_probe.hy")
        with open(p, "w") as f:
            f.write("(setv R 1)\n")
        try:
            ns = hy.importer.runhy.run_path(p, run_name="vf_runpath_probe")
            RUNPATH["state"] = ns.get("R") == 1
            RUNPATH["why"] = "ok" if RUNPATH["state"] else "probe ran but R is %r" % (ns.get("R"),)
        except Exception as e:  # the probe is not a verdict; its failure is reported, and the leg is then skipped
            RUNPATH["state"] = False
            RUNPATH["why"] = "%s: %s" % (type(e).__name__, e)
    return RUNPATH["state"]


def run_ext_job(job):
    import hy.importer

    path, stem = job["path"], job["stem"]
    out = dict(id=job["id"], loads=[], py_suffixes=PY_SUFFIXES)
    for i in range(2):
        del compiled[:]
        del loaded[:]

        def load():
            loader = hy.importer.HyLoader(stem, path)
            code = loader.get_code(stem)
            ns = {"__name__": stem, "__file__": path}
            exec(code, ns)
            return ns.get("R")

        with Capture() as cap:
            o = outcome_of(load)
        out["loads"].append(dict(outcome=o, compiled=list(compiled), messages=cap.compiling(), loaded=[p for p in loaded if p == path]))
    out["pyc"] = pyc_info(path)
    if runpath_usable(job["scratch"]):
        with Capture() as cap:
            out["run_path"] = outcome_of(lambda: hy.importer.runhy.run_path(path, run_name="vf_c15_main").get("R"))
    else:
        out["run_path"] = None
        out["run_path_why"] = RUNPATH["why"]
    return out


def main():
    with open(sys.argv[1]) as f:
        jobs = json.load(f)
    if sys.dont_write_bytecode:
        raise RuntimeError("worker started with bytecode writing disabled")
    import hy  # noqa: F401
    import hy.importer  # noqa: F401

    install_counters()
    out = []
    for job in jobs:
        out.append(run_ext_job(job) if job["kind"] == "ext" else run_import_job(job))
    with open(sys.argv[2], "w") as f:
        json.dump(out, f, ensure_ascii=True)


if __name__ == "__main__":
    main()
