;; helper for C13: a module with an explicit export list
(defmacro alpha [x] x)
(defmacro beta [x] x)
(defmacro gamma-ray [x] x)
(defmacro delta [x] x)
(defmacro epsilon [x] x)
(defmacro zeta [x] x)
(export :macros [zeta beta epsilon alpha delta])
