"""C10 helpers, part 2: the tree generator (shape-aware, then made sloppy by mutations).

All randomness comes from the `random.Random` object handed in, which the check draws from
Hypothesis (`st.randoms(use_true_random=True)`: a Random seeded by a Hypothesis draw), so a run is
a function of VERIF_SEED.

Safety of compile-time evaluation. Some heads run user code while compiling
(eval-and-compile, eval-when-compile, do-mac, defmacro, defreader, require, pragma, and a call
of a macro defined earlier in the same case). Their arguments are produced by `safe()` only:
literals, quoted trees, arithmetic on literals, assignments, function definitions that are never
called, raising expressions that `except Exception` catches. Such nodes are `Prot` lists which
the mutator never edits. Divergence of macro expansion (a user's own infinite loop, no defect of
Hy) is excluded by construction: macros are only ever defined under the reserved names m1 m2 m3
(or, shadowing a core name, with a literal body), `require` only aliases to those names, and
trees that a macro returns are generated "inert": they mention neither those names nor any
compile-time head.
"""
from collections import namedtuple

Cx = namedtuple("Cx", "loop fn afn")
TOP = Cx(False, False, False)

COMPILE_TIME = ("eval-and-compile", "eval-when-compile", "do-mac", "defmacro", "defreader", "require", "pragma")
MACRO_NAMES = ["m1", "m2", "m3"]
PLACEHOLDERS = ("except", "except*", "else", "finally", "unquote", "unquote-splice", "unpack-mapping")

VARS = ["a", "b", "c", "x", "y", "f", "g", "xs", "e", "T", "foo-bar", "self", "ok?", "_"]
CONSTS = ["None", "True", "False", "__debug__", "..."]
ODD = ["*", "/", "|", ".", "&", "_", "if*", "...", "-", "%"]
DOTTED = ["a.b", "x.y.z", ".m", "..rel", "hy.I.os", "hy.models.Symbol", "a.None", "self.x", "f.__name__", "hy.R.nonexistent-zz.m", "hy.R.hy/core/macros.when", "p.when"]
KWS = ["a", "b", "as", "if", "from", "async", "setv", "do", "tp", "chain", "macros", "readers", "lazy", "hy", "foo-bar", "", "None", "reader", "objects", "else"]
STRS = ["", "s", "doc", "a b", "\n", "{x}", "\x00", "\ud800", "café", "x" * 40]
PY_SNIPPETS = ["1+1", "x", "1+", "x = 1", "a b", "", "\x00", "yield", "return 1", "(", "lambda: (yield)", "await x", "*a", "a := 1", "def f(): pass", "  x = 1\n  y = 2",
               "x = 1\n  y = 2", "f'{x!z}'", "1;2", "print('a')\nimport os", "{**a}", "None = 1", "__debug__ = 1", "break", "nonlocal q", "\\", "#", "1 if", "class A: pass",
               "[*a for a in b]", "x: int = 3", "del x", "global g1", "from __future__ import annotations", "from __future__ import braces"]
C_OPS = ["<", "<=", "=", "!=", ">", ">=", "is", "is-not", "in", "not-in", "foo", "+", "None"]
MODS = ["os", "os.path", "a.b", ".rel", "..rel.m", ".", "..", "hy", "foo-bar", "__future__", "sys", "None", "a.None"]
REQ_MODS = ["hy.core.macros", "hy.core.result_macros", "hy", "hy.core", "nonexistent-zz", ".rel-zz", "..rel-zz.m", ".", "hy.models", "hy.core.util"]
REQ_NAMES = ["when", "cond", "if", "do", "setv", "nope", "export", "defn", "match", "unpack-mapping"]


class Prot(list):
    "a node the mutator must leave alone (its content is evaluated at compile time)"


def S(n):
    return ["sym", n]


def K(n):
    return ["kw", n]


def I(n):
    return ["int", n]


def Str(s):
    return ["str", s]


def E(*xs):
    return ["expr", list(xs)]


def L(*xs):
    return ["list", list(xs)]


def PE(*xs):
    return Prot(["expr", list(xs)])


def plain(node):
    "deep copy into plain lists (drops the Prot marks)"
    if isinstance(node, list):
        return [plain(x) for x in node]
    return node


def clone(node):
    "deep copy that keeps the Prot marks"
    if isinstance(node, list):
        return type(node)(clone(x) for x in node)
    return node


def is_zone(node):
    "an expression whose head is a compile-time evaluating macro"
    return (isinstance(node, list) and len(node) >= 2 and node[0] == "expr" and isinstance(node[1], list) and node[1]
            and isinstance(node[1][0], list) and node[1][0][:1] == ["sym"] and node[1][0][1] in COMPILE_TIME)


def unmangle_head(name):
    import hy

    return hy.unmangle(name)


class Gen:
    def __init__(self, rnd, heads, inert=False):
        self.r = rnd
        self.inert = inert
        self.heads = [h for h in heads if not (inert and h in COMPILE_TIME)]
        self.vars = VARS + ([] if inert else [])
        self.focus = None

    # ---------------------------------------------------------------- small draws
    def p(self, x):
        return self.r.random() < x

    def ch(self, xs):
        return xs[self.r.randrange(len(xs))]

    def n(self, lo, hi):
        return self.r.randint(lo, hi)

    def wch(self, pairs):
        tot = sum(w for w, _ in pairs)
        x = self.r.random() * tot
        for w, v in pairs:
            x -= w
            if x < 0:
                return v() if callable(v) else v
        v = pairs[-1][1]
        return v() if callable(v) else v

    def many(self, f, lo, hi, *a):
        return [f(*a) for _ in range(self.n(lo, hi))]

    # ---------------------------------------------------------------- atoms
    def var(self):
        return S(self.ch(self.vars))

    def name(self):
        "a name in a binding position: mostly a variable, sometimes a constant's name"
        return self.var() if self.p(0.93) else S(self.ch(CONSTS))

    def lit(self):
        k = self.wch([(5, "int"), (2, "float"), (1, "complex"), (4, "str"), (1, "bytes")])
        if k == "int":
            return I(self.ch([0, 1, 2, -1, 3, 10, 255, -7, 10 ** 20]))
        if k == "float":
            return ["float", self.ch(["1.5", "0.0", "-0.0", "nan", "inf", "-inf", "1e300"])]
        if k == "complex":
            return ["complex", self.ch(["2j", "0j", "-1.5j"])]
        if k == "str":
            return Str(self.ch(STRS))
        return ["bytes", self.ch(["", "ab", "\x00\xff"])]

    def fstring(self, d, cx):
        parts = []
        for _ in range(self.n(0, 3)):
            if self.p(0.4):
                parts.append(Str(self.ch(["", "a", " b ", "{", "}}", "\n", "=", "!r"])))
            else:
                parts.append(self.fcomp(d, cx, 2))
        return ["fstr", parts]

    def fcomp(self, d, cx, nest):
        items = [self.form(d - 1, cx) if self.p(0.5) else self.var()]
        if self.p(0.4):
            for _ in range(self.n(1, 2)):
                if nest and self.p(0.4):
                    items.append(self.fcomp(d - 1, cx, nest - 1))
                else:
                    items.append(Str(self.ch([">", "10", ".2f", "", "{", " ", "^"])))
        return ["fcomp", items, self.wch([(6, None), (1, "r"), (1, "s"), (1, "a"), (1, "z")])]

    def atom(self, d=0, cx=TOP):
        k = self.wch([(40, "var"), (7, "const"), (20, "lit"), (7, "kw"), (3, "odd"), (6, "dotted"), (3, "fstr"), (1 if not self.inert else 0, "mac"), (4, "novalue")])
        if k == "var":
            return self.var()
        if k == "novalue":  # forms that compile to no expression (and some to no statement either)
            return self.ch([lambda: E(S("do")), lambda: E(S("pys"), Str("")), lambda: E(S("do"), E(S("do"))), lambda: E(S("import")), lambda: E(S("setv")),
                            lambda: E(S("pys"), Str("x = 1")), lambda: E(S("global")), lambda: E(S("del")), lambda: E(S("let"), L()), lambda: E(S("py"), Str("None"))])()
        if k == "const":
            return S(self.ch(CONSTS))
        if k == "lit":
            return self.lit()
        if k == "kw":
            return K(self.ch(KWS))
        if k == "odd":
            return S(self.ch(ODD))
        if k == "dotted":
            xs = [x for x in DOTTED if not (self.inert and x == "p.when")]
            return S(self.ch(xs))
        if k == "fstr":
            return self.fstring(min(d, 2), cx)
        return S(self.ch(MACRO_NAMES))

    # ---------------------------------------------------------------- forms
    def form(self, d, cx=TOP):
        if d <= 0:
            return self.atom(d, cx)
        k = self.wch([(28, "atom"), (46, "special"), (10, "call"), (10, "coll"), (6, "other")])
        if k == "atom":
            return self.atom(d, cx)
        if k == "special":
            return self.special(self.pick_head(cx), d, cx)
        if k == "call":
            return self.call(d, cx)
        if k == "coll":
            return self.coll(d, cx)
        return self.other(d, cx)

    def forms(self, d, cx, lo=0, hi=3):
        return self.many(self.form, lo, hi, d, cx)

    def pick_head(self, cx):
        for _ in range(6):
            h = self.ch(self.heads)
            if h in ("break", "continue") and not cx.loop and self.p(0.85):
                continue
            if h in ("return", "yield", "nonlocal") and not cx.fn and self.p(0.85):
                continue
            if h == "await" and not cx.afn and self.p(0.85):
                continue
            if h in PLACEHOLDERS and self.p(0.8):
                continue
            if h in COMPILE_TIME and self.p(0.5):
                continue
            return h
        return "do"

    def args(self, d, cx, lo=0, hi=3):
        "call arguments: positional, keyword, unpacking"
        out = []
        for _ in range(self.n(lo, hi)):
            k = self.wch([(10, "pos"), (3, "kw"), (1, "star"), (1, "dstar")])
            if k == "pos":
                out.append(self.form(d, cx))
            elif k == "kw":
                out += [K(self.ch(["a", "b", "foo-bar", "if", "None", "from"])), self.form(d, cx)]
            elif k == "star":
                out.append(E(S("unpack-iterable"), self.form(d, cx)))
            else:
                out.append(E(S("unpack-mapping"), self.form(d, cx)))
        return out

    def call(self, d, cx):
        head = self.wch([(8, self.var), (2, lambda: S(self.ch(DOTTED[:9]))), (1, lambda: self.form(d - 1, cx)), (0 if self.inert else 2, lambda: S(self.ch(MACRO_NAMES)))])
        return E(head, *self.args(d - 1, cx))

    def coll(self, d, cx):
        k = self.wch([(4, "list"), (3, "dict"), (2, "tuple"), (2, "set"), (2, "fstr")])
        if k == "fstr":
            return self.fstring(d, cx)
        n = self.n(0, 3)
        items = []
        for _ in range(n * (2 if k == "dict" else 1)):
            items.append(self.form(d - 1, cx))
        if self.p(0.2):
            items.insert(self.n(0, len(items)), E(S(self.ch(["unpack-iterable", "unpack-mapping"])), self.form(d - 1, cx)))
        return [k, items]

    def other(self, d, cx):
        k = self.n(0, 6)
        if k == 0:
            return E()
        if k == 1:
            return E(self.lit(), *self.forms(d - 1, cx, 0, 2))
        if k == 2:
            return E(S(".m"), self.form(d - 1, cx), *self.args(d - 1, cx, 0, 2))
        if k == 3:
            return E(E(S("."), S("None"), S("m")), *self.args(d - 1, cx, 0, 2))
        if k == 4:
            return E(self.special("fn", d - 1, cx), *self.args(d - 1, cx, 0, 2))
        if k == 5:
            return E(E(S("annotate"), self.var(), self.form(d - 1, cx)), *self.forms(d - 1, cx, 0, 2))
        return E(K(self.ch(KWS)), *self.forms(d - 1, cx, 0, 2))

    # ---------------------------------------------------------------- shapes used by the templates
    def annotated(self, x, d, cx, p=0.2):
        return E(S("annotate"), x, self.ann(d, cx)) if self.p(p) else x

    def ann(self, d, cx):
        return self.wch([(5, S("int")), (2, S("a.b")), (2, Str("T")), (2, lambda: self.form(d - 1, cx))])

    def target(self, d, cx):
        k = self.wch([(60, "sym"), (8, "attr"), (6, "get"), (12, "seq"), (4, "dot"), (3, "const"), (3, "lit"), (4, "form")])
        if k == "sym":
            return self.var()
        if k == "attr":
            return S(self.ch(["a.b", "self.x", "x.y.z"]))
        if k == "get":
            return E(S("get"), self.var(), self.form(d - 1, cx))
        if k == "seq":
            items = [self.target(d - 1, cx) if d > 1 else self.var() for _ in range(self.n(0, 3))]
            if self.p(0.3):
                items.insert(self.n(0, len(items)), E(S("unpack-iterable"), self.var()))
            return [self.ch(["list", "tuple"]), items]
        if k == "dot":
            return E(S("."), self.var(), self.var())
        if k == "const":
            return S(self.ch(CONSTS))
        if k == "lit":
            return self.lit()
        return self.form(d - 1, cx)

    def param(self, d, cx, default=False):
        n = self.name()
        if default:
            n = L(n, self.form(d - 1, cx))
        return self.annotated(n, d, cx, 0.15)

    def lambda_list(self, d, cx):
        out = []
        if self.p(0.15):
            out += self.many(self.param, 1, 2, d, cx) + [S("/")]
        out += self.many(self.param, 0, 2, d, cx)
        out += [self.param(d, cx, True) for _ in range(self.n(0, 1))]
        star = False
        if self.p(0.25):
            if self.p(0.5):
                out.append(S("*"))
                star = True
            else:
                out.append(self.annotated(E(S("unpack-iterable"), self.name()), d, cx, 0.15))
            for _ in range(self.n(1 if star else 0, 2)):
                out.append(self.param(d, cx, self.p(0.4)))
        if self.p(0.2):
            out.append(self.annotated(E(S("unpack-mapping"), self.name()), d, cx, 0.15))
        return L(*out)

    def type_params(self, d, cx):
        items = []
        for _ in range(self.n(0, 3)):
            k = self.n(0, 4)
            if k <= 1:
                items.append(self.name() if self.p(0.9) else S("T"))
            elif k == 2:
                items.append(E(S("annotate"), self.name(), self.ann(d, cx)))
            elif k == 3:
                items.append(E(S("unpack-iterable"), self.name()))
            else:
                items.append(E(S("unpack-mapping"), self.name()))
        return [K("tp"), L(*items)]

    def pattern(self, d, cx):
        "one pattern, as a list of clause items (pattern [:as name])"
        k = self.wch([(14, "cap"), (6, "wild"), (3, "kw"), (16, "lit"), (4, "const"), (12, "seq"), (6, "value"), (8, "or"), (10, "map"), (12, "cls"), (2, "form")]) if d > 0 else \
            self.wch([(3, "cap"), (1, "wild"), (3, "lit"), (1, "const")])
        if k == "cap":
            p = self.name()
        elif k == "wild":
            p = S("_")
        elif k == "kw":
            p = K(self.ch(KWS))
        elif k == "lit":
            p = self.lit()
        elif k == "const":
            p = S(self.ch(["None", "True", "False"]))
        elif k == "seq":
            items = [self.pat1(d - 1, cx) for _ in range(self.n(0, 3))]
            for _ in range(self.wch([(6, 0), (3, 1), (1, 2)])):
                items.insert(self.n(0, len(items)), E(S("unpack-iterable"), self.name() if self.p(0.7) else S("_")))
            p = [self.ch(["list", "tuple"]), items]
        elif k == "value":
            p = E(S("."), *self.many(self.name, 0, 3)) if self.p(0.5) else S(self.ch(["a.b", "x.y.z", "a.None"]))
        elif k == "or":
            p = E(S("|"), *[self.pat1(d - 1, cx) for _ in range(self.n(0, 3))])
        elif k == "map":
            items = []
            for _ in range(self.n(0, 2)):
                items += [self.lit() if self.p(0.85) else self.ch([S("None"), S("a.b"), self.var()]), self.pat1(d - 1, cx)]
            if self.p(0.35):
                items.append(E(S("unpack-mapping"), self.name() if self.p(0.8) else S("_")))
            p = ["dict", items]
        elif k == "cls":
            head = self.wch([(5, lambda: S(self.ch(["int", "str", "Point", "T"]))), (2, S("a.b")), (1, lambda: E(S("."), self.var(), self.var())), (1, self.name)])
            items = [head] + [self.pat1(d - 1, cx) for _ in range(self.n(0, 2))]
            for _ in range(self.n(0, 2)):
                items += [K(self.ch(["a", "b", "foo-bar", "None", "if", ""])), self.pat1(d - 1, cx)]
            p = E(*items)
        else:
            p = self.form(d - 1, cx)
        out = [p]
        if self.p(0.12):
            out += [K("as"), self.name()]
        return out

    def pat1(self, d, cx):
        "a nested pattern (single node; :as is only possible at clause level in Hy's grammar for nested ones too, as a pair)"
        return self.pattern(d, cx)[0]

    def loopers(self, d, cx, need_for=True):
        out = []
        n = self.n(1, 3)
        for i in range(n):
            k = "for" if (i == 0 and need_for and self.p(0.92)) else self.wch([(5, "for"), (3, "if"), (2, "do"), (2, "setv"), (1, "async")])
            if k == "for":
                out += [self.target(d - 1, cx), self.form(d - 1, cx)]
            elif k == "if":
                out += [K("if"), self.form(d - 1, cx)]
            elif k == "do":
                out += [K("do"), self.form(d - 1, cx._replace(loop=True))]
            elif k == "setv":
                out += [K("setv"), self.target(d - 1, cx), self.form(d - 1, cx)]
            else:
                out += [K("async"), self.target(d - 1, cx), self.form(d - 1, cx)]
        return out

    def body(self, d, cx, lo=0, hi=3):
        return self.forms(d - 1, cx, lo, hi)

    def dolike(self, head, d, cx):
        return E(S(head), *self.body(d, cx, 0, 2))

    def catcher(self, d, cx, star=False):
        k = self.n(0, 4)
        if k == 0:
            spec = L()
        elif k == 1:
            spec = L(S(self.ch(["ValueError", "E", "a.b"])))
        elif k == 2:
            spec = L(self.name(), S("ValueError"))
        elif k == 3:
            spec = L(self.name(), L(S("E"), S("KeyError")))
        else:
            spec = L(L(S("E"), self.form(d - 1, cx)))
        return E(S("except*" if star else "except"), spec, *self.body(d, cx, 0, 2))

    def try_form(self, d, cx, need=None):
        out = self.body(d, cx, 0, 2)
        star = need == "except*" or (need != "except" and self.p(0.15))
        nc = self.n(1 if need in ("except", "except*") else 0, 2)
        for i in range(nc):
            out.append(self.catcher(d, cx, star if self.p(0.95) else not star))
        if need == "else" or self.p(0.25):
            out.append(self.dolike("else", d, cx))
        if need == "finally" or self.p(0.3) or (nc == 0 and self.p(0.8)):
            out.append(self.dolike("finally", d, cx))
        return E(S("try"), *out)

    def import_entry(self):
        m = S(self.ch(MODS))
        k = self.n(0, 5)
        if k <= 1:
            return [m]
        if k == 2:
            return [m, K("as"), self.name()]
        if k == 3:
            return [m, S("*")]
        items = []
        for _ in range(self.n(0, 3)):
            items.append(self.name())
            if self.p(0.4):
                items += [K("as"), self.name()]
        return [m, L(*items)]

    def require_entry(self):
        m = S(self.ch(REQ_MODS))
        out = [m]
        k = self.n(0, 7)
        alias = lambda: S(self.ch(MACRO_NAMES + ["p"]))
        if k == 0:
            pass
        elif k == 1:
            out += [K("as"), S("p")]
        elif k == 2:
            out += [S("*")]
        elif k in (3, 4):
            items = []
            for _ in range(self.n(0, 2)):
                items += [S(self.ch(REQ_NAMES)), K("as"), alias()]
            lst = L(*items)
            out += ([K("macros")] if k == 4 else []) + [lst]
        elif k == 5:
            out += [K("readers"), L(*[S(self.ch(["r", "nope"])) for _ in range(self.n(0, 2))])]
        elif k == 6:
            out += [K("readers"), S("*")]
        else:
            out += [L(S(self.ch(REQ_NAMES)), K("as"), alias()), K("readers"), L()]
        return out

    # ---------------------------------------------------------------- safe (compile-time evaluated) code
    def quoted_tree(self, d):
        g = self if self.inert else Gen(self.r, self.heads, inert=self._inert_children)
        t = g.form(max(d, 1), TOP)
        g.mutate_tree([t], self.wch([(5, 0), (4, 1), (1, 2)]))
        return t

    _inert_children = False

    def safe(self, d, params=()):
        if d <= 0:
            return self.ch([I(1), Str("s"), S("None")])
        k = self.wch([(4, "lit"), (6, "quote"), (2, "arith"), (1, "err"), (1, "name"), (2, "setv"), (1, "list"), (1, "if"), (1, "do"), (2, "fn"),
                      (3 if params else 0, "param"), (3 if params else 0, "quasi")])
        if k == "lit":
            return self.ch([I(1), Str("s"), S("None"), K("k"), S("True"), ["float", "1.5"], I(0)])
        if k == "quote":
            return PE(S("quote"), self.quoted_tree(d - 1))
        if k == "arith":
            return PE(S(self.ch(["+", "*", "-"])), I(self.n(0, 9)), I(self.n(0, 9)))
        if k == "err":
            return self.ch([PE(S("/"), I(1), I(0)), PE(S("raise"), PE(S("ValueError"), Str("boom"))), PE(S("undefined-fn-zz"), I(1)), PE(S("int"), Str("q"))])
        if k == "name":
            return S(self.ch(["undefined-name-zz", "v", "print", "hy"]))
        if k == "setv":
            return PE(S("setv"), S("v"), self.ch([I(1), Str("s"), PE(S("quote"), self.quoted_tree(d - 1))]))
        if k == "list":
            return Prot(["list", [I(1), Str("s"), PE(S("quote"), self.quoted_tree(d - 1))][: self.n(0, 3)]])
        if k == "if":
            return PE(S("if"), S(self.ch(["True", "False", "None"])), self.safe(d - 1, params), self.safe(d - 1, params))
        if k == "do":
            return PE(S("do"), *[self.safe(d - 1, params) for _ in range(self.n(0, 2))])
        if k == "fn":
            # defined, never called: its body is only compiled
            g = self if self.inert else Gen(self.r, self.heads, inert=self._inert_children)
            body = [g.form(max(d - 1, 1), Cx(False, True, False)) for _ in range(self.n(0, 2))]
            return PE(S("fn"), L(), *body) if self.p(0.5) else PE(S("defn"), S("helper"), L(), *body)
        if k == "param":
            return S(self.ch(params))
        # quasiquote over the macro's own parameters
        x = S(self.ch(params))
        return PE(S("quasiquote"), self.ch([
            E(S("do"), E(S("unquote-splice"), x)),
            E(S("f"), E(S("unquote"), x)),
            E(S("setv"), S("v"), E(S("unquote"), x)),
            L(E(S("unquote"), x), E(S("unquote-splice"), x)),
            E(S("unquote"), x),
            E(S("if"), E(S("unquote"), x), E(S("unquote-splice"), x)),
        ]))

    def safe_body(self, d, lo=0, hi=2, params=()):
        return [self.safe(d, params) for _ in range(self.n(lo, hi))]

    def defmacro(self, d):
        sub = Gen(self.r, self.heads, inert=self.inert)
        sub._inert_children = True  # trees this macro returns must not re-enter user macros
        if self.p(0.08):
            name, body = S(self.ch(["when", "if", "do", "setv", "fn"])), [self.ch([I(1), Str("s"), S("None")])]
            return PE(S("defmacro"), name, L(), *body)
        name = S(self.ch(MACRO_NAMES)) if self.p(0.93) else self.ch([S("None"), I(1), S("a.b"), K("m")])
        params, names = [], []
        for _ in range(self.n(0, 2)):
            n = self.ch(["x", "y", "z"])
            names.append(n)
            params.append(S(n) if self.p(0.8) else L(S(n), self.ch([I(1), S("None"), Str("d")])))
        if self.p(0.1):
            params.insert(self.n(0, len(params)), S("/"))
        if self.p(0.3):
            names.append("rest")
            params.append(E(S("unpack-iterable"), S("rest")))
        if self.p(0.05):
            params.append(self.ch([E(S("unpack-mapping"), S("kw")), S("*"), I(1), E(S("annotate"), S("q"), S("int"))]))
        body = ([Str("docstring")] if self.p(0.2) else []) + sub.safe_body(d, 0, 2, tuple(names))
        return PE(S("defmacro"), name, L(*params), *body)

    # ---------------------------------------------------------------- templates
    def special(self, h, d, cx):
        "a form headed by the core macro `h` with arguments of (mostly) the documented shape"
        f = getattr(self, "t_" + TEMPLATE_OF.get(h, ""), None)
        if h in COMPILE_TIME:
            if self.inert:
                return E(S("do"))
            return self.compile_time(h, d)
        if f is None:
            return E(S(h), *self.args(d - 1, cx, 0, 3))  # a macro this table does not know: generic arguments
        r = f(h, d, cx)
        return r

    def compile_time(self, h, d):
        if h in ("eval-and-compile", "eval-when-compile", "do-mac"):
            return PE(S(h), *self.safe_body(d, 0, 2))
        if h == "defmacro":
            return self.defmacro(d)
        if h == "defreader":
            key = self.wch([(8, lambda: S(self.ch(["rd", "r", "foo-bar"]))), (1, I(5)), (1, Str("rd")), (1, S("a.b"))])
            return PE(S("defreader"), *([key] if self.p(0.95) else []), *([Str("doc")] if self.p(0.2) else []), *self.safe_body(d, 0, 2, ("&reader",)))
        if h == "require":
            out = []
            for _ in range(self.n(0, 2)):
                out += self.require_entry()
            if self.p(0.12):
                i = self.n(0, len(out))
                out.insert(i, self.ch([I(1), K("as"), L(), S("*"), K("macros"), K("readers"), S("p"), Str("m")]))
            return PE(S("require"), *out)
        if h == "pragma":
            opts = [[K("hy"), Str("1.0")], [K("hy"), Str("999")], [K("hy"), I(5)], [K("hy"), Str("1.x")], [K("hy"), Str("")], [K("hy"), S("None")], [K("hy"), Str("0.28.0")],
                    [K("warn-on-core-shadow"), S("False")], [K("warn-on-core-shadow"), I(1)], [K("bracketed-templates"), S("True")], [K("zzz"), I(1)], [K("hy")], [S("hy"), Str("1")],
                    [K("hy"), S("undefined-name-zz")], [K("warn-on-core-shadow"), PE(S("/"), I(1), I(0))]]
            out = []
            for _ in range(self.n(0, 2)):
                out += self.ch(opts)
            return PE(S("pragma"), *out)
        raise AssertionError(h)

    def t_body(self, h, d, cx):  # do, and, or, + * | ...: any number of forms
        return E(S(h), *self.forms(d - 1, cx, 0, 3))

    def t_one(self, h, d, cx):  # not bnot await unpack-iterable unquote ...
        return E(S(h), self.form(d - 1, cx))

    def t_oneplus(self, h, d, cx):
        return E(S(h), *self.forms(d - 1, cx, 1, 3))

    def t_twoplus(self, h, d, cx):
        return E(S(h), *self.forms(d - 1, cx, 2, 3))

    def t_two(self, h, d, cx):
        return E(S(h), *self.forms(d - 1, cx, 2, 2))

    def t_none(self, h, d, cx):
        return E(S(h))

    def t_py(self, h, d, cx):
        return E(S(h), Str(self.ch(PY_SNIPPETS)))

    def t_quote(self, h, d, cx):
        t = self.form(d - 1, cx)
        if h == "quasiquote" and self.p(0.6):
            inner = self.form(d - 1, cx)
            t = E(self.var(), E(S(self.ch(["unquote", "unquote-splice"])), inner), *self.forms(d - 2, cx, 0, 1))
        return E(S(h), t)

    def t_chainc(self, h, d, cx):
        out = [self.form(d - 1, cx)]
        for _ in range(self.wch([(1, 0), (5, 1), (3, 2)])):
            out += [S(self.ch(C_OPS)), self.form(d - 1, cx)]
        return E(S(h), *out)

    def t_aug(self, h, d, cx):
        return E(S(h), self.target(d - 1, cx), *self.forms(d - 1, cx, 1, 2))

    def t_setv(self, h, d, cx):
        out = []
        for _ in range(self.wch([(1, 0), (6, 1), (2, 2)])):
            k = self.wch([(8, "plain"), (2, "ann"), (1, "chain")])
            if k == "plain":
                out.append(self.target(d - 1, cx))
            elif k == "ann":
                out.append(E(S("annotate"), self.target(d - 1, cx), self.ann(d - 1, cx)))
            else:
                out += [K("chain"), L(*[self.target(d - 1, cx) for _ in range(self.n(0, 3))])]
            out.append(self.form(d - 1, cx))
        return E(S(h), *out)

    def t_setx(self, h, d, cx):
        return E(S(h), self.name(), self.form(d - 1, cx))

    def t_let(self, h, d, cx):
        b = []
        for _ in range(self.n(0, 2)):
            b += [self.annotated(self.target(d - 1, cx), d, cx, 0.1), self.form(d - 1, cx)]
        return E(S(h), L(*b), *self.body(d, cx))

    def t_annotate(self, h, d, cx):
        return E(S(h), self.target(d - 1, cx), self.ann(d - 1, cx))

    def t_deftype(self, h, d, cx):
        return E(S(h), *(self.type_params(d, cx) if self.p(0.3) else []), self.name(), self.ann(d - 1, cx))

    def t_names(self, h, d, cx):  # global nonlocal
        return E(S(h), *self.many(self.name, 0, 3))

    def t_del(self, h, d, cx):
        return E(S(h), *[self.target(d - 1, cx) for _ in range(self.n(0, 2))])

    def t_get(self, h, d, cx):
        return E(S(h), self.form(d - 1, cx), *self.forms(d - 1, cx, 1, 2))

    def t_dot(self, h, d, cx):
        out = [self.form(d - 1, cx)]
        for _ in range(self.n(0, 3)):
            k = self.n(0, 3)
            if k <= 1:
                out.append(self.name())
            elif k == 2:
                out.append(L(self.form(d - 1, cx)))
            else:
                out.append(E(self.name(), *self.args(d - 1, cx, 0, 2)))
        return E(S(h), *out)

    def t_cut(self, h, d, cx):
        return E(S(h), *self.forms(d - 1, cx, 1, 4))

    def t_if(self, h, d, cx):
        alt = self.form(d - 1, cx)
        if self.p(0.1):
            alt = E(S("if*"), *self.forms(d - 2, cx, 3, 3))
        return E(S(h), self.form(d - 1, cx), self.form(d - 1, cx), alt)

    def t_when(self, h, d, cx):
        return E(S(h), self.form(d - 1, cx), *self.body(d, cx))

    def t_cond(self, h, d, cx):
        out = []
        for _ in range(self.n(0, 2)):
            out += [self.form(d - 1, cx), self.form(d - 1, cx)]
        if self.p(0.1):
            out.append(self.form(d - 1, cx))
        return E(S(h), *out)

    def t_for(self, h, d, cx):
        inner = cx._replace(loop=True)
        out = [L(*self.loopers(d, cx, True))] + self.body(d, inner)
        if self.p(0.2):
            out.append(self.dolike("else", d, cx))
        return E(S(h), *out)

    def t_comp(self, h, d, cx):
        out = self.loopers(d, cx, True)
        if h == "dfor":
            out += [E(S("unpack-mapping"), self.form(d - 1, cx))] if self.p(0.2) else [self.form(d - 1, cx), self.form(d - 1, cx)]
        else:
            out.append(self.form(d - 1, cx) if self.p(0.9) else E(S("unpack-iterable"), self.form(d - 1, cx)))
        return E(S(h), *out)

    def t_while(self, h, d, cx):
        out = [self.form(d - 1, cx)] + self.body(d, cx._replace(loop=True))
        if self.p(0.2):
            out.append(self.dolike("else", d, cx))
        return E(S(h), *out)

    def t_with(self, h, d, cx):
        if self.p(0.2):
            spec = L(*([K("async")] if self.p(0.2) else []), self.form(d - 1, cx))
        else:
            items = []
            for _ in range(self.n(1, 2)):
                if self.p(0.15):
                    items.append(K("async"))
                items += [self.target(d - 1, cx), self.form(d - 1, cx)]
            spec = L(*items)
        return E(S(h), spec, *self.body(d, cx))

    def t_match(self, h, d, cx):
        out = [self.form(d - 1, cx)]
        for _ in range(self.wch([(1, 0), (5, 1), (3, 2)])):
            out += self.pattern(min(d - 1, 2), cx)
            if self.p(0.2):
                out += [K("if"), self.form(d - 1, cx)]
            out.append(self.form(d - 1, cx))
        return E(S(h), *out)

    def t_raise(self, h, d, cx):
        out = [self.form(d - 1, cx)] if self.p(0.8) else []
        if self.p(0.25):
            out += [K("from"), self.form(d - 1, cx)]
        return E(S(h), *out)

    def t_try(self, h, d, cx):
        return self.try_form(d, cx)

    def t_tryclause(self, h, d, cx):  # except except* else finally as heads of their own: placeholders
        if h in ("except", "except*"):
            return self.catcher(d, cx, h == "except*")
        return self.dolike(h, d, cx)

    def t_fn(self, h, d, cx):
        is_async = self.p(0.15)
        out = [K("async")] if is_async else []
        if self.p(0.12):
            out += self.type_params(d, cx)
        ll = self.lambda_list(d, cx)
        out.append(E(S("annotate"), ll, self.ann(d - 1, cx)) if self.p(0.12) else ll)
        return E(S(h), *out, *self.body(d, Cx(False, True, is_async)))

    def t_defn(self, h, d, cx):
        is_async = self.p(0.15)
        out = [K("async")] if is_async else []
        if self.p(0.2):
            out.append(L(*self.forms(d - 1, cx, 0, 2)))
        if self.p(0.15):
            out += self.type_params(d, cx)
        out.append(self.annotated(self.name(), d, cx, 0.15))
        out.append(self.lambda_list(d, cx))
        if self.p(0.2):
            out.append(Str("doc"))
        return E(S(h), *out, *self.body(d, Cx(False, True, is_async)))

    def t_return(self, h, d, cx):
        return E(S(h), *self.forms(d - 1, cx, 0, 1))

    def t_yield(self, h, d, cx):
        if self.p(0.3):
            return E(S(h), K("from"), self.form(d - 1, cx))
        return E(S(h), *self.forms(d - 1, cx, 0, 1))

    def t_defclass(self, h, d, cx):
        out = []
        if self.p(0.2):
            out.append(L(*self.forms(d - 1, cx, 0, 2)))
        if self.p(0.15):
            out += self.type_params(d, cx)
        out.append(self.name())
        if self.p(0.85):
            out.append(L(*self.args(d - 1, cx, 0, 2)))
            if self.p(0.25):
                out.append(Str("doc"))
            out += self.body(d, Cx(False, False, False))
        return E(S(h), *out)

    def t_import(self, h, d, cx):
        out = [K("lazy")] if self.p(0.08) else []
        for _ in range(self.n(0, 2)):
            out += self.import_entry()
        return E(S(h), *out)

    def t_assert(self, h, d, cx):
        return E(S(h), *self.forms(d - 1, cx, 1, 2))

    def t_getmacro(self, h, d, cx):
        k = self.n(0, 5)
        names = ["when", "if", "nope", "foo-bar", "m1", "hyx_XasteriskX"]
        if k <= 1:
            return E(S(h), S(self.ch(names)))
        if k == 2:
            return E(S(h), K("reader"), S(self.ch(["rd", "nope"])))
        if k == 3:
            return E(S(h), Str(self.ch(names)))
        if k == 4:
            return E(S(h), S("a.b"))
        return E(S(h), *self.forms(d - 1, cx, 0, 3))

    def t_export(self, h, d, cx):
        out = []
        for _ in range(self.n(0, 2)):
            out += [K(self.ch(["objects", "macros", "zzz"])), L(*self.many(self.name, 0, 2))]
        if self.p(0.3):
            out.append(self.form(d - 1, cx))
        return E(S(h), *out)

    # ---------------------------------------------------------------- a case featuring one head
    def featured(self, h, d):
        "top-level forms that put a form headed by `h` into a context where it can be legal"
        cx = TOP
        if h in ("break", "continue"):
            cx = cx._replace(loop=True)
        elif h in ("return", "yield", "nonlocal"):
            cx = cx._replace(fn=True)
        elif h == "await":
            cx = Cx(False, True, True)
        if h in ("except", "except*", "else", "finally") and self.p(0.85):
            node = self.try_form(d, cx, need=h)
            self.focus = node
            return [self.wrap(node, d, cx)]
        node = self.special(h, d, cx)
        self.focus = node
        if h in ("break", "continue"):
            w = E(S("while"), self.var(), node) if self.p(0.5) else E(S("for"), L(self.var(), self.var()), node)
        elif h in ("return", "yield"):
            w = E(S("defn"), S("f"), L(), node)
        elif h == "await":
            w = E(S("defn"), K("async"), S("f"), L(), node)
        elif h == "nonlocal":
            w = E(S("defn"), S("f"), L(), E(S("setv"), S("a"), I(1), S("b"), I(2), S("c"), I(3), S("x"), I(1)), E(S("defn"), S("g"), L(), node, S("a")))
        elif h in ("unquote", "unquote-splice"):
            w = E(S("quasiquote"), E(S("f"), node))
        elif h == "unpack-iterable":
            w = self.ch([E(S("f"), node), L(node), E(S("setv"), L(S("a"), node), S("xs")), node])
        elif h == "unpack-mapping":
            w = self.ch([E(S("f"), node), ["dict", [node]], node])
        else:
            w = self.wrap(node, d, cx)
        out = [w]
        if isinstance(node, Prot) and h in ("defmacro", "require") and self.p(0.7):
            # use what was just defined
            for _ in range(self.n(1, 2)):
                out.append(E(S(self.ch(MACRO_NAMES + ["p.when"])), *self.args(d - 1, TOP, 0, 3)))
        return out

    def wrap(self, node, d, cx):
        k = self.wch([(50, "bare"), (8, "setv"), (8, "arg"), (8, "defn"), (5, "list"), (5, "if"), (5, "do"), (5, "fn"), (3, "fstr"), (3, "with")])
        if k == "bare":
            return node
        if k == "setv":
            return E(S("setv"), self.var(), node)
        if k == "arg":
            return E(self.var(), self.atom(), node)
        if k == "defn":
            return E(S("defn"), S("f"), L(S("a")), node)
        if k == "list":
            return L(self.atom(), node)
        if k == "if":
            return E(S("if"), node, self.atom(), self.atom())
        if k == "do":
            return E(S("do"), node, self.atom())
        if k == "fn":
            return E(S("fn"), L(), node, self.atom())
        if k == "fstr":
            return ["fstr", [Str("v="), ["fcomp", [node], None]]]
        return E(S("with"), L(S("a"), node), self.atom())

    # ---------------------------------------------------------------- sloppiness
    def seq_nodes(self, roots):
        "all sequence nodes the mutator may edit (never inside protected nodes), focus node first"
        out = []

        def walk(n):
            if isinstance(n, Prot) or not isinstance(n, list) or len(n) < 2 or is_zone(n):
                return
            if n[0] in ("expr", "list", "dict", "tuple", "set"):
                out.append(n)
                for c in n[1]:
                    walk(c)
            elif n[0] == "fstr":
                for p in n[1]:
                    if p[0] == "fcomp":
                        walk(p[1][0])

        for r in roots:
            walk(r)
        return out

    def junk(self):
        return self.wch([
            (6, self.atom), (2, lambda: S(self.ch(CONSTS))), (2, lambda: K(self.ch(KWS))), (2, self.lit), (1, E), (1, L), (1, lambda: ["dict", []]),
            (1, lambda: E(S("unpack-mapping"))), (1, lambda: E(S("unpack-iterable"))), (1, lambda: E(S("unpack-mapping"), self.var(), self.var())),
            (1, lambda: E(S("unpack-iterable"), self.var())), (1, lambda: E(S("unpack-mapping"), self.var())), (1, lambda: S(self.ch(ODD))),
        ])

    def mutate_tree(self, roots, k):
        for _ in range(k):
            nodes = self.seq_nodes(roots)
            if not nodes:
                return
            if self.focus is not None and not isinstance(self.focus, Prot) and any(n is self.focus for n in nodes) and self.p(0.6):
                node = self.focus
            else:
                node = self.ch(nodes)
            self.mutate(node)

    def mutate(self, node):
        items = node[1]
        n = len(items)
        ops = ["append", "kind"] + (["drop", "dup", "swap", "atom", "wrap", "trunc", "symconst", "insert"] if n else [])
        op = self.ch(ops)
        i = self.n(0, n - 1) if n else 0
        if op == "drop":
            del items[i]
        elif op == "dup":
            items.insert(i, clone(items[i]))
        elif op == "swap" and n > 1:
            j = self.n(0, n - 1)
            items[i], items[j] = items[j], items[i]
        elif op == "atom":
            items[i] = self.junk()
        elif op == "insert":
            items.insert(i, self.junk())
        elif op == "wrap":
            x = items[i]
            items[i] = self.ch([
                lambda: L(x), lambda: E(x), lambda: ["dict", [x]], lambda: ["tuple", [x]], lambda: E(S("annotate"), x, S("int")),
                lambda: E(S("unpack-iterable"), x), lambda: E(S("unpack-mapping"), x), lambda: ["set", [x]], lambda: L(x, self.atom()),
                lambda: ["fstr", [["fcomp", [x], None]]], lambda: E(S("quote"), x), lambda: E(S("do"), x),
            ])()
        elif op == "trunc":
            del items[i + 1:]
        elif op == "append":
            items.append(self.junk())
        elif op == "kind":
            kinds = [k for k in ("expr", "list", "dict", "tuple", "set") if k != node[0]]
            if node[0] == "expr" or (items and isinstance(items[0], list) and items[0][:1] == ["sym"] and items[0][1] in COMPILE_TIME + tuple(MACRO_NAMES)):
                kinds = [k for k in kinds if k != "expr"]  # never turn data into a call of a compile-time head
            node[0] = self.ch(kinds)
        elif op == "symconst":
            syms = [j for j, x in enumerate(items) if isinstance(x, list) and x[:1] == ["sym"] and not (j == 0 and node[0] == "expr")]
            if syms:
                j = self.ch(syms)
                items[j] = S(self.ch(CONSTS + ["_", "*", "/", "a.b", "None", "True", "__debug__"]))
            else:
                items.append(self.junk())

    # ---------------------------------------------------------------- whole cases
    def case(self, head=None, depth=4):
        self.focus = None
        if head is not None:
            forms = self.featured(head, depth)
        else:
            forms = [self.form(depth, TOP) for _ in range(self.wch([(6, 1), (3, 2), (1, 3)]))]
        k = self.wch([(40, 0), (40, 1), (15, 2), (5, 3)])
        self.mutate_tree(forms, k)
        return dict(forms=plain(forms), via="text" if self.p(0.35) else "models"), k


TEMPLATE_OF = {}
for _names, _t in [
    ("do and or + * |", "body"),
    ("not bnot await unpack-iterable unpack-mapping unquote unquote-splice", "one"),
    ("- / & @ = is < <= > >=", "oneplus"),
    ("!= is-not in not-in ** // << >>", "twoplus"),
    ("% ^", "two"),
    ("break continue local-macros", "none"),
    ("py pys", "py"),
    ("quote quasiquote", "quote"),
    ("chainc", "chainc"),
    ("+= -= *= /= //= %= **= <<= >>= |= ^= &= @=", "aug"),
    ("setv", "setv"), ("setx", "setx"), ("let", "let"), ("annotate", "annotate"), ("deftype", "deftype"),
    ("global nonlocal", "names"), ("del", "del"), ("get", "get"), (".", "dot"), ("cut", "cut"), ("if", "if"), ("when", "when"), ("cond", "cond"),
    ("for", "for"), ("lfor sfor gfor dfor", "comp"), ("while", "while"), ("with", "with"), ("match", "match"), ("raise", "raise"), ("try", "try"),
    ("except except* else finally", "tryclause"), ("fn", "fn"), ("defn", "defn"), ("return", "return"), ("yield", "yield"), ("defclass", "defclass"),
    ("import", "import"), ("assert", "assert"), ("get-macro", "getmacro"), ("export", "export"),
]:
    for _n in _names.split():
        TEMPLATE_OF[_n] = _t


def tree_stats(forms):
    "(depth, set of symbol names in head position, node count)"
    heads = set()
    count = [0]

    def walk(n):
        count[0] += 1
        if not isinstance(n, list) or len(n) < 2:
            return 0
        if n[0] in ("expr", "list", "dict", "tuple", "set"):
            if n[0] == "expr" and n[1] and n[1][0][0] == "sym":
                heads.add(n[1][0][1])
            return 1 + max([walk(c) for c in n[1]] or [0])
        if n[0] == "fstr":
            return 1 + max([walk(p[1][0]) for p in n[1] if p[0] == "fcomp"] or [0])
        return 0

    depth = max(walk(f) for f in forms)
    return depth, heads, count[0]
