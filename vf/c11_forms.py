"""C11 helper: JSON form trees -> Hy text, the expected evaluated leaves, and the run-time observer.

A node is a JSON list ``[kind, opt, children]``.  Every leaf ``["v", 0, []]`` is an evaluated
position by construction of the renderer: the renderer never puts a leaf where Hy's documentation
treats the form as a name, a pattern, a binding target or quoted data.  Leaves are numbered v0, v1,
... in rendering order, so any tree (also a shrunk one) has pairwise distinct leaves.

Each rendered leaf carries a flag ``dyn``: True when Python's own semantics guarantee that the leaf
is evaluated whenever the whole top-level form runs to completion under the permissive dummy
namespace (see ``run``), False when evaluation depends on a value (a branch, a short-circuit, a
loop body, a handler, an uncalled function body, a lazily evaluated annotation).  ``dyn`` False
means "no run-time requirement", never "must not be evaluated".
"""
import ast
import sys
import warnings

PY314 = sys.version_info >= (3, 14)

MATHS = ["+", "-", "*", "/", "//", "%", "**", "@", "<<", ">>", "&", "|", "^"]
COMPARE = ["=", "!=", "<", "<=", ">", ">=", "is", "is-not", "in", "not-in"]
LOGIC = ["and", "or"]
UNARY = ["not", "bnot"]
AUG = ["+=", "-=", "*=", "/=", "//=", "%=", "**=", "@=", "<<=", ">>=", "&=", "|=", "^="]

ITEM_WRAPPERS = ("ui", "um", "kw")
TARGETS = ("tname", "tann", "tattr", "tget")
# a call-like argument list: an unpack form directly in one of these is "a plain call argument"
CALLISH = ("call", "mcall", "dotcall", "bases")
# lists of evaluated elements in which `:key value` is a keyword argument or simply two more elements
# node kinds that are parts of a form, not forms
FRAGMENTS = ("ui", "um", "kw", "decos", "bases", "params", "param", "retann", "tp", "witems", "witem", "exc", "tbody", "else", "finally",
             "flit", "ffield", "unq", "unqs", "tname", "tann", "tattr", "tget")
KW_OK = CALLISH + ("list", "tuple", "set", "dict")


def V():
    return ["v", 0, []]


def dummyval(node):
    """True if, provided the node's evaluation finishes at all, its value is the permissive dummy."""
    k, opt, ch = node
    if k == "v":
        return True
    if k in ("call", "dotcall", "dotidx", "dotattr", "get", "cut"):
        return bool(ch) and dummyval(ch[0])
    if k == "mcall":
        for c in ch:
            if c[0] not in ("kw", "um"):
                return dummyval(c)
        return False
    if k == "op" and opt in MATHS:
        return bool(ch) and all(dummyval(c) for c in ch)
    if k == "setx":
        return bool(ch) and dummyval(ch[0])
    if k == "do":
        return bool(ch) and dummyval(ch[-1])
    return False


def barename(node):
    """True if the node compiles to nothing but the name of one leaf: the leaf itself, or a one-operand
    * & | @ and or around such a node (documented as plain `x`)."""
    while node[0] == "kw" and len(node[2]) == 1:
        node = node[2][0]
    if node[0] == "v":
        return True
    return node[0] == "op" and node[1] in ("*", "&", "|", "@", "and", "or") and len(node[2]) == 1 and barename(node[2][0])


def has_yield(nodes):
    """yield / yield :from in the function scope made of `nodes` (nested fn/defn/defclass not entered)"""
    for n in nodes:
        k, opt, ch = n
        if k in ("yield", "yieldfrom"):
            return True
        if k in ("fn", "defn", "defclass"):
            # parameter defaults / decorators belong to the enclosing scope
            outer = [c for c in ch if c[0] in ("params", "decos", "bases", "retann")]
            if has_yield(outer):
                return True
            continue
        if has_yield(ch):
            return True
    return False


class Render:
    def __init__(self):
        self.leaves = []  # [name, dyn, id of the leaf node]
        self.cnt = {}
        self.abrupt = 0  # raise / misplaced return in an always-evaluated position
        self.sites = []  # (parent kind, "ui1" ...) for every unpack form
        self.kinds = set()
        self.root_raise = False
        self.root = None

    def fresh(self, p):
        n = self.cnt.get(p, 0)
        self.cnt[p] = n + 1
        return p + str(n)

    def seq(self, nodes, d, fn, parent):
        return " ".join(self.r(c, d, fn, parent) for c in nodes)

    def stmts(self, nodes, d, fn, parent):
        """A statement sequence.  Hy deliberately does not emit a bare name whose value is discarded
        (Result.expr_as_stmt: "We drop ast.Names if they are appended to statements, as they can't have
        any side effect"), so a leaf in such a position (also as the sole operand of * & | @ and or, which compile to the
        operand itself) is written as a call of that value."""
        out = ""
        for c in nodes:
            while c[0] == "kw" and len(c[2]) == 1:
                c = c[2][0]
            t = self.r(c, d, fn, parent)
            out += " (%s)" % t if barename(c) else " " + t
        return out

    def target(self, node, d, fn, top=False):
        k, opt, ch = node
        if k == "tann" and len(ch) == 1:
            # Python evaluates the annotation of a name only at module or class level; nested in another form, Hy may
            # legitimately place the statement inside a helper function, so only a top-level form carries a requirement
            return "(annotate %s %s)" % (self.fresh("t"), self.r(ch[0], d and top and not PY314, fn, "tann"))
        if k == "tattr" and len(ch) == 1:
            return "(. %s attr)" % self.r(ch[0], d, fn, "tattr")
        if k == "tget" and len(ch) >= 2:
            return "(get %s)" % self.seq(ch, d, fn, "tget")
        return self.fresh("t")  # anything else in a target position is replaced by a plain name

    def params(self, node, d, fn):
        out = {"o": [], "od": [], "p": [], "pd": [], "r": [], "k": [], "w": []}
        for p in node[2]:
            k, opt, ch = p
            opt = opt if isinstance(opt, str) else ""
            ch = list(ch)
            if "r" in opt:
                if out["r"]:
                    continue
                inner, group = "#* " + self.fresh("a"), "r"
            elif "w" in opt:
                if out["w"]:
                    continue
                inner, group = "#** " + self.fresh("a"), "w"
            else:
                name = self.fresh("a")
                if "d" in opt and ch:
                    inner = "[%s %s]" % (name, self.r(ch.pop(0), d, fn, "default"))
                    group = "k" if "k" in opt else "od" if "o" in opt else "pd"
                else:
                    inner = name
                    group = "k" if "k" in opt else "o" if "o" in opt else "p"
            if "a" in opt and ch:
                inner = "(annotate %s %s)" % (inner, self.r(ch.pop(0), d and not PY314, fn, "annotation"))
            out[group].append(inner)
        # positional-only parameters (opt "o") go before a "/"; once one of them has a default, Python wants every later
        # positional parameter to have one too, so plain parameters without a default then move in front of the "/" as well
        if out["od"]:
            parts = out["o"] + out["p"] + out["od"] + ["/"] + out["pd"] + out["r"][:1]
        else:
            parts = out["o"] + (["/"] if out["o"] else []) + out["p"] + out["pd"] + out["r"][:1]
        if out["k"]:
            if not out["r"]:
                parts.append("*")
            parts += out["k"]
        parts += out["w"][:1]
        return "[" + " ".join(parts) + "]"

    def r(self, node, d, fn, parent=None):
        if node[0] == "kw" and parent not in KW_OK and len(node[2]) == 1:
            node = node[2][0]  # elsewhere `:key value` would shift the value into a different syntactic slot
        return self._r(node, d, fn, parent)

    def _r(self, node, d, fn, parent=None):
        k, opt, ch = node
        self.kinds.add(k)
        R = lambda c, dd=d, f=fn: self.r(c, dd, f, k)
        S = lambda cs, dd=d, f=fn: self.seq(cs, dd, f, k)
        if k == "v":
            name = "v%d" % len(self.leaves)
            self.leaves.append([name, bool(d), id(node)])
            return name
        if k in ("ui", "um"):
            self.sites.append((parent or "top", "%s%d" % (k, min(len(ch), 2))))
            if opt == 1 and len(ch) == 1:
                return ("#* " if k == "ui" else "#** ") + R(ch[0])
            return "(%s%s)" % ("unpack-iterable" if k == "ui" else "unpack-mapping", "".join(" " + R(c) for c in ch))
        if k == "kw":
            return ":%s %s" % (opt, S(ch))
        if k == "call":
            return "(" + S(ch) + ")"
        if k == "mcall":
            return "(.m" + "".join(" " + R(c) for c in ch) + ")"
        if k == "dotcall":
            return "(. %s (m%s))" % (self.r(ch[0], d, fn, "obj"), "".join(" " + R(c) for c in ch[1:]))
        if k == "dotidx":
            return "(. %s [%s])" % (R(ch[0]), S(ch[1:]))
        if k == "dotattr":
            return "(. %s attr)" % S(ch)
        if k == "list":
            return "[" + S(ch) + "]"
        if k == "tuple":
            return "#(" + S(ch) + ")"
        if k == "set":
            return "#{" + S(ch) + "}"
        if k == "dict":
            return "{" + S(ch) + "}"
        if k in ("get", "cut"):
            return "(%s %s)" % (k, S(ch))
        if k == "op":
            if opt in LOGIC:
                return "(%s%s)" % (opt, "".join(" " + R(c, d and i == 0) for i, c in enumerate(ch)))
            if opt in COMPARE:
                # a chain stops at the first false link; only the first link is certain to run
                return "(%s%s)" % (opt, "".join(" " + R(c, d and i < 2) for i, c in enumerate(ch)))
            return "(%s%s)" % (opt, "".join(" " + R(c) for c in ch))
        if k == "chainc":
            ops = list(opt) if isinstance(opt, list) else []
            out = ["chainc", R(ch[0])]
            for i, (o, c) in enumerate(zip(ops, ch[1:])):
                out += [o, R(c, d and i == 0)]
            return "(" + " ".join(out) + ")"
        if k == "fstr":
            return 'f"' + "".join(self.fpart(c, d, fn) for c in ch) + '"'
        if k in ("ffield", "flit"):
            return 'f"' + self.fpart(node, d, fn) + '"'
        if k == "if":
            return "(if%s)" % "".join(" " + R(c, d and i == 0) for i, c in enumerate(ch))
        if k in ("when", "cond"):
            if k == "cond":
                return "(cond%s)" % "".join(" " + R(c, d and i == 0) for i, c in enumerate(ch))
            return "(%s %s%s)" % (k, R(ch[0]), self.stmts(ch[1:], False, fn, k))
        if k == "do":
            return "(do%s)" % self.stmts(ch, d, fn, k)
        if k == "setx":
            return "(setx %s %s)" % (self.fresh("t"), S(ch))
        if k in ("lfor", "sfor", "gfor", "dfor"):
            lazy = k == "gfor"
            it = R(ch[0], d and not lazy)
            inner = d and not lazy and dummyval(ch[0])
            rest = list(ch[1:])
            clause = ""
            if opt == "i" and len(rest) > 1:
                clause = " :if " + R(rest.pop(0), inner)
                inner = False  # the element forms run only for items that pass the condition
            return "(%s %s %s%s %s)" % (k, self.fresh("i"), it, clause, S(rest, inner))
        if k == "quasi":
            parts = []
            for c in ch:
                if c[0] not in ("unq", "unqs"):
                    c = ["unq", 0, [c]]
                parts.append(R(c))
            return "(quasiquote [q %s])" % " ".join(parts)
        if k == "unq":
            return "(unquote %s)" % S(ch)
        if k == "unqs":
            return "(unquote-splice %s)" % S(ch)
        if k == "fn":
            body = [c for c in ch if c[0] != "params"]
            ps = [c for c in ch if c[0] == "params"]
            called = opt == "call"
            bd = bool(d and called and not has_yield(body))
            sub = "call" if called else "plain"
            ptxt = self.params(ps[0], d, fn) if ps else "[]"
            btxt = self.body(body, bd, sub, k, last_return_ok=called)
            txt = "(fn %s%s%s)" % (":async " if opt == "async" else "", ptxt, btxt)
            return "(" + txt + ")" if called else txt
        if k == "return":
            if d:
                self.abrupt += 1
            return "(return%s)" % "".join(" " + R(c) for c in ch)
        if k == "yield":
            return "(yield%s)" % "".join(" " + R(c) for c in ch)
        if k == "yieldfrom":
            return "(yield :from %s)" % S(ch)
        if k == "await":
            return "(await %s)" % S(ch)
        if k == "with":
            items = [c for c in ch if c[0] == "witems"]
            body = [c for c in ch if c[0] != "witems"]
            ws = items[0][2] if items else []
            if len(ws) == 1 and ws[0][1] == "b":
                itxt = S(ws[0][2])
            else:
                itxt = " ".join("%s %s" % ("_" if w[1] != "n" else self.fresh("a"), S(w[2])) for w in ws)
            return "(with [%s]%s)" % (itxt, self.stmts(body, d, fn, k))
        if k == "try":
            body = [c for c in ch if c[0] not in ("exc", "else", "finally")]
            excs = [c for c in ch if c[0] == "exc"]
            els = [c for c in ch if c[0] == "else"][:1]
            fin = [c for c in ch if c[0] == "finally"][:1]
            free = d and not excs  # a handler may swallow an error raised half-way through the body
            out = "(try%s" % self.stmts(body, free, fn, k)
            for e in excs:
                eo, ech = e[1], list(e[2])
                h = ech.pop()[2] if ech and ech[-1][0] == "tbody" else []
                if eo == "one" and ech:
                    head = "[%s %s]" % (self.fresh("e"), self.seq(ech[:1], False, fn, "exc"))
                elif eo == "bare1" and ech:
                    head = "[%s]" % self.seq(ech[:1], False, fn, "exc")
                elif eo == "list":
                    head = "[[%s]]" % self.seq(ech, False, fn, "exc")
                elif eo == "nlist":
                    head = "[%s [%s]]" % (self.fresh("e"), self.seq(ech, False, fn, "exc"))
                else:
                    head = "[]"
                out += " (except %s%s)" % (head, self.stmts(h, False, fn, "handler"))
            for e in els:
                out += " (else%s)" % self.stmts(e[2], free, fn, "else")
            for e in fin:
                out += " (finally%s)" % self.stmts(e[2], d, fn, "finally")
            return out + ")"
        if k == "tbody":
            return "(do%s)" % self.stmts(ch, d, fn, k)
        if k == "setv":
            out = []
            for i in range(0, len(ch) - 1, 2):
                out.append(self.target(ch[i], d, fn, node is self.root))
                out.append(R(ch[i + 1]))
            return "(setv%s)" % "".join(" " + x for x in out)
        if k in TARGETS:
            return "(setv %s None)" % self.target(node, d, fn)
        if k == "aug":
            return "(%s %s%s)" % (opt, self.target(ch[0], d, fn) if ch else self.fresh("t"), "".join(" " + R(c) for c in ch[1:]))
        if k == "del":
            return "(del%s)" % "".join(" " + self.target(c, d, fn) for c in ch)
        if k == "ann":
            return "(annotate %s %s)" % (self.fresh("t"), S(ch, d and node is self.root and not PY314))
        if k == "raise":
            if d:
                self.abrupt += 1
            if len(ch) >= 2:
                return "(raise %s :from %s)" % (R(ch[0]), R(ch[1]))
            return "(raise%s)" % "".join(" " + R(c) for c in ch)
        if k == "assert":
            return "(assert%s)" % "".join(" " + R(c, d and i == 0) for i, c in enumerate(ch))
        if k == "while":
            return "(while %s%s (break))" % (R(ch[0]), self.stmts(ch[1:], False, fn, k))
        if k == "for":
            body = [c for c in ch[1:] if c[0] != "else"]
            els = [c for c in ch[1:] if c[0] == "else"][:1]
            inner = d and dummyval(ch[0])
            out = "(for [%s %s]%s" % (self.fresh("i"), R(ch[0]), self.stmts(body, inner, fn, k))
            for e in els:
                out += " (else%s)" % self.stmts(e[2], d, fn, "else")
            return out + ")"
        if k in ("else", "finally"):
            return "(do%s)" % self.stmts(ch, d, fn, k)
        if k == "defn":
            decos = [c for c in ch if c[0] == "decos"][:1]
            ps = [c for c in ch if c[0] == "params"][:1]
            ra = [c for c in ch if c[0] == "retann"][:1]
            tp = [c for c in ch if c[0] == "tp"][:1]
            body = [c for c in ch if c[0] not in ("decos", "params", "retann", "tp")]
            out = "(defn"
            if opt == "async":
                out += " :async"
            if decos:
                out += " [%s]" % self.seq(decos[0][2], d, fn, "decos")
            if tp:
                out += " :tp [%s]" % " ".join("(annotate %s %s)" % (self.fresh("T"), self.r(c, False, fn, "tp")) for c in tp[0][2])
            name = self.fresh("f")
            if ra and ra[0][2]:
                name = "(annotate %s %s)" % (name, self.seq(ra[0][2][:1], d and not PY314, fn, "retann"))
            out += " " + name + " " + (self.params(ps[0], d, fn) if ps else "[]")
            return out + self.body(body, False, "plain", k) + ")"
        if k == "defclass":
            decos = [c for c in ch if c[0] == "decos"][:1]
            bases = [c for c in ch if c[0] == "bases"][:1]
            tp = [c for c in ch if c[0] == "tp"][:1]
            body = [c for c in ch if c[0] not in ("decos", "bases", "tp")]
            out = "(defclass"
            if decos:
                out += " [%s]" % self.seq(decos[0][2], d, fn, "decos")
            if tp:
                out += " :tp [%s]" % " ".join("(annotate %s %s)" % (self.fresh("T"), self.r(c, False, fn, "tp")) for c in tp[0][2])
            out += " " + self.fresh("C") + " [%s]" % (self.seq(bases[0][2], d, fn, "bases") if bases else "")
            return out + self.stmts(body, d, None, k) + ")"
        if k in ("decos", "bases", "params", "param", "retann", "tp", "witems", "witem", "exc", "flit"):
            return "[%s]" % S([c for c in ch if c[0] != "param"])  # pseudo-node out of place (shrinking only)
        if k == "deftype":
            return "(deftype %s %s)" % (self.fresh("T"), S(ch, False))
        if k == "match":
            c = list(ch) + [None] * 4
            out = "(match %s" % R(c[0])
            if c[1] is not None:
                out += " %s :if %s %s" % (self.fresh("i"), R(c[1]), R(c[2], False) if c[2] is not None else "None")
            if c[3] is not None:
                out += " _ %s" % R(c[3], False)
            return out + ")"
        if k == "let":
            n = opt if isinstance(opt, int) else 0
            binds = " ".join("%s %s" % (self.fresh("l"), R(c)) for c in ch[:n])
            return "(let [%s]%s)" % (binds, self.stmts(ch[n:], d, fn, k))
        raise ValueError("unknown node kind %r" % (k,))

    def body(self, nodes, d, sub, parent, last_return_ok=False):
        out = ""
        for i, c in enumerate(nodes):
            if c[0] == "return" and last_return_ok and i == len(nodes) - 1:
                self.kinds.add("return")
                out += " (return%s)" % "".join(" " + self.r(x, d, sub, "return") for x in c[2])
            else:
                out += self.stmts([c], d, sub, parent)
        return out

    def fpart(self, node, d, fn):
        k, opt, ch = node
        if k == "flit":
            return "".join(c for c in str(opt) if c in "abcxyz<>^0123456789 .-")
        if k != "ffield":
            node = ["ffield", "", [node]]
            k, opt, ch = node
        self.kinds.add("ffield")
        val = self.r(ch[0], d, fn, "ffield") if ch else ""
        out = "{" + (" " if val.startswith("{") else "") + val  # "{{" would be an escaped brace, not a field
        if opt in ("r", "s", "a"):
            out += " !" + opt
        if len(ch) > 1:
            out += " :" + "".join(self.fpart(c, d, fn) for c in ch[1:])
        return out + "}"


def render(tree):
    """-> (hy text, Render)"""
    rd = Render()
    rd.root = tree
    rd.root_raise = tree[0] == "raise"
    text = rd.r(tree, True, None, None)
    return text, rd


# -- run-time observer ---------------------------------------------------------------


def make_dummy():
    class Dummy(BaseException):
        """Accepts every operation Python can apply to a value and answers with itself."""

        def __getattr__(self, name):
            if name.startswith("__") and name.endswith("__"):
                raise AttributeError(name)
            return self

        def __delattr__(self, name):
            pass

        def __call__(self, *a, **kw):
            return self

        def __iter__(self):
            return iter((self,))

        def keys(self):
            return []

        def __getitem__(self, k):
            return self

        def __setitem__(self, k, v):
            pass

        def __delitem__(self, k):
            pass

        def __contains__(self, x):
            return True

        def __enter__(self):
            return self

        def __exit__(self, *a):
            return False

        def __bool__(self):
            return True

        def __hash__(self):
            return 11

        def __format__(self, spec):
            return ""

        def __str__(self):
            return "D"

        __repr__ = __str__

        def __mro_entries__(self, bases):
            return ()

        def __pow__(self, o, m=None):
            return self

        def __rpow__(self, o, m=None):
            return self

        def __ipow__(self, o, m=None):
            return self

    def same(self, *a):
        return self

    for nm in ("add sub mul truediv floordiv mod matmul lshift rshift and or xor").split():
        for pre in ("", "r", "i"):
            setattr(Dummy, "__%s%s__" % (pre, nm), same)
    for nm in ("neg pos invert eq ne lt le gt ge").split():
        setattr(Dummy, "__%s__" % nm, same)
    return Dummy()


def run(code):
    """Execute `code` with every global, class-level and builtin name lookup answered by one dummy.

    -> (looked-up names, exception or None, the dummy)
    """
    import builtins

    dummy = make_dummy()
    log = []

    class NS(dict):
        def __missing__(self, key):
            log.append(key)
            if key == "hy":
                import hy

                return hy
            return dummy

    g, b = NS(), NS()
    b["__build_class__"] = builtins.__build_class__
    b["__import__"] = builtins.__import__
    g["__builtins__"] = b
    g["__name__"] = "c11_case"
    exc = None
    with warnings.catch_warnings():
        warnings.simplefilter("ignore")
        try:
            exec(code, g)
        except BaseException as e:  # noqa: the outcome is classified by the caller, never swallowed
            if isinstance(e, (KeyboardInterrupt, SystemExit, MemoryError)):
                raise
            exc = e
    return log, exc, dummy


def observe(text):
    """Compile `text` with Hy, then with CPython.

    -> ("rejected", class, message) | ("accepted", module ast, code)
    """
    import types

    import hy
    from hy.compiler import hy_compile
    from hy.errors import HyError, HyLanguageError

    mod = types.ModuleType("c11_case")
    with warnings.catch_warnings():
        warnings.simplefilter("ignore")
        try:
            tree = hy_compile(hy.read_many(text), mod, source=text, filename="<c11>")
        except HyLanguageError as e:
            return ("rejected", "hy:" + type(e).__name__, _msg(e))
        except SyntaxError as e:
            return ("rejected", "hy:" + type(e).__name__, _msg(e))
        except HyError as e:
            return ("rejected", "hy-internal:" + type(e).__name__, _msg(e))
        except RecursionError:
            raise
        except Exception as e:  # noqa
            return ("rejected", "other:" + type(e).__name__, _msg(e))
        try:
            code = compile(tree, "<c11>", "exec")
        except SyntaxError as e:
            return ("rejected", "python:SyntaxError", _msg(e))
        except (ValueError, TypeError) as e:
            return ("rejected", "python-other:" + type(e).__name__, _msg(e))
    return ("accepted", tree, code)


def _msg(e):
    lines = [ln.strip() for ln in str(e).strip().splitlines() if ln.strip()]
    return (lines[-1] if lines else "")[:160]


def loaded_names(tree):
    return {n.id for n in ast.walk(tree) if isinstance(n, ast.Name) and isinstance(n.ctx, ast.Load)}


def path_to(tree, ident):
    """child indexes from the root to the node object with id `ident` (None if absent)"""
    if id(tree) == ident:
        return []
    for i, c in enumerate(tree[2]):
        p = path_to(c, ident)
        if p is not None:
            return [i] + p
    return None


def label(node):
    k, opt, ch = node
    if k in ("ui", "um"):
        return "%s%d" % (k, min(len(ch), 2))
    if k == "op":
        cls = "maths" if opt in MATHS else "compare" if opt in COMPARE else "logic" if opt in LOGIC else "unary" if opt in UNARY else "op"
        return cls + ("1" if cls == "compare" and len(ch) == 1 else "")
    if k == "param":
        return "param:" + "".join(sorted(set(str(opt)) & set("darwko")))
    if k == "exc":
        return "exc:" + str(opt)
    return k
