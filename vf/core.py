"""Runner shared by all property checks.

A property module (vf/props/cNN.py) provides

    PROP         "C32"
    RULE         text: how cases are generated and what makes one non-trivial
    ASSUMPTIONS  list of strings
    shard(ctx)   explore; call ctx.case(...) per case and ctx.fail(...) per failure
    check_case(case) -> None | (bucket, detail)      library-free re-execution
    MATCHERS     {name: fn(case, bucket, detail) -> bool}   for known findings
    (optional) NSHARDS, LEVEL, EXHAUSTIVE(tier)->bool, shrink(case, bucket)->case

The runner forks the shards, merges their results, shrinks one representative
per failure bucket, separates known findings from violations, writes the
replay files and the evidence file, and prints the verdict lines.
"""
import hashlib
import importlib
import json
import math
import multiprocessing
import os
import sys
import time
import traceback

ROOT = os.path.dirname(os.path.dirname(os.path.abspath(__file__)))
WORK = os.path.join(ROOT, ".work")
KNOWN_FILE = os.path.join(ROOT, "known_findings.json")


def derive_seed(*parts):
    h = hashlib.sha256("/".join(str(p) for p in parts).encode()).digest()
    return int.from_bytes(h[:8], "big")


class HarnessError(Exception):
    pass


class _BudgetExhausted(BaseException):
    """raised inside a Hypothesis test body when the shard's time budget is used up; ends that ctx.hyp run"""


class Ctx:
    def __init__(self, prop, tier, seed, k, n, budget_s):
        self.prop, self.tier, self.seed, self.k, self.n = prop, tier, seed, k, n
        self.t0 = time.time()
        self.deadline = self.t0 + budget_s
        self.evaluations = 0
        self.nontrivial = set()
        self.bulk_nontrivial = 0
        self.hist = {}
        self.samples = {}  # cls -> [sample, ...]
        self.largest = None
        self.failures = {}  # bucket -> list of (size, case, detail)
        self.timed_out = False
        self.excluded_known = 0
        self.notes = []

    # -- sizing ------------------------------------------------------------
    @property
    def quick(self):
        return self.tier == "quick"

    def total(self, quick, thorough):
        return quick if self.quick else thorough

    def per_shard(self, quick, thorough):
        return max(1, math.ceil(self.total(quick, thorough) / self.n))

    def sub_seed(self, tag=""):
        return derive_seed(self.seed, self.prop, self.k, tag)

    def out_of_time(self):
        if time.time() > self.deadline:
            self.timed_out = True
            return True
        return False

    # -- recording ---------------------------------------------------------
    def case(self, key=None, nontrivial=False, cls=None, sample=None):
        self.evaluations += 1
        if nontrivial and key is not None:
            self.nontrivial.add(hash(key))
        if cls is not None:
            for c in cls if isinstance(cls, (list, tuple, set)) else (cls,):
                self.hist[c] = self.hist.get(c, 0) + 1
                if sample is not None:
                    lst = self.samples.setdefault(c, [])
                    if len(lst) < 2:
                        lst.append(sample)
        elif sample is not None:
            lst = self.samples.setdefault("_", [])
            if len(lst) < 2:
                lst.append(sample)
        if sample is not None and nontrivial:
            ln = len(sample) if hasattr(sample, "__len__") else 0
            if self.largest is None or ln > self.largest[0]:
                self.largest = (ln, sample)

    def bulk(self, evaluations, distinct_nontrivial, cls=None):
        """Enumerated sub-domain: all cases are distinct by construction."""
        self.evaluations += evaluations
        self.bulk_nontrivial += distinct_nontrivial
        if cls:
            self.hist[cls] = self.hist.get(cls, 0) + evaluations

    def count(self, cls, n=1):
        self.hist[cls] = self.hist.get(cls, 0) + n

    def _known_matchers(self):
        """[(finding id, predicate)] of the recorded (status known) findings of this property that have a matcher"""
        if getattr(self, "_km", None) is None:
            self._km = []
            try:
                mod = importlib.import_module("vf.props." + self.prop.lower())
                ms = getattr(mod, "MATCHERS", {})
                for e in load_known(self.prop):
                    if e.get("status") == "known" and e.get("match") in ms:
                        self._km.append((e["id"], ms[e["match"]]))
            except Exception:
                self._km = []
        return self._km

    def fail(self, case, bucket, detail=None):
        # A failure that a recorded finding explains is excluded here, case by case, and counted: judged per bucket it would
        # hide every other failure that happens to fall into the same bucket.
        for fid, pred in self._known_matchers():
            try:
                hit = pred(case, bucket, detail)
            except Exception:
                hit = False
            if hit:
                self.excluded_known += 1
                self.count("excluded:known-finding:" + fid)
                return
        size = len(json.dumps(case, default=str))
        lst = self.failures.setdefault(bucket, [])
        lst.append((size, case, detail))
        lst.sort(key=lambda t: t[0])
        del lst[4:]

    # -- hypothesis driver -------------------------------------------------
    def hyp(self, strategy, fn, max_examples, tag=""):
        """Run fn(case) on max_examples generated cases (generation phase only).

        fn must record failures through ctx.fail and return normally; an
        exception escaping fn is a harness error.
        """
        import hypothesis
        from hypothesis import HealthCheck, Phase, given, settings

        ctx = self

        @hypothesis.seed(self.sub_seed(tag))
        @settings(
            max_examples=max_examples,
            database=None,
            deadline=None,
            derandomize=False,
            report_multiple_bugs=False,
            phases=(Phase.generate,),
            suppress_health_check=[
                HealthCheck.too_slow,
                HealthCheck.data_too_large,
                HealthCheck.large_base_example,
            ],
        )
        @given(strategy)
        def run(case):
            if ctx.out_of_time():
                raise _BudgetExhausted()  # stop generating as well (Hypothesis would otherwise draw all remaining examples)
            fn(case)

        try:
            run()
        except _BudgetExhausted:
            pass

    def result(self):
        return dict(
            k=self.k,
            evaluations=self.evaluations,
            nontrivial=self.nontrivial,
            bulk_nontrivial=self.bulk_nontrivial,
            hist=self.hist,
            samples=self.samples,
            largest=self.largest,
            failures=self.failures,
            timed_out=self.timed_out,
            excluded_known=self.excluded_known,
            notes=self.notes,
            wall=time.time() - self.t0,
        )


def _run_shard(args):
    modname, tier, seed, k, n, budget = args
    try:
        mod = importlib.import_module(modname)
        ctx = Ctx(mod.PROP, tier, seed, k, n, budget)
        mod.shard(ctx)
        return ("ok", ctx.result())
    except BaseException:
        return ("err", "shard %d: %s" % (k, traceback.format_exc()))


# -- generic JSON shrinker ---------------------------------------------------


def _json_size(x):
    return len(json.dumps(x, default=str))


def _paths(x, path=()):
    yield path
    if isinstance(x, list):
        for i, c in enumerate(x):
            yield from _paths(c, path + (i,))
    elif isinstance(x, dict):
        for key, c in x.items():
            yield from _paths(c, path + (key,))


def _get(x, path):
    for p in path:
        x = x[p]
    return x


def _set(x, path, v):
    if not path:
        return v
    import copy

    x = copy.deepcopy(x)
    t = x
    for p in path[:-1]:
        t = t[p]
    t[path[-1]] = v
    return x


def _candidates(x, path):
    sub = _get(x, path)
    if isinstance(sub, list):
        for c in sub:  # replace node by a child
            if isinstance(c, (list, dict)):
                yield _set(x, path, c)
        for i in range(len(sub)):  # delete an element
            yield _set(x, path, sub[:i] + sub[i + 1 :])
        if len(sub) > 3:
            yield _set(x, path, sub[: len(sub) // 2])
    elif isinstance(sub, str) and path and len(sub) > 0:
        if len(sub) > 1:
            yield _set(x, path, sub[: len(sub) // 2])
            yield _set(x, path, sub[len(sub) // 2 :])
            for i in range(min(len(sub), 40)):
                yield _set(x, path, sub[:i] + sub[i + 1 :])
    elif isinstance(sub, bool):
        pass
    elif isinstance(sub, int) and sub not in (0, 1):
        yield _set(x, path, 0)
        yield _set(x, path, 1)
        yield _set(x, path, sub // 2)


def shrink_json(case, pred, budget=400):
    """Greedy structural reduction; pred(case) True iff still the same failure."""
    best = case
    calls = 0
    improved = True
    while improved and calls < budget:
        improved = False
        for path in sorted(_paths(best), key=len):
            try:
                _get(best, path)
            except (KeyError, IndexError, TypeError):
                continue
            for cand in _candidates(best, path):
                if calls >= budget:
                    break
                if _json_size(cand) >= _json_size(best):
                    continue
                calls += 1
                try:
                    ok = pred(cand)
                except Exception:
                    ok = False
                if ok:
                    best = cand
                    improved = True
                    break
            if improved or calls >= budget:
                break
    return best


def shrink_text(text, pred, budget=600):
    """ddmin-like reduction of a string."""
    calls = 0
    n = 2
    while len(text) >= 2 and calls < budget:
        chunk = max(1, len(text) // n)
        reduced = False
        for i in range(0, len(text), chunk):
            cand = text[:i] + text[i + chunk :]
            calls += 1
            try:
                ok = pred(cand)
            except Exception:
                ok = False
            if ok:
                text = cand
                n = max(n - 1, 2)
                reduced = True
                break
            if calls >= budget:
                break
        if not reduced:
            if chunk == 1:
                break
            n = min(n * 2, len(text))
    return text


# -- known findings ------------------------------------------------------------


def load_known(prop):
    if not os.path.exists(KNOWN_FILE):
        return []
    with open(KNOWN_FILE) as f:
        data = json.load(f)
    return [e for e in data.get("findings", []) if e.get("property") == prop]


def load_corpus(prop):
    d = os.path.join(ROOT, "corpus", prop)
    out = []
    if os.path.isdir(d):
        for f in sorted(os.listdir(d)):
            if f.endswith(".json"):
                with open(os.path.join(d, f)) as fh:
                    out.append((f, json.load(fh)))
    return out


def safe_check(mod, case):
    """check_case, with harness exceptions surfaced as such."""
    return mod.check_case(case)


def write_replay(prop, bucket, case, detail):
    d = os.path.join(WORK, "replays", prop)
    os.makedirs(d, exist_ok=True)
    name = hashlib.sha1(bucket.encode()).hexdigest()[:12] + ".json"
    p = os.path.join(d, name)
    with open(p, "w") as f:
        json.dump(
            dict(property=prop, bucket=bucket, case=case, detail=detail),
            f,
            indent=1,
            default=str,
            ensure_ascii=True,
        )
    return p


def pick_samples(merged_samples, hist, largest, limit=6):
    out = []
    classes = sorted(merged_samples, key=lambda c: hist.get(c, 0))
    for c in classes:  # rarest classes first
        for s in merged_samples[c][:1]:
            if s not in out:
                out.append(s)
        if len(out) >= limit - 1:
            break
    if largest is not None and largest[1] not in out:
        out.append(largest[1])
    return [s if isinstance(s, (str, int, float, list, dict)) else repr(s) for s in out[:limit]]


def main(argv):
    if not argv:
        print("usage: check <ID> <quick|thorough> [--replay PATH]", file=sys.stderr)
        return 2
    prop = argv[0].upper()
    tier = os.environ.get("VERIF_TIER", "quick")
    replay = None
    rest = argv[1:]
    i = 0
    while i < len(rest):
        if rest[i] in ("quick", "thorough"):
            tier = rest[i]
        elif rest[i] == "--replay":
            replay = rest[i + 1]
            i += 1
        i += 1
    if tier not in ("quick", "thorough"):
        tier = "quick"
    try:
        seed = int(os.environ.get("VERIF_SEED", "1"))
    except ValueError:
        seed = derive_seed(os.environ.get("VERIF_SEED"))
    modname = "vf.props." + prop.lower()
    try:
        mod = importlib.import_module(modname)
    except Exception:
        traceback.print_exc()
        print("HARNESS-ERROR property=%s cannot import check module" % prop)
        return 2
    try:
        if replay:
            return do_replay(mod, prop, replay)
        return run_check(mod, modname, prop, tier, seed)
    except HarnessError as e:
        print("HARNESS-ERROR property=%s %s" % (prop, e))
        return 2
    except Exception:
        traceback.print_exc()
        print("HARNESS-ERROR property=%s" % prop)
        return 2


def do_replay(mod, prop, path):
    with open(path) as f:
        data = json.load(f)
    case = data["case"] if isinstance(data, dict) and "case" in data else data
    res = safe_check(mod, case)
    if res is None:
        print("replay: property=%s case passes" % prop)
        return 0
    bucket, detail = res
    print("replay: bucket=%s detail=%s" % (bucket, json.dumps(detail, default=str)[:2000]))
    print("VIOLATION property=%s replay=%s" % (prop, path))
    return 1


def run_check(mod, modname, prop, tier, seed):
    t0 = time.time()
    known = load_known(prop)
    matchers = getattr(mod, "MATCHERS", {})
    level = getattr(mod, "LEVEL", "exploration")
    nshards = getattr(mod, "NSHARDS", 16)
    nshards = max(1, min(nshards, os.cpu_count() or 1, int(os.environ.get("VF_SHARDS", "64"))))
    budget = float(os.environ.get("VF_BUDGET_S", "0")) or (
        getattr(mod, "BUDGET_QUICK", 90) if tier == "quick" else getattr(mod, "BUDGET_THOROUGH", 1500)
    )

    failures = {}  # bucket -> (case, detail, origin)
    known_seen = []
    notes = []

    # 1. known exemplars: still failing? (prints KNOWN-FINDING lines)
    for e in known:
        if e.get("status") != "known":
            continue
        try:
            res = safe_check(mod, e["case"])
        except Exception:
            raise HarnessError("known exemplar %s crashed the harness:\n%s" % (e.get("id"), traceback.format_exc()))
        if res is None:
            notes.append("known finding %s no longer reproduces on this tree" % e.get("id"))
            print("NOTE: property=%s known finding %s no longer reproduces" % (prop, e.get("id")))
        else:
            m = matchers.get(e.get("match"))
            if m is not None and m(e["case"], res[0], res[1]):
                known_seen.append(e["id"])
                print("KNOWN-FINDING: property=%s %s" % (prop, e.get("what")))
            else:
                failures.setdefault(res[0], (e["case"], res[1], "known-exemplar-changed"))

    # 2. committed corpus (regression tier)
    corpus = load_corpus(prop)
    corpus_run = 0
    for name, data in corpus:
        case = data["case"] if isinstance(data, dict) and "case" in data else data
        corpus_run += 1
        res = safe_check(mod, case)
        if res is not None:
            failures.setdefault(res[0], (case, res[1], "corpus:" + name))

    # 3. generated search, sharded
    args = [(modname, tier, seed, k, nshards, budget) for k in range(nshards)]
    if nshards == 1:
        results = [_run_shard(args[0])]
    else:
        ctxm = multiprocessing.get_context("fork")
        with ctxm.Pool(nshards) as pool:
            results = pool.map(_run_shard, args, chunksize=1)
    errs = [r[1] for r in results if r[0] == "err"]
    if errs:
        raise HarnessError("\n".join(errs))
    results = [r[1] for r in results]

    evaluations = corpus_run
    nontrivial = set()
    bulk_nt = 0
    hist = {}
    samples = {}
    largest = None
    timed_out = False
    excluded = 0
    for r in results:
        evaluations += r["evaluations"]
        nontrivial |= r["nontrivial"]
        bulk_nt += r["bulk_nontrivial"]
        for c, v in r["hist"].items():
            hist[c] = hist.get(c, 0) + v
        for c, v in r["samples"].items():
            samples.setdefault(c, []).extend(v)
        if r["largest"] and (largest is None or r["largest"][0] > largest[0]):
            largest = r["largest"]
        timed_out = timed_out or r["timed_out"]
        excluded += r["excluded_known"]
        notes.extend(r["notes"])
        for b, lst in r["failures"].items():
            for size, case, detail in lst:
                if b not in failures or _json_size(failures[b][0]) > size:
                    failures[b] = (case, detail, "generated")

    # 4. shrink one representative per bucket, classify known vs. violation
    violations = []
    shrink_budget = 150 if tier == "quick" else 600
    for bucket in sorted(failures):
        case, detail, origin = failures[bucket]

        def same(c, bucket=bucket):
            r = mod.check_case(c)
            return r is not None and r[0] == bucket

        try:
            if hasattr(mod, "shrink"):
                small = mod.shrink(case, same, shrink_budget)
            else:
                small = shrink_json(case, same, shrink_budget)
            r = mod.check_case(small)
            if r is not None and r[0] == bucket:
                case, detail = small, r[1]
        except Exception:
            notes.append("shrinker error in bucket %s: %s" % (bucket, traceback.format_exc(limit=2)))
        matched = None
        for e in known:
            if e.get("status") != "known":
                continue
            m = matchers.get(e.get("match"))
            try:
                if m is not None and m(case, bucket, detail):
                    matched = e
                    break
            except Exception:
                pass
        if matched is not None:
            if matched["id"] not in known_seen:
                known_seen.append(matched["id"])
                print("KNOWN-FINDING: property=%s %s" % (prop, matched.get("what")))
            continue
        path = write_replay(prop, bucket, case, detail)
        violations.append((bucket, path, case, detail, origin))

    wall = time.time() - t0
    distinct_nt = len(nontrivial) + bulk_nt
    exhaustive = bool(getattr(mod, "EXHAUSTIVE", lambda tier: False)(tier))
    coverage = dict(
        evaluations=evaluations,
        distinct_nontrivial=distinct_nt,
        rule=mod.RULE,
        samples=pick_samples(samples, hist, largest) or ["(no sample recorded)"],
        classes=dict(sorted(hist.items(), key=lambda kv: str(kv[0]))),
        corpus_cases=corpus_run,
        shards=nshards,
        excluded_known=excluded,
        inconclusive_time_budget_hit=timed_out,
        known_findings_seen=known_seen,
        exhaustive=exhaustive,
        violation_buckets=[v[0] for v in violations],
    )
    if notes:
        coverage["notes"] = notes[:20]
    if hasattr(mod, "EXTRA"):
        coverage.update(mod.EXTRA(tier))
    ev = dict(
        property_id=prop,
        tier=tier,
        seed=seed,
        level=level,
        coverage=coverage,
        assumptions=list(getattr(mod, "ASSUMPTIONS", [])),
        wall_s=round(wall, 2),
        violations=len(violations),
        tree_hash=os.environ.get("VF_TREE_HASH", ""),
    )
    evdir = os.environ.get("VF_EVIDENCE_DIR") or os.path.join(ROOT, "evidence")  # redirected only for mutation trials
    os.makedirs(evdir, exist_ok=True)
    with open(os.path.join(evdir, prop + ".json"), "w") as f:
        json.dump(ev, f, indent=1, default=str, ensure_ascii=True)
        f.write("\n")

    print(
        "property=%s tier=%s seed=%d evaluations=%d distinct_nontrivial=%d violations=%d known=%d wall=%.1fs%s"
        % (prop, tier, seed, evaluations, distinct_nt, len(violations), len(known_seen), wall,
           " (time budget hit: inconclusive beyond what was explored)" if timed_out else "")
    )
    if distinct_nt < 2 and not violations:
        raise HarnessError("generator produced fewer than 2 distinct non-trivial cases: vacuous run")
    for bucket, path, case, detail, origin in violations:
        print("  bucket: %s [%s]" % (bucket, origin))
        print("  case: %s" % json.dumps(case, default=str)[:1500])
        print("  detail: %s" % json.dumps(detail, default=str)[:1500])
        print("VIOLATION property=%s replay=%s" % (prop, path))
    return 1 if violations else 0
