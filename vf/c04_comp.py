"""C04 helper: clause-list IR for lfor/sfor/dfor/gfor/for, renderer to Hy text, a reference evaluator that follows
docs/api.rst's nested-loop description directly (it never calls Hy), a validity checker for shrunk cases, and the
harness that compiles and runs the rendered text.

IR (JSON).  A comprehension:
  {"kind": "lfor"|"sfor"|"dfor"|"gfor"|"for", "clauses": [clause...], "final": final}
  clause  ["iter", target, expr] | ["if", expr] | ["setv", target, expr] | ["do", [expr...]]
  target  name | ["tuple", [target...]] | ["list", [target...]] | ["star", name]
  final   ["value", e] | ["unpack", e] (#* e) | ["kv", k, v] | ["unpack-map", e] (#** e)      (dfor: kv / unpack-map only)
          ["body", [e...], else|None]   (for;  else = [e...])
Expressions:
  ["lit", v] ["var", n] ["E", id, e] ["list", [e...]] ["tuple", [e...]] ["dict", [[k, v]...]] ["op", name, [e...]]
  ["call", fname, [e...]] ["items", e] ["do", [e...]] ["if", c, a, b] ["when", c, [e...]] ["setx", n, e] ["setv", n, e]
  ["break"] ["continue"] ["comp", comprehension]

(E id e) is a harness function in the module globals: it logs [id, canon(value)] and returns the value.
"""
import copy

KINDS = ("lfor", "sfor", "dfor", "gfor", "for")
CALLS = {"range": range, "len": len, "list": list, "enumerate": enumerate, "zip": zip, "sorted": sorted, "tuple": tuple}
OPS = ("+", "-", "*", "%", "<", "<=", ">", ">=", "=", "!=", "not")
RESERVED = {"RES", "LETAFTER", "MAIN", "K", "E", "DRIVE", "POST"} | set(CALLS)
ABSENT = "<absent>"


# ----------------------------------------------------------------------------- canonical values
def canon(v):
    if v is None or isinstance(v, bool):
        return repr(v)
    if isinstance(v, int):
        return "i%d" % v
    if isinstance(v, str):
        return "s%r" % v
    if isinstance(v, list):
        return "[" + " ".join(canon(x) for x in v) + "]"
    if isinstance(v, tuple):
        return "#(" + " ".join(canon(x) for x in v) + ")"
    if isinstance(v, dict):
        return "{" + "  ".join(canon(a) + " " + canon(b) for a, b in v.items()) + "}"
    if isinstance(v, (set, frozenset)):
        return "#{" + " ".join(sorted(canon(x) for x in v)) + "}"
    if isinstance(v, range):
        return repr(v)
    return "<%s>" % type(v).__name__


# ----------------------------------------------------------------------------- rendering
def lit_text(v):
    if v is None:
        return "None"
    if v is True:
        return "True"
    if v is False:
        return "False"
    if isinstance(v, int):
        return str(v)
    if isinstance(v, str):
        return '"' + v.replace("\\", "\\\\").replace('"', '\\"') + '"'
    raise ValueError("not a scalar literal: %r" % (v,))


def r_target(t):
    if isinstance(t, str):
        return t
    k = t[0]
    if k == "tuple":
        return "#(" + " ".join(r_target(x) for x in t[1]) + ")"
    if k == "list":
        return "[" + " ".join(r_target(x) for x in t[1]) + "]"
    if k == "star":
        return "#* " + t[1]
    raise ValueError("bad target %r" % (t,))


def r_expr(e):
    k = e[0]
    if k == "lit":
        return lit_text(e[1])
    if k == "var":
        return e[1]
    if k == "E":
        return "(E %d %s)" % (e[1], r_expr(e[2]))
    if k == "list":
        return "[" + " ".join(r_expr(x) for x in e[1]) + "]"
    if k == "tuple":
        return "#(" + " ".join(r_expr(x) for x in e[1]) + ")"
    if k == "dict":
        return "{" + "  ".join(r_expr(a) + " " + r_expr(b) for a, b in e[1]) + "}"
    if k == "op":
        if e[1] not in OPS:
            raise ValueError("bad op")
        return "(" + e[1] + "".join(" " + r_expr(x) for x in e[2]) + ")"
    if k == "call":
        if e[1] not in CALLS:
            raise ValueError("bad call")
        return "(" + e[1] + "".join(" " + r_expr(x) for x in e[2]) + ")"
    if k == "items":
        return "(.items " + r_expr(e[1]) + ")"
    if k == "do":
        return "(do" + "".join(" " + r_expr(x) for x in e[1]) + ")"
    if k == "if":
        return "(if " + r_expr(e[1]) + " " + r_expr(e[2]) + " " + r_expr(e[3]) + ")"
    if k == "when":
        return "(when " + r_expr(e[1]) + "".join(" " + r_expr(x) for x in e[2]) + ")"
    if k == "setx":
        return "(setx " + e[1] + " " + r_expr(e[2]) + ")"
    if k == "setv":
        return "(setv " + e[1] + " " + r_expr(e[2]) + ")"
    if k == "break":
        return "(break)"
    if k == "continue":
        return "(continue)"
    if k == "comp":
        return r_comp(e[1])
    raise ValueError("unknown expression %r" % (k,))


def r_clause(c):
    k = c[0]
    if k == "iter":
        return r_target(c[1]) + " " + r_expr(c[2])
    if k == "if":
        return ":if " + r_expr(c[1])
    if k == "setv":
        return ":setv " + r_target(c[1]) + " " + r_expr(c[2])
    if k == "do":
        forms = c[1]
        if len(forms) == 1:
            return ":do " + r_expr(forms[0])
        return ":do (do" + "".join(" " + r_expr(x) for x in forms) + ")"
    raise ValueError("unknown clause %r" % (k,))


def r_comp(comp):
    kind = comp["kind"]
    if kind not in KINDS:
        raise ValueError("bad kind")
    cl = "  ".join(r_clause(c) for c in comp["clauses"])
    f = comp["final"]
    if kind == "for":
        if f[0] != "body":
            raise ValueError("for needs a body")
        s = "(for [" + cl + "]" + "".join(" " + r_expr(x) for x in f[1])
        if f[2] is not None:
            s += " (else" + "".join(" " + r_expr(x) for x in f[2]) + ")"
        return s + ")"
    if f[0] == "value":
        tail = r_expr(f[1])
    elif f[0] == "unpack":
        tail = "#* " + r_expr(f[1])
    elif f[0] == "kv":
        tail = r_expr(f[1]) + " " + r_expr(f[2])
    elif f[0] == "unpack-map":
        tail = "#** " + r_expr(f[1])
    else:
        raise ValueError("bad final")
    if (kind == "dfor") != (f[0] in ("kv", "unpack-map")):
        raise ValueError("final does not fit kind")
    return "(" + kind + ("  " + cl if cl else "") + "  " + tail + ")"


# ----------------------------------------------------------------------------- structure helpers
def slots(comp):
    """Paths (into the comprehension JSON) of the expression slots of the top-level comprehension, in source order."""
    out = []
    for i, c in enumerate(comp["clauses"]):
        if c[0] in ("iter", "setv"):
            out.append(["clauses", i, 2])
        elif c[0] == "if":
            out.append(["clauses", i, 1])
        elif c[0] == "do":
            for j in range(len(c[1])):
                out.append(["clauses", i, 1, j])
    f = comp["final"]
    if f[0] in ("value", "unpack", "unpack-map"):
        out.append(["final", 1])
    elif f[0] == "kv":
        out.append(["final", 1])
        out.append(["final", 2])
    return out


def slot_kind(comp, path):
    if path[0] == "final":
        return "final-" + comp["final"][0] + ("-%d" % path[1] if comp["final"][0] == "kv" else "")
    return comp["clauses"][path[1]][0]


WRAP_ID = 9000


def wrap_at(comp, path):
    """The same comprehension with the subform e at `path` rewritten to (do (E 9000 None) e): a statement in that slot forces
    the generator-function strategy, and the marker effect makes a dropped statement visible."""
    c = copy.deepcopy(comp)
    t = c
    for p in path[:-1]:
        t = t[p]
    t[path[-1]] = ["do", [["E", WRAP_ID, ["lit", None]], t[path[-1]]]]
    return c


def target_names(t, out=None):
    out = [] if out is None else out
    if isinstance(t, str):
        out.append(t)
    elif t[0] == "star":
        out.append(t[1])
    else:
        for x in t[1]:
            target_names(x, out)
    return out


def target_roles(t, role, out):
    if isinstance(t, str):
        out.setdefault(t, role)
    elif t[0] == "star":
        out[t[1]] = "star-var"
    else:
        for x in t[1]:
            target_roles(x, role + "-destructured" if not role.endswith("-destructured") else role, out)


def walk_expr(e):
    """every expression node below (and including) e; descends into nested comprehensions"""
    yield e
    k = e[0]
    if k in ("lit", "var", "break", "continue"):
        return
    if k == "E":
        yield from walk_expr(e[2])
    elif k in ("list", "tuple", "do"):
        for x in e[1]:
            yield from walk_expr(x)
    elif k == "dict":
        for a, b in e[1]:
            yield from walk_expr(a)
            yield from walk_expr(b)
    elif k in ("op", "call"):
        for x in e[2]:
            yield from walk_expr(x)
    elif k == "items":
        yield from walk_expr(e[1])
    elif k == "if":
        for x in e[1:4]:
            yield from walk_expr(x)
    elif k == "when":
        yield from walk_expr(e[1])
        for x in e[2]:
            yield from walk_expr(x)
    elif k in ("setx", "setv"):
        yield from walk_expr(e[2])
    elif k == "comp":
        yield from walk_comp(e[1])
    else:
        raise ValueError("unknown expression %r" % (k,))


def comp_exprs(comp):
    for c in comp["clauses"]:
        if c[0] in ("iter", "setv"):
            yield c[2]
        elif c[0] == "if":
            yield c[1]
        elif c[0] == "do":
            yield from c[1]
        else:
            raise ValueError("unknown clause")
    f = comp["final"]
    if f[0] == "body":
        yield from f[1]
        if f[2] is not None:
            yield from f[2]
    else:
        yield from f[1:]


def walk_comp(comp):
    for e in comp_exprs(comp):
        yield from walk_expr(e)


def comp_bound(comp):
    """names bound by the clauses of this comprehension itself (not of nested ones)"""
    out = set()
    for c in comp["clauses"]:
        if c[0] in ("iter", "setv"):
            out |= set(target_names(c[1]))
    return out


def free_reads(e):
    """names an expression reads that are not bound by a comprehension nested in it"""
    out = set()
    k = e[0]
    if k == "var":
        out.add(e[1])
    elif k == "comp":
        inner = set()
        for x in comp_exprs(e[1]):
            inner |= free_reads(x)
        out |= inner - (comp_bound(e[1]) if e[1]["kind"] != "for" else set())
    else:
        for ch in _kids(e):
            out |= free_reads(ch)
    return out


def _kids(e):
    k = e[0]
    if k in ("lit", "var", "break", "continue"):
        return []
    if k == "E":
        return [e[2]]
    if k in ("list", "tuple", "do"):
        return list(e[1])
    if k == "dict":
        return [x for pair in e[1] for x in pair]
    if k in ("op", "call"):
        return list(e[2])
    if k == "items":
        return [e[1]]
    if k == "if":
        return list(e[1:4])
    if k == "when":
        return [e[1]] + list(e[2])
    if k in ("setx", "setv"):
        return [e[2]]
    raise ValueError("unknown expression %r" % (k,))


def binder_roles(comp, out=None):
    """{name: role} for every iteration / :setv variable of comp and of comprehensions nested in it"""
    out = {} if out is None else out
    pre = "for-" if comp["kind"] == "for" else ""
    for c in comp["clauses"]:
        if c[0] == "iter":
            target_roles(c[1], pre + "iter-var", out)
        elif c[0] == "setv":
            target_roles(c[1], pre + "setv-var", out)
    for e in walk_comp(comp):
        if e[0] == "comp":
            binder_roles(e[1], out)
    return out


def leak_names(comp):
    """names assigned by setx / setv forms inside the comprehension (they belong to the enclosing scope)"""
    out = {}
    for e in walk_comp(comp):
        if e[0] in ("setx", "setv"):
            out.setdefault(e[1], e[0] + "-var")
    return out


def is_stmt(e):
    """does this expression compile to Python statements (so that Hy must use the generator-function strategy)?"""
    for n in walk_expr(e):
        k = n[0]
        if k in ("setv", "break", "continue", "when"):
            return True
        if k == "do" and len(n[1]) != 1:
            return True
        if k == "comp" and not native_eligible(n[1]):
            return True
    return False


def native_eligible(comp):
    """predicted: can Hy emit a real Python comprehension for this (Python < 3.15: no trailing unpack)?"""
    if comp["kind"] == "for" or not comp["clauses"]:
        return False
    if comp["final"][0] in ("unpack", "unpack-map"):
        return False
    if any(c[0] == "do" for c in comp["clauses"]):
        return False
    return not any(is_stmt(e) for e in comp_exprs(comp))


# ----------------------------------------------------------------------------- reference evaluator
class _Break(Exception):
    pass


class _Continue(Exception):
    pass


class Invalid(Exception):
    """the case is not one the generator may produce (only shrunk / hand-edited cases get here)"""


class Frame:
    def __init__(self, kind, parent):
        self.kind, self.parent, self.vars = kind, parent, {}


def _unpack(target, value, put):
    """Python's assignment to a (possibly starred, nested) target list"""
    if isinstance(target, str):
        put(target, value)
        return
    if target[0] == "star":
        raise Invalid("star target outside a sequence target")
    parts = target[1]
    vals = list(value)
    stars = [i for i, p in enumerate(parts) if not isinstance(p, str) and p[0] == "star"]
    if len(stars) > 1:
        raise Invalid("two starred targets")
    if not stars:
        if len(vals) != len(parts):
            raise ValueError("unpack length")
        for p, v in zip(parts, vals):
            _unpack(p, v, put)
        return
    s = stars[0]
    after = len(parts) - s - 1
    if len(vals) < len(parts) - 1:
        raise ValueError("unpack length")
    for p, v in zip(parts[:s], vals[:s]):
        _unpack(p, v, put)
    put(parts[s][1], vals[s : len(vals) - after])
    for p, v in zip(parts[s + 1 :], vals[len(vals) - after :]):
        _unpack(p, v, put)


class Ref:
    """Nested-loop semantics of docs/api.rst (lfor, for, gfor, dfor, sfor):
    * iteration clauses nest left to right; `:do F` evaluates F; `:setv L R` = `:do (setv L R)` private to the form;
      `:if C` = `:do (when (not C) (continue))`; break/continue in :do apply to the innermost iteration clause before it
    * `#* X` / `#** X` contribute the elements / items of X
    * iteration and :setv variables of lfor/sfor/dfor/gfor live in the form's own scope; setx/setv in the body assign in
      the enclosing scope (the let binding if a surrounding let binds the name); everything in `for` is the enclosing scope
    * `for`'s else runs after the outermost iteration clause's loop ended without break
    * no clauses at all: nothing is evaluated, the result is empty (tests/native_tests/comprehensions.hy, test-fors-no-loopers)
    """

    def __init__(self):
        self.log = []
        self.par = []  # (start, mid, end): log[start:mid] and log[mid:end] may interleave (dfor key / value)
        self.first_span = None  # log span of the first clause's expression of the top-level comprehension
        self.else_defined = True
        self.steps = 0

    # -- scopes
    def lookup(self, name, fr):
        while fr is not None:
            if name in fr.vars:
                return fr.vars[name]
            fr = fr.parent
        raise Invalid("unbound name %s" % name)

    def assign(self, name, v, fr):
        """setx / setv / `for` variables: the enclosing (non-comprehension) scope, or the let binding of that name"""
        while fr.kind == "comp" or (fr.kind == "let" and name not in fr.vars):
            fr = fr.parent
        fr.vars[name] = v

    # -- expressions
    def ev(self, e, fr):
        self.steps += 1
        if self.steps > 200000:
            raise Invalid("too many evaluation steps")
        k = e[0]
        if k == "lit":
            return e[1]
        if k == "var":
            return self.lookup(e[1], fr)
        if k == "E":
            v = self.ev(e[2], fr)
            self.log.append([e[1], canon(v)])
            return v
        if k == "list":
            return [self.ev(x, fr) for x in e[1]]
        if k == "tuple":
            return tuple(self.ev(x, fr) for x in e[1])
        if k == "dict":
            d = {}
            for a, b in e[1]:
                ka = self.ev(a, fr)
                d[ka] = self.ev(b, fr)
            return d
        if k == "op":
            return self.op(e[1], [self.ev(x, fr) for x in e[2]])
        if k == "call":
            args = [self.ev(x, fr) for x in e[2]]
            return CALLS[e[1]](*args)
        if k == "items":
            return self.ev(e[1], fr).items()
        if k == "do":
            v = None
            for x in e[1]:
                v = self.ev(x, fr)
            return v
        if k == "if":
            return self.ev(e[2] if self.ev(e[1], fr) else e[3], fr)
        if k == "when":
            v = None
            if self.ev(e[1], fr):
                for x in e[2]:
                    v = self.ev(x, fr)
            return v
        if k == "setx":
            v = self.ev(e[2], fr)
            self.assign(e[1], v, fr)
            return v
        if k == "setv":
            self.assign(e[1], self.ev(e[2], fr), fr)
            return None
        if k == "break":
            raise _Break()
        if k == "continue":
            raise _Continue()
        if k == "comp":
            comp = e[1]
            if comp["kind"] == "gfor":
                raise Invalid("a nested gfor must be consumed by (list ...) directly")  # see call/list below
            return self.collect(comp, self.run(comp, fr, top=False))
        raise Invalid("unknown expression %r" % (k,))

    def op(self, name, a):
        import operator as o

        if name == "not":
            return not a[0]
        if name in ("+", "*"):
            f = o.add if name == "+" else o.mul
            v = a[0]
            for x in a[1:]:
                v = f(v, x)
            return v
        if name == "-":
            return -a[0] if len(a) == 1 else a[0] - a[1]
        if name == "%":
            return a[0] % a[1]
        f = {"=": o.eq, "!=": o.ne, "<": o.lt, "<=": o.le, ">": o.gt, ">=": o.ge}[name]
        if len(a) != 2:
            raise Invalid("comparison arity")
        return f(a[0], a[1])

    # -- comprehensions
    def collect(self, comp, gen):
        kind = comp["kind"]
        if kind == "lfor":
            return list(gen)
        if kind == "sfor":
            return set(gen)
        if kind == "dfor":
            d = {}
            for a, b in gen:
                d[a] = b
            return d
        if kind == "for":
            for _ in gen:
                raise Invalid("for yields nothing")
            return None
        raise Invalid("collect gfor")

    def run(self, comp, outer, top=True):
        """generator over the elements (pairs for dfor); for `for` it yields nothing and runs the body"""
        kind, clauses, fin = comp["kind"], comp["clauses"], comp["final"]
        if not clauses:
            return
        is_for = kind == "for"
        fr = outer if is_for else Frame("comp", outer)
        iters = [i for i, c in enumerate(clauses) if c[0] == "iter"]
        first_iter = iters[0] if iters else None
        if is_for and fin[2] is not None and top:
            self.else_defined = False

        def put(name, v):
            if is_for:
                self.assign(name, v, fr)
            else:
                fr.vars[name] = v

        def final():
            t = fin[0]
            if t == "value":
                yield self.ev(fin[1], fr)
            elif t == "unpack":
                yield from self.ev(fin[1], fr)
            elif t == "kv":
                a = len(self.log)
                kk = self.ev(fin[1], fr)
                b = len(self.log)
                vv = self.ev(fin[2], fr)
                c = len(self.log)
                if a < b < c:
                    self.par.append((a, b, c))
                yield (kk, vv)
            elif t == "unpack-map":
                yield from list(self.ev(fin[1], fr).items())
            elif t == "body":
                for x in fin[1]:
                    self.ev(x, fr)
            else:
                raise Invalid("bad final")

        def rec(i):
            if i == len(clauses):
                yield from final()
                return
            c = clauses[i]
            if i == 0 and top and c[0] in ("iter", "setv"):
                a = len(self.log)
                v0 = self.ev(c[2], fr)
                self.first_span = (a, len(self.log))
            if c[0] == "iter":
                it = v0 if (i == 0 and top) else self.ev(c[2], fr)
                broke = False
                if is_for and i == first_iter and top:
                    self.else_defined = True
                for item in it:
                    _unpack(c[1], item, put)
                    try:
                        yield from rec(i + 1)
                    except _Break:
                        broke = True
                        break
                    except _Continue:
                        continue
                if is_for and i == first_iter and fin[2] is not None and not broke:
                    for x in fin[2]:
                        self.ev(x, fr)
            elif c[0] == "setv":
                _unpack(c[1], v0 if (i == 0 and top) else self.ev(c[2], fr), put)
                yield from rec(i + 1)
            elif c[0] == "if":
                if not self.ev(c[1], fr):
                    raise _Continue()
                yield from rec(i + 1)
            elif c[0] == "do":
                for x in c[1]:
                    self.ev(x, fr)
                yield from rec(i + 1)
            else:
                raise Invalid("unknown clause")

        try:
            yield from rec(0)
        except _Continue:
            # an :if before any iteration clause was false: nothing (more) is produced
            return


def reference(comp, outer_vars, let=None):
    """Run the reference.  outer_vars: {name: value} of the enclosing scope before the form; let: (name, value) | None.
    -> dict(result, log, marks, par, first_span, post, let_after, else_defined)"""
    ref = Ref()
    outer = Frame("outer", None)
    outer.vars.update(outer_vars)
    fr = outer
    if let is not None:
        fr = Frame("let", outer)
        fr.vars[let[0]] = let[1]
    marks = None
    try:
        if comp["kind"] == "gfor":
            g = ref.run(comp, fr)
            marks = [len(ref.log)]
            items = []
            for v in g:
                items.append(v)
                marks.append(len(ref.log))
            marks.append(len(ref.log))
            result = items
        else:
            result = ref.collect(comp, ref.run(comp, fr))
    except (_Break, _Continue):
        raise Invalid("break/continue escaped the comprehension")
    except (TypeError, ValueError, KeyError, IndexError, AttributeError, ZeroDivisionError) as e:
        # an ill-typed program: the generator never builds one (then this surfaces as a harness error), a shrunk candidate may
        raise Invalid("the reference evaluator raised %s: %s" % (type(e).__name__, e))
    return dict(
        result=canon(result),
        log=ref.log,
        marks=marks,
        par=ref.par,
        first_span=ref.first_span,
        post={k: canon(v) for k, v in outer.vars.items()},
        let_after=canon(fr.vars[let[0]]) if let is not None else None,
        else_defined=ref.else_defined,
    )


def normalise(real, ref_log, par):
    """Reorder slices of the real log so that a legal interleaving of a dfor key's and value's effects becomes
    key-then-value (their relative order is unspecified; ids are unique per syntactic site, so the two are told apart by id).
    Outer regions first: afterwards the positions of inner regions agree with the reference's."""
    real = list(real)
    for a, b, c in sorted(par, key=lambda t: t[0] - t[2]):
        if c > len(real):
            continue
        kids = {ev[0] for ev in ref_log[a:b]}
        sl = real[a:c]
        real[a:c] = [ev for ev in sl if ev[0] in kids] + [ev for ev in sl if ev[0] not in kids]
    return real


# ----------------------------------------------------------------------------- static validity (shrunk / replayed cases)
_PAR = ("list", "tuple", "dict", "op", "call")


def _impure(e):
    return any(n[0] in ("E", "setx", "setv", "break", "continue") for n in walk_expr(e))


def _reads_writes(e):
    reads, writes = set(), set()
    for n in walk_expr(e):
        if n[0] == "var":
            reads.add(n[1])
        elif n[0] in ("setx", "setv"):
            writes.add(n[1])
    return reads, writes


def _check_target(t, top=True):
    if isinstance(t, str):
        if not t.isidentifier() or t in RESERVED:
            raise Invalid("bad name")
        return
    if not isinstance(t, list) or len(t) != 2:
        raise Invalid("bad target")
    if t[0] == "star":
        if top or not isinstance(t[1], str) or not t[1].isidentifier():
            raise Invalid("bad star target")
        return
    if t[0] not in ("tuple", "list") or not isinstance(t[1], list) or not t[1]:
        raise Invalid("bad target")
    for x in t[1]:
        _check_target(x, False)
    if sum(1 for x in t[1] if not isinstance(x, str) and x[0] == "star") > 1:
        raise Invalid("two stars")
    names = target_names(t)
    if len(names) != len(set(names)):
        raise Invalid("duplicate name in target")


class _Static:
    def __init__(self, free, leak, binders):
        self.free, self.leak, self.binders = free, leak, binders
        self.ids = set()

    def expr(self, e, bound, assigned, jump=False, setx_ok=True, stmt_pos=False):
        """bound: names readable here (comprehension variables + free names); assigned: leak names assigned earlier in
        the same do-body; jump: break/continue legal here (statement position of a :do / for body after an iteration clause)"""
        if not isinstance(e, list) or not e or not isinstance(e[0], str):
            raise Invalid("not an expression")
        k = e[0]
        if k == "lit":
            if len(e) != 2:
                raise Invalid("lit")
            lit_text(e[1])
        elif k == "var":
            if len(e) != 2 or not isinstance(e[1], str):
                raise Invalid("var")
            if e[1] in self.leak:
                if e[1] not in assigned:
                    raise Invalid("reads a body-assigned name that is not definitely assigned")
            elif e[1] not in bound:
                raise Invalid("reads unbound name %s" % e[1])
        elif k == "E":
            if len(e) != 3 or not isinstance(e[1], int) or isinstance(e[1], bool) or e[1] in self.ids or not 0 < e[1] < WRAP_ID:
                raise Invalid("E id")
            self.ids.add(e[1])
            self.expr(e[2], bound, assigned, False, setx_ok)
        elif k in ("list", "tuple", "op", "call", "dict", "items"):
            if k == "items":
                if len(e) != 2:
                    raise Invalid("items")
                kids = [e[1]]
            elif k == "dict":
                if len(e) != 2:
                    raise Invalid("dict")
                kids = [x for pair in e[1] for x in pair]
                if any(len(pair) != 2 for pair in e[1]):
                    raise Invalid("dict pair")
            elif k in ("op", "call"):
                if len(e) != 3 or e[1] not in (OPS if k == "op" else CALLS) or not isinstance(e[2], list):
                    raise Invalid("op/call")
                kids = e[2]
                if k == "op" and (not kids or (e[1] == "not" and len(kids) != 1)):
                    raise Invalid("op arity")
            else:
                if len(e) != 2 or not isinstance(e[1], list):
                    raise Invalid("collection")
                kids = e[1]
            for x in kids:
                self.expr(x, bound, assigned, False, setx_ok)
            # evaluation order among the children is unspecified (docs/semantics.rst): at most one child has effects,
            # and no child writes a name another child reads or writes
            if sum(1 for x in kids if _impure(x)) > 1:
                raise Invalid("two effectful children under an unordered parent")
            rw = [_reads_writes(x) for x in kids]
            for i, (r1, w1) in enumerate(rw):
                for j, (r2, w2) in enumerate(rw):
                    if i != j and w1 & (r2 | w2):
                        raise Invalid("write/read conflict under an unordered parent")
        elif k == "do":
            if len(e) != 2 or not isinstance(e[1], list) or not e[1]:
                raise Invalid("do")
            asg = set(assigned)
            for i, x in enumerate(e[1]):
                last = i == len(e[1]) - 1
                # the value of a non-last form is discarded: statement position; jumps only when the whole do is a statement
                self.expr(x, bound, asg, jump and stmt_pos, setx_ok, stmt_pos or not last)
                if x[0] in ("setv", "setx"):
                    asg.add(x[1])
        elif k == "if":
            if len(e) != 4:
                raise Invalid("if")
            self.expr(e[1], bound, assigned, False, setx_ok)
            self.expr(e[2], bound, assigned, jump and stmt_pos, setx_ok, stmt_pos)
            self.expr(e[3], bound, assigned, jump and stmt_pos, setx_ok, stmt_pos)
        elif k == "when":
            if len(e) != 3 or not isinstance(e[2], list) or not e[2] or not stmt_pos:
                raise Invalid("when (statement position only)")
            self.expr(e[1], bound, assigned, False, setx_ok)
            asg = set(assigned)
            for x in e[2]:
                self.expr(x, bound, asg, jump, setx_ok, True)
                if x[0] in ("setv", "setx"):
                    asg.add(x[1])
        elif k in ("setx", "setv"):
            if len(e) != 3 or not isinstance(e[1], str) or not e[1].isidentifier() or e[1] in RESERVED:
                raise Invalid("assignment name")
            if not setx_ok:
                raise Invalid("assignment inside an iterable")
            if e[1] in self.binders or e[1] in self.free:
                raise Invalid("assigns a name that is an iteration/:setv variable or a free name")
            if k == "setv" and not stmt_pos:
                raise Invalid("setv only as a statement")
            self.expr(e[2], bound, assigned, False, setx_ok)
        elif k in ("break", "continue"):
            if len(e) != 1 or not (jump and stmt_pos):
                raise Invalid("break/continue where the docs do not define it")
        elif k == "comp":
            if len(e) != 2:
                raise Invalid("comp")
            if e[1].get("kind") in ("for", "gfor"):
                raise Invalid("nested for/gfor")
            self.comp(e[1], bound, setx_ok)
        else:
            raise Invalid("unknown expression")

    def comp(self, comp, bound, setx_ok=True):
        if not isinstance(comp, dict) or set(comp) != {"kind", "clauses", "final"} or comp["kind"] not in KINDS:
            raise Invalid("comp shape")
        kind = comp["kind"]
        bound = set(bound)
        seen_iter = False
        if not isinstance(comp["clauses"], list) or len(comp["clauses"]) > 6:
            raise Invalid("clauses")
        # A name the form binds is the form's own throughout (Python: local to the comprehension): reading it before the
        # binding clause ran - e.g. an outer form's variable of the same name - is not defined by the docs
        if kind != "for":
            later = comp_bound(comp)
            for c in comp["clauses"]:
                exprs = [c[2]] if c[0] in ("iter", "setv") else [c[1]] if c[0] == "if" else list(c[1])
                for x in exprs:
                    if free_reads(x) & later:
                        raise Invalid("reads a name before the form binds it")
                if c[0] in ("iter", "setv"):
                    later -= set(target_names(c[1]))
        for c in comp["clauses"]:
            if not isinstance(c, list) or not c:
                raise Invalid("clause")
            if c[0] in ("iter", "setv"):
                if len(c) != 3:
                    raise Invalid("clause arity")
                _check_target(c[1])
                # break/continue/assignment in an iterable: undefined (DESIGN section 5) / forbidden by Python
                self.expr(c[2], bound, set(), False, setx_ok and c[0] == "setv")
                bound |= set(target_names(c[1]))
                seen_iter = seen_iter or c[0] == "iter"
            elif c[0] == "if":
                if len(c) != 2:
                    raise Invalid("clause arity")
                self.expr(c[1], bound, set(), False, setx_ok)
            elif c[0] == "do":
                if len(c) != 2 or not isinstance(c[1], list) or not c[1]:
                    raise Invalid("do clause")
                asg = set()
                for x in c[1]:
                    self.expr(x, bound, asg, seen_iter, setx_ok, True)
                    if x[0] in ("setv", "setx"):
                        asg.add(x[1])
            else:
                raise Invalid("clause kind")
        f = comp["final"]
        if not isinstance(f, list) or not f:
            raise Invalid("final")
        if kind == "for":
            if f[0] != "body" or len(f) != 3 or not isinstance(f[1], list):
                raise Invalid("for final")
            if not comp["clauses"] and (f[2] is not None):
                raise Invalid("else without clauses")
            asg = set()
            for x in f[1]:
                self.expr(x, bound, asg, seen_iter, setx_ok, True)
                if x[0] in ("setv", "setx"):
                    asg.add(x[1])
            if f[2] is not None:
                if not seen_iter or not isinstance(f[2], list) or not f[2]:
                    raise Invalid("else needs an iteration clause")
                asg = set()
                for x in f[2]:
                    self.expr(x, bound - set(binder_roles(comp)), asg, False, setx_ok, True)
                    if x[0] in ("setv", "setx"):
                        asg.add(x[1])
        elif kind == "dfor":
            if f[0] == "kv" and len(f) == 3:
                self.expr(f[1], bound, set(), False, setx_ok)
                self.expr(f[2], bound, set(), False, setx_ok)
                (r1, w1), (r2, w2) = _reads_writes(f[1]), _reads_writes(f[2])
                if w1 & (r2 | w2) or w2 & (r1 | w1):
                    raise Invalid("key/value write conflict")
            elif f[0] == "unpack-map" and len(f) == 2:
                self.expr(f[1], bound, set(), False, setx_ok)
            else:
                raise Invalid("dfor final")
        else:
            if f[0] not in ("value", "unpack") or len(f) != 2:
                raise Invalid("final")
            self.expr(f[1], bound, set(), False, setx_ok)


def validate(case):
    """Raise Invalid unless `case` obeys the generator's discipline (see RULE / ASSUMPTIONS in vf/props/c04.py)."""
    for key in ("comp", "free", "pre"):
        if key not in case:
            raise Invalid("missing " + key)
    comp = case["comp"]
    if not isinstance(comp, dict) or "clauses" not in comp or "final" not in comp:
        raise Invalid("comp shape")
    try:
        r_comp(comp)
        binders = binder_roles(comp)
        leak = leak_names(comp)
    except (ValueError, KeyError, TypeError, IndexError, AttributeError) as e:
        raise Invalid("shape: %s" % e)
    free = case["free"]
    if not isinstance(free, dict):
        raise Invalid("free")
    for n, v in free.items():
        if not n.isidentifier() or n in RESERVED or n in binders or n in leak:
            raise Invalid("free name clash")
        if _impure(v) or any(x[0] in ("var", "comp", "do", "if", "when") for x in walk_expr(v)):
            raise Invalid("free value must be a literal expression")
    if set(binders) & set(leak):
        raise Invalid("assignment to a name that is an iteration/:setv variable of a comprehension (undefined)")
    if not isinstance(case["pre"], list) or not set(case["pre"]) <= set(binders) | set(leak):
        raise Invalid("pre")
    st = _Static(set(free), set(leak), set(binders))
    try:
        st.comp(comp, set(free))
    except (ValueError, KeyError, TypeError, IndexError, AttributeError) as e:
        raise Invalid("shape: %s" % e)
    w = case.get("wrap")
    if w is not None and (not isinstance(w, int) or isinstance(w, bool) or not 0 <= w < max(1, len(slots(comp)))):
        raise Invalid("wrap index")
    let = case.get("let")
    if let is not None:
        if not isinstance(let, dict) or set(let) != {"name", "value", "scope"} or let["scope"] not in ("module", "function", "class"):
            raise Invalid("let")
        if let["name"] not in set(binders) | set(leak) | set(free):
            raise Invalid("let name")
        if _impure(let["value"]) or any(x[0] in ("var", "comp", "do", "if", "when") for x in walk_expr(let["value"])):
            raise Invalid("let value must be a literal expression")
    if case.get("free_local") not in (True, False, None):
        raise Invalid("free_local")


# ----------------------------------------------------------------------------- real execution
class Harness:
    def __init__(self):
        self.log = []
        self.marks = None
        self.is_iterator = None
        self.post = None

    def E(self, i, v=None):
        self.log.append([i, canon(v)])
        return v

    def DRIVE(self, g):
        """consume a gfor result step by step, recording the log length after creation and after every next()"""
        self.marks = [len(self.log)]
        self.is_iterator = hasattr(g, "__next__") and iter(g) is g
        it = iter(g)
        items = []
        while True:
            try:
                v = next(it)
            except StopIteration:
                self.marks.append(len(self.log))
                return items
            items.append(v)
            self.marks.append(len(self.log))
            if len(items) > 100000:
                raise RuntimeError("runaway generator")

    def POST(self, d):
        self.post = dict(d)


def sentinel(name):
    return "S:" + name


def build_source(comp, scope, free, pre, free_local=False, let=None):
    """Hy text evaluating the comprehension in `scope`; RES gets the value, LETAFTER the let-bound name's value afterwards."""
    form = r_comp(comp)
    if comp["kind"] == "gfor":
        form = "(DRIVE " + form + ")"
    if let is not None:
        stmt = "(let [%s %s] (setv RES %s) (setv LETAFTER %s))" % (let["name"], r_expr(let["value"]), form, let["name"])
    else:
        stmt = "(setv RES %s)" % form
    frees = ["(setv %s %s)" % (n, r_expr(v)) for n, v in free.items()]
    pres = ["(setv %s %s)" % (n, lit_text(sentinel(n))) for n in pre]
    if scope == "module":
        return "\n".join(frees + pres + [stmt])
    if scope == "function":
        inner = (frees if free_local else []) + pres + [stmt, "(POST (locals))"]
        return "\n".join(([] if free_local else frees) + ["(defn MAIN []\n  " + "\n  ".join(inner) + ")", "(MAIN)"])
    if scope == "class":
        return "\n".join(frees + ["(defclass K []\n  " + "\n  ".join(pres + [stmt]) + ")"])
    raise ValueError(scope)


def uses_genfn(tree):
    """did Hy emit its hidden generator function (the non-native strategy)?"""
    import ast

    return any(isinstance(n, (ast.FunctionDef, ast.AsyncFunctionDef)) and n.name.startswith("_hy_anon") for n in ast.walk(tree))


def run_real(src, scope, names, name="c04"):
    """-> dict(stage, error?) | dict(result, log, marks, is_iterator, post, let_after, genfn)"""
    import types

    import hy
    from hy.compiler import hy_compile
    from hy.errors import HyLanguageError

    mod = types.ModuleType(name)
    try:
        tree = hy_compile(hy.read_many(src, filename="<%s>" % name), mod, source=src, filename="<%s>" % name)
    except RecursionError:
        raise
    except HyLanguageError as e:
        cause = e.__cause__ or e.__context__
        msg = str(getattr(e, "msg", e))
        return dict(stage="hy-compile", error="%s: %s" % (type(e).__name__, msg.strip().splitlines()[-1][:200] if msg.strip() else ""), cause=type(cause).__name__ if cause else None)
    except Exception as e:  # noqa - an internal compiler crash is an observation, not a harness problem
        return dict(stage="hy-compile", error="%s: %s" % (type(e).__name__, str(e)[:200]), cause=None)
    genfn = uses_genfn(tree)
    try:
        code = compile(tree, "<%s>" % name, "exec")
    except (SyntaxError, ValueError, TypeError) as e:
        return dict(stage="python-compile", error="%s: %s" % (type(e).__name__, str(getattr(e, "msg", e))[:200]), genfn=genfn)
    h = Harness()
    ns = mod.__dict__
    ns.update(E=h.E, DRIVE=h.DRIVE, POST=h.POST)
    try:
        exec(code, ns)
    except Exception as e:  # noqa - the generated programs raise nothing under the reference semantics
        return dict(stage="run", error="%s: %s" % (type(e).__name__, str(e)[:200]), genfn=genfn, log=h.log)
    if scope == "module":
        space = ns
    elif scope == "function":
        if h.post is None:
            raise RuntimeError("harness: POST was not called")
        space = h.post
    else:
        space = dict(ns["K"].__dict__)
    if "RES" not in space:
        return dict(stage="run", error="RES was not assigned in the %s namespace" % scope, genfn=genfn, log=h.log)
    return dict(
        result=canon(space["RES"]),
        log=h.log,
        marks=h.marks,
        is_iterator=h.is_iterator,
        post={n: (canon(space[n]) if n in space else ABSENT) for n in names},
        let_after=canon(space["LETAFTER"]) if "LETAFTER" in space else None,
        genfn=genfn,
    )
