"""C40 helpers: REPL sessions as JSON, a lock-step driver for hy.REPL, and the session builder.

A session is a list of inputs.  An input is
    {"kind": value|none|blank|read|compile|macro|run,
     "sub":  label of the construct (for classification and bucket names),
     "lines": [text, ...]      fed one at a time, accumulated as code.InteractiveConsole.push does;
                               by construction every proper prefix of the lines is incomplete
     "expect": hy.repr text of the input's result      (kind == value)
     "out":    text the input itself prints before its result / before it fails
     "exc":    {"type": name, "msg": text or None}      (run-time failures with a known exception)}
"""
import contextlib
import io
import sys

FAIL_KINDS = ("read", "compile", "macro", "run")
KINDS = ("value", "none", "blank") + FAIL_KINDS
MISSING = "<unbound>"

# -- tokens and layout ---------------------------------------------------------------------

OPENERS = ("(", "[", "{", "#(", "#{")
CLOSERS = (")", "]", "}")
PREFIXES = ("'", "`", "~@", "~")


def tokenize(src):
    """Tokens of one of MY templates (not a Hy reader: only the shapes the templates below use)."""
    toks = []
    i, n = 0, len(src)
    while i < n:
        ch = src[i]
        if ch in " \t":
            i += 1
        elif ch == '"' or (ch == "f" and src[i + 1:i + 2] == '"'):
            j = i + (2 if ch == "f" else 1)
            while src[j] != '"':
                j += 2 if src[j] == "\\" else 1
            toks.append(src[i:j + 1])
            i = j + 1
        elif src.startswith("#[[", i):
            j = src.index("]]", i)
            toks.append(src[i:j + 2])
            i = j + 2
        elif src.startswith("#(", i) or src.startswith("#{", i):
            toks.append(src[i:i + 2])
            i += 2
        elif src.startswith("#_", i):
            toks.append("#_")
            i += 2
        elif ch in "([{)]}":
            toks.append(ch)
            i += 1
        elif src.startswith("~@", i):
            toks.append("~@")
            i += 2
        elif ch in "'`~":
            toks.append(ch)
            i += 1
        else:
            j = i
            while j < n and src[j] not in ' \t()[]{}"':
                j += 1
            toks.append(src[i:j])
            i = j
    return toks


BREAKS = {0: "\n", 1: "\n  ", 2: " ; c)\n", 3: "\n\n ", 4: ' ; "\n\t', 5: "\n"}


def layout(src, choices, last_break_before=None, lead=0, trail=0):
    """Render a template over several lines.  A line break is only ever placed where the text so far is
    incomplete: inside an open ( [ { #( #{, or right after a prefix character.  (Templates may additionally
    contain a newline inside a string token.)  `choices` is consumed one number per eligible gap."""
    toks = tokenize(src)
    out = ["", " ", "  "][lead % 3]
    depth = 0
    k = 0
    for i, t in enumerate(toks):
        out += t
        if t in OPENERS:
            depth += 1
        elif t in CLOSERS:
            depth -= 1
        if i + 1 == len(toks):
            break
        nxt = toks[i + 1]
        tight = t in OPENERS or t in PREFIXES or t == "#_" or nxt in CLOSERS
        eligible = (depth > 0 or t in PREFIXES or t == "#_") and (last_break_before is None or i + 1 <= last_break_before)
        sep = "" if tight else " "
        if eligible and choices:
            c = choices[k % len(choices)]
            k += 1
            if c in BREAKS:
                sep = BREAKS[c]
        out += sep
    out += ["", "", " ", " ; c (", "  ; \"", "\t"][trail % 6]
    return out.split("\n")


# -- the catalogue of inputs ---------------------------------------------------------------


class Env:
    def __init__(self):
        self.vars = {}  # name -> int
        self.fns = []
        self.macros = []
        self.badmacros = []
        self.letfns = []  # (name, value): functions closing over a top-level let variable
        self.n = 0

    def fresh(self, p):
        self.n += 1
        return "%s%d" % (p, self.n)


def _kw(s):
    import hy.models as M

    return M.Keyword(s)


def _value_shapes():
    import hy.models as M

    def var_ref(U, env, c):
        if not env.vars:
            return None
        v = sorted(env.vars)[c % len(env.vars)]
        return "(+ %s (* %d 100))" % (v, U), env.vars[v] + U * 100, "", None

    def fn_call(U, env, c):
        if env.fns:
            f = env.fns[c % len(env.fns)]
            return "(%s %d)" % (f, U), [U, f], "", None
        f = env.fresh("f")
        return '(defn %s [x] [x "%s"]) (%s %d)' % (f, f, f, U), [U, f], "", ("fn", f)

    def macro_call(U, env, c):
        if env.macros:
            m = env.macros[c % len(env.macros)]
            return "(%s %d)" % (m, U), [U, m, U], "", None
        m = env.fresh("m")
        return '(defmacro %s [x] `[~x "%s" ~x]) (%s %d)' % (m, m, m, U), [U, m, U], "", ("macro", m)

    def do_setv(U, env, c):
        v = env.fresh("v")
        return "(do (setv %s %d) #(%s %d))" % (v, c, v, U), (c, U), "", ("var", v, c)

    def let_closure_call(U, env, c):
        # a function defined by an earlier input inside a top-level let still sees that let's variable, however many
        # inputs (each with lets of its own, binding the same name) came in between
        if env.letfns:
            f, v = env.letfns[c % len(env.letfns)]
            return "[(%s) %d]" % (f, U), [v, U], "", None
        f = env.fresh("lf")
        return "(let [x %d] (defn %s [] x)) [(%s) %d]" % (c, f, f, U), [c, U], "", ("letfn", f, c)

    def multi_setv(U, env, c):
        v = env.fresh("v")
        return "(setv %s %d) [%s %d]" % (v, c, v, U), [c, U], "", ("var", v, c)

    S = [
        ("int-literal", lambda U, env, c: ("%d" % (U * 100 + 1), U * 100 + 1, "", None)),
        ("call", lambda U, env, c: ("(+ %d 2)" % (U * 100), U * 100 + 2, "", None)),
        ("nested-call", lambda U, env, c: ("(- (* %d 100) 3)" % U, U * 100 - 3, "", None)),
        ("string", lambda U, env, c: ('"s%d"' % U, "s%d" % U, "", None)),
        ("string-call", lambda U, env, c: ('(+ "a(" "%d")' % U, "a(%d" % U, "", None)),
        ("method-call", lambda U, env, c: ('(.upper "s%dx")' % U, "S%dX" % U, "", None)),
        ("multiline-string", lambda U, env, c: ('"m%d\nx (y"' % U, "m%d\nx (y" % U, "", None)),
        ("multiline-string-in-call", lambda U, env, c: ('(+ "m%d)\n; x" "]")' % U, "m%d)\n; x]" % U, "", None)),
        ("bracket-string", lambda U, env, c: ('#[[b%d\n]z"]]' % U, 'b%d\n]z"' % U, "", None)),
        ("list", lambda U, env, c: ('[%d "x ;" [1 2]]' % U, [U, "x ;", [1, 2]], "", None)),
        ("dict", lambda U, env, c: ('{"k" %d}' % U, {"k": U}, "", None)),
        ("tuple", lambda U, env, c: ("#(%d :a)" % U, (U, _kw("a")), "", None)),
        ("set", lambda U, env, c: ("#{%d}" % U, {U}, "", None)),
        ("keyword", lambda U, env, c: (":k%d" % U, _kw("k%d" % U), "", None)),
        ("quoted-symbol", lambda U, env, c: ("'q%d" % U, M.Symbol("q%d" % U), "", None)),
        ("quoted-expression", lambda U, env, c: ("'(a %d [b])" % U, M.Expression([M.Symbol("a"), M.Integer(U), M.List([M.Symbol("b")])]), "", None)),
        ("float", lambda U, env, c: ("%d.5" % U, U + 0.5, "", None)),
        ("do-setv", do_setv),
        ("multi-form-setv-then-value", multi_setv),
        ("multi-form-print-then-value", lambda U, env, c: ('(print "p%d") (+ %d 0.25)' % (U, U), U + 0.25, "p%d\n" % U, None)),
        ("multi-form-two-values", lambda U, env, c: ('%d "t%d"' % (U, U), "t%d" % U, "", None)),
        ("caught-exception", lambda U, env, c: ('(try (raise (ValueError "c%d")) (except [e ValueError] (+ "caught " (str e))))' % U, "caught c%d" % U, "", None)),
        ("variable", var_ref),
        ("function-call", fn_call),
        ("macro-call", macro_call),
        ("let-closure-call", let_closure_call),
        ("let-closure-call-again", let_closure_call),
        ("if", lambda U, env, c: ('(if (> %d 0) "y%d" "n")' % (U, U), "y%d" % U, "", None)),
        ("lfor", lambda U, env, c: ("(lfor x [1 2] (+ x %d))" % U, [U + 1, U + 2], "", None)),
        ("fn-call", lambda U, env, c: ('((fn [x] #(x %d)) "z")' % U, ("z", U), "", None)),
        ("let", lambda U, env, c: ("(let [y %d] [y y])" % U, [U, U], "", None)),
        ("f-string", lambda U, env, c: ('f"v={(+ %d 1)}"' % U, "v=%d" % (U + 1), "", None)),
        # line breaks inside an f-string replacement field: after the field's form, after a conversion, right after the brace
        ("f-string-field-broken-before-close", lambda U, env, c: ('f"v={(+ %d 1)\n}"' % U, "v=%d" % (U + 1), "", None)),
        ("f-string-field-broken-after-conversion", lambda U, env, c: ('f"v={(+ %d 1) !r\n}w"' % U, "v=%dw" % (U + 1), "", None)),
        ("f-string-field-broken-after-open", lambda U, env, c: ('f"{\n(+ %d 1)}"' % U, "%d" % (U + 1), "", None)),
        ("print-in-value", lambda U, env, c: ('[(print "p%d") %d]' % (U, U), [None, U], "p%d\n" % U, None)),
    ]
    return S


def _none_shapes():
    def setv(U, env, c):
        v = env.fresh("v") if (c % 3 or not env.vars) else sorted(env.vars)[0]
        return "(setv %s %d)" % (v, c), "", ("var", v, c)

    def defn(U, env, c):
        f = env.fresh("f")
        return '(defn %s [x] [x "%s"])' % (f, f), "", ("fn", f)

    def defmacro(U, env, c):
        m = env.fresh("m")
        return '(defmacro %s [x] `[~x "%s" ~x]) None' % (m, m), "", ("macro", m)

    def badmacro(U, env, c):
        m = env.fresh("bm")
        return '(defmacro %s [] (raise (ValueError "u%s"))) None' % (m, m), "", ("badmacro", m)

    def let_closure(U, env, c):
        f = env.fresh("lf")
        return "(let [x %d] (defn %s [] x))" % (c + 1000, f), "", ("letfn", f, c + 1000)

    def value_then_setv(U, env, c):
        v = env.fresh("v")
        return "%d (setv %s %d)" % (U, v, c), "", ("var", v, c)

    return [
        ("setv", setv),
        ("None", lambda U, env, c: ("None", "", None)),
        ("print", lambda U, env, c: ('(print "p%d")' % U, "p%d\n" % U, None)),
        ("when-false", lambda U, env, c: ("(when False %d)" % U, "", None)),
        ("defn", defn),
        ("let-closure", let_closure),
        ("let-closure-again", let_closure),
        ("defmacro", defmacro),
        ("defmacro-that-raises", badmacro),
        ("import", lambda U, env, c: ("(import math)", "", None)),
        ("multi-form-value-then-setv", value_then_setv),
        ("for", lambda U, env, c: ("(for [i [1 2]] [i %d])" % U, "", None)),
        ("empty-do", lambda U, env, c: ("(do)", "", None)),
    ]


def _blank_shapes():
    return [
        ("empty-line", lambda U, env, c: ("", None)),
        ("spaces", lambda U, env, c: ("  ", None)),
        ("comment", lambda U, env, c: ("; c ( \" %d" % U, None)),
        ("discarded-form", lambda U, env, c: ("#_ (a %d)" % U, None)),
    ]


def _read_shapes():
    # (label, template, index of the offending token or None = last token).  Line breaks are only placed
    # before the offending token, so that every earlier line is incomplete and not yet erroneous.
    return [
        ("extra-closer", lambda U, env, c: ("(foo %d))" % U, None)),
        ("mismatched-closer-paren", lambda U, env, c: ('[%d "x")' % U, None)),
        ("mismatched-closer-bracket", lambda U, env, c: ("(a %d]" % U, None)),
        ("mismatched-closer-in-dict", lambda U, env, c: ('{"k" %d)' % U, None)),
        ("closer-alone", lambda U, env, c: ("%d }" % U, None)),
        ("bad-escape", lambda U, env, c: ('"\\xZ%d"' % U, None)),
        ("undefined-reader-macro", lambda U, env, c: ("#nosuch%d 1" % U, 0)),
        ("bad-number-like-token", lambda U, env, c: ("(a %d.2.3)" % U, 2)),
        ("nested-mismatch", lambda U, env, c: ("(a [%d (b)) c)" % U, 7)),
    ]


def _compile_shapes():
    return [
        ("setv-odd", lambda U, env, c: ("(setv x%d)" % U, "")),
        ("fn-no-args", lambda U, env, c: ("(fn)", "")),
        ("if-no-args", lambda U, env, c: ("(if)", "")),
        ("defn-no-args", lambda U, env, c: ("(defn)", "")),
        ("let-odd", lambda U, env, c: ("(let [x%d])" % U, "")),
        ("for-bad", lambda U, env, c: ("(for [x] %d)" % U, "")),
        ("break-outside-loop", lambda U, env, c: ("(break)", "")),
        ("return-outside-function", lambda U, env, c: ("(return %d)" % U, "")),
        ("require-missing-module", lambda U, env, c: ("(require nosuch%d)" % U, "")),
        ("multi-form-setv-then-bad", lambda U, env, c: ("(setv w%d 1) (setv y)" % U, "")),
        ("multi-form-print-then-bad", lambda U, env, c: ('(print "p%d") (fn)' % U, "")),  # nothing runs: the whole input is compiled first
        ("nested-bad", lambda U, env, c: ("[%d (do (if))]" % U, "")),
    ]


def _macro_shapes():
    def existing(U, env, c):
        if env.badmacros:
            return "(%s)" % env.badmacros[c % len(env.badmacros)], ""
        return '(defmacro bm%d [] (raise (ValueError "u%d"))) (bm%d)' % (U, U, U), ""

    return [
        ("call-raising-macro", existing),
        ("define-and-call-raising-macro", lambda U, env, c: ('(defmacro bm%d [] (raise (ValueError "u%d"))) (bm%d)' % (U, U, U), "")),
        ("raising-macro-nested", lambda U, env, c: ("(defmacro bz%d [] (/ 1 0)) [%d (bz%d)]" % (U, U, U), "")),
    ]


def _run_shapes():
    def partial(U, env, c):
        v = env.fresh("v")
        return '(do (setv %s %d) (raise (KeyError "u%d")))' % (v, c, U), "", dict(type="KeyError", msg="'u%d'" % U), ("var", v, c)

    def partial_multi(U, env, c):
        v = env.fresh("v")
        return "(setv %s %d) (undef%d)" % (v, c, U), "", dict(type="NameError", msg=None), ("var", v, c)

    def bad_call(U, env, c):
        if env.fns:
            return "(%s)" % env.fns[c % len(env.fns)], "", dict(type="TypeError", msg=None), None
        return "(len %d)" % U, "", dict(type="TypeError", msg=None), None

    return [
        ("raise", lambda U, env, c: ('(raise (ValueError "u%d"))' % U, "", dict(type="ValueError", msg="u%d" % U), None)),
        ("zero-division", lambda U, env, c: ("(/ %d 0)" % U, "", dict(type="ZeroDivisionError", msg=None), None)),
        ("undefined-name", lambda U, env, c: ("undef%d" % U, "", dict(type="NameError", msg=None), None)),
        ("setv-then-raise", partial),
        ("multi-form-print-then-raise", lambda U, env, c: ('(print "p%d") (raise (OSError "u%d"))' % (U, U), "p%d\n" % U, dict(type="OSError", msg="u%d" % U), None)),
        ("multi-form-value-then-raise", lambda U, env, c: ('%d (raise (RuntimeError "u%d"))' % (U, U), "", dict(type="RuntimeError", msg="u%d" % U), None)),
        ("int-of-text", lambda U, env, c: ('(int "z%d")' % U, "", dict(type="ValueError", msg=None), None)),
        ("assert", lambda U, env, c: ('(assert False "a%d")' % U, "", dict(type="AssertionError", msg="a%d" % U), None)),
        ("index-error", lambda U, env, c: ("(get [1] %d)" % U, "", dict(type="IndexError", msg=None), None)),
        ("multi-form-setv-then-undefined", partial_multi),
        ("bad-call", bad_call),
        ("user-exception-class", lambda U, env, c: ('(defclass E%d [Exception]) (raise (E%d "u%d"))' % (U, U, U), "", dict(type="E%d" % U, msg="u%d" % U), None)),
        ("raise-in-nested", lambda U, env, c: ('[%d (if True (raise (LookupError "u%d")) 1)]' % (U, U), "", dict(type="LookupError", msg="u%d" % U), None)),
    ]


_SHAPES = None


def shapes():
    global _SHAPES
    if _SHAPES is None:
        _SHAPES = dict(value=_value_shapes(), none=_none_shapes(), blank=_blank_shapes(), read=_read_shapes(),
                       compile=_compile_shapes(), macro=_macro_shapes(), run=_run_shapes())
    return _SHAPES


def _apply(env, eff):
    if eff is None:
        return
    if eff[0] == "var":
        env.vars[eff[1]] = eff[2]
    elif eff[0] == "fn":
        env.fns.append(eff[1])
    elif eff[0] == "macro":
        env.macros.append(eff[1])
    elif eff[0] == "badmacro":
        env.badmacros.append(eff[1])
    elif eff[0] == "letfn":
        env.letfns.append((eff[1], eff[2]))


def build_session(steps):
    """steps: [[kind, shape, choices, lead, trail], ...] (all plain ints / lists, drawn by Hypothesis or enumerated)
    -> list of concrete inputs.  Deterministic."""
    import hy

    SH = shapes()
    env = Env()
    inputs = []
    seen = set()
    for idx, (kind, shape, choices, lead, trail) in enumerate(steps):
        U = 101 + idx
        c = 10 + (shape * 7 + idx) % 30
        table = SH[kind]
        label, fn = table[shape % len(table)]
        inp = dict(kind=kind)
        lbb = None
        eff = None
        known = set(env.vars) | set(env.fns) | set(env.macros) | set(env.badmacros) | {f for f, _ in env.letfns}
        if kind == "value":
            r = fn(U, env, c)
            if r is None:  # needs a variable and none exists yet
                label, fn = table[0]
                r = fn(U, env, c)
            src, val, out, eff = r
            inp["expect"] = hy.repr(val)
            if inp["expect"] in seen:
                raise AssertionError("C40 builder: results are not distinct: %r" % inp["expect"])
            seen.add(inp["expect"])
            if out:
                inp["out"] = out
            _apply(env, eff)
        elif kind == "none":
            src, out, eff = fn(U, env, c)
            if out:
                inp["out"] = out
            _apply(env, eff)
        elif kind == "blank":
            src, _ = fn(U, env, c)
        elif kind == "read":
            src, bad = fn(U, env, c)
            lbb = bad if bad is not None else len(tokenize(src)) - 1
        elif kind in ("compile", "macro"):
            src, out = fn(U, env, c)
        elif kind == "run":
            src, out, exc, eff = fn(U, env, c)
            if out:
                inp["out"] = out
            inp["exc"] = exc
            _apply(env, eff)
        else:
            raise ValueError(kind)
        inp["sub"] = label
        # which earlier definitions this input needs / what it defines: lets the shrinker drop inputs without
        # turning a later input into an accidental NameError
        plain_text = kind == "blank" and label != "discarded-form"  # comment text is not made of template tokens
        uses = [] if plain_text else sorted(known & set(tokenize(src)))
        if uses:
            inp["uses"] = uses
        if eff is not None and kind != "compile":
            inp["defs"] = [eff[1]]
        if plain_text:
            inp["lines"] = [src]
        else:
            inp["lines"] = layout(src, choices, lbb, lead, trail)
        inputs.append(inp)
    return inputs


# -- driving hy.REPL ---------------------------------------------------------------------

_COUNTER = [0]


def safe_repr(o):
    import hy

    try:
        return hy.repr(o)
    except Exception as e:  # a harness-side rendering problem must not hide the observation
        return "<hy.repr raised %s; repr=%.80r>" % (type(e).__name__, o)


def _show(o):
    if o is MISSING:
        return MISSING
    return safe_repr(o)[:160]


_REPORTED = []


def _brief_excepthook(t, v, tb):
    import traceback

    _REPORTED.append(v)
    sys.stderr.write("".join(traceback.format_exception_only(t, v)))


def run_session(inputs, distinct=True, repl_kwargs=None):
    """Feed the inputs line by line to a fresh hy.REPL; -> None | (bucket, detail) for the first disagreement."""
    import linecache

    import hy
    from hy.repl import REPL

    _COUNTER[0] += 1
    name = "c40_session_%d" % _COUNTER[0]
    saved_last = {k: getattr(sys, k) for k in ("last_exc", "last_type", "last_value", "last_traceback") if hasattr(sys, k)}
    # NOTE for callers: hy calls inspect.stack() (source context for every frame) whenever a REPL is created and
    # whenever a macro is defined or required, so sessions should be run from a shallow stack -- the property's
    # shard() collects the generated cases inside Hypothesis and runs them after Hypothesis has returned.
    repl = None
    old_hook = sys.excepthook
    # The REPL reports an uncaught exception through sys.excepthook.  CPython's built-in hook re-opens and re-reads
    # every source file of every traceback frame; this one prints the final "Type: message" part only.
    sys.excepthook = _brief_excepthook
    try:
        repl = REPL(locals={"__name__": name}, **(repl_kwargs or {}))
        return _drive(hy, repl, inputs, distinct)
    finally:
        sys.excepthook = old_hook
        sys.modules.pop(name, None)
        for k in list(getattr(repl, "cmdline_cache", {})):
            linecache.cache.pop(k, None)
        for k in ("last_exc", "last_type", "last_value", "last_traceback"):
            if k in saved_last:
                setattr(sys, k, saved_last[k])
            elif hasattr(sys, k):
                delattr(sys, k)


def _drive(hy, repl, inputs, distinct):
    names = [hy.mangle("*1"), hy.mangle("*2"), hy.mangle("*3")]
    ename = hy.mangle("*e")
    L = repl.locals

    def snap():
        return [L.get(n, MISSING) for n in names], L.get(ename, MISSING)

    def feed(src):
        o, e = io.StringIO(), io.StringIO()
        with contextlib.redirect_stdout(o), contextlib.redirect_stderr(e):
            try:
                res = repl.runsource(src)
                crash = None
            except Exception as x:  # the REPL itself fell over on this input: a property failure, not a harness one
                res, crash = None, x
        return res, o.getvalue(), e.getvalue(), crash

    # model of the history variables: a set of admissible slot triples.  Slot descriptors:
    # ("i",) not determined by any input yet; ("n",) None; ("v", k) the result of input k.
    states = {(("i",), ("i",), ("i",))}
    slots, star_e = snap()
    seen_exc = []
    trail = []

    def matches(st, obs):
        for d, o in zip(st, obs):
            if d[0] == "n":
                if o is not None:
                    return False
            elif d[0] == "v":
                if o is MISSING or o is None or safe_repr(o) != inputs[d[1]]["expect"]:
                    return False
        return True

    def show_state(st):
        return [("anything" if d[0] == "i" else "None" if d[0] == "n" else inputs[d[1]]["expect"]) for d in st]

    for idx, inp in enumerate(inputs):
        kind, sub, lines = inp["kind"], inp.get("sub", ""), inp["lines"]
        where = dict(step=idx, kind=kind, sub=sub, lines=lines, history=list(trail))
        buf = []
        for j, ln in enumerate(lines):
            buf.append(ln)
            del _REPORTED[:]
            res, out, err, crash = feed("\n".join(buf))
            if crash is not None:
                return ("runsource-raised:%s:%s" % (type(crash).__name__, kind), dict(where, fed=buf, error=repr(crash)[:300]))
            if j + 1 < len(lines):
                if not res:
                    return ("more:incomplete-input-was-evaluated:%s" % (inp["opens"][j] if "opens" in inp else sub),
                            dict(where, fed=list(buf), returned=repr(res), stdout=out, stderr=err[-400:]))
                new_slots, new_e = snap()
                if out or err:
                    return ("more:output-while-incomplete", dict(where, fed=list(buf), stdout=out, stderr=err[-400:]))
                if any(a is not b for a, b in zip(slots, new_slots)) or new_e is not star_e:
                    return ("more:specials-changed-while-incomplete",
                            dict(where, fed=list(buf), before=[_show(x) for x in slots], after=[_show(x) for x in new_slots]))
            elif res:
                return ("more:complete-input-asks-for-more:%s" % kind, dict(where, fed=list(buf), returned=repr(res)))
        trail.append("%s/%s: %s" % (kind, sub, " ⏎ ".join(lines)[:80]))

        # printed output
        want_out = inp.get("out", "") + (inp["expect"] + "\n" if kind == "value" else "")
        if out != want_out:
            if kind in FAIL_KINDS and out.startswith(inp.get("out", "")) and out != inp.get("out", ""):
                b = "stdout:printed-after-failed-input:%s" % kind
            elif kind == "value" and out == inp.get("out", ""):
                b = "stdout:result-not-printed:%s" % sub
            else:
                b = "stdout:differs:%s:%s" % (kind, sub)
            return (b, dict(where, expected_stdout=want_out, actual_stdout=out, stderr=err[-600:]))

        # history variables
        new_slots, new_e = snap()
        nxt = set()
        for st in states:
            if kind == "value":
                nxt.add((("v", idx), st[0], st[1]))
            elif kind == "none":
                nxt.add((("n",), st[0], st[1]))
            else:  # failed or blank input: it either takes no slot, or takes one with None
                nxt.add(st)
                nxt.add((("n",), st[0], st[1]))
        ok = {st for st in nxt if matches(st, new_slots)}
        reprs = [_show(o) for o in new_slots]
        results = {i["expect"] for i in inputs[: idx + 1] if i["kind"] == "value"}
        # the property's own clause, independent of the model: results are distinct by construction, so two
        # slots showing the same result hold ONE input's result
        dup = distinct and any(reprs[a] == reprs[b] and reprs[a] in results for a in range(3) for b in range(a + 1, 3))
        if dup or not ok:
            if kind in FAIL_KINDS and dup:
                b = "history:failed-input-repeats-a-result:%s" % kind
            elif kind == "blank":
                b = "history:wrong-after-blank-input" + (":repeats-a-result" if dup else "")
            else:
                b = "history:wrong-after-%s-input" % kind
            return (b, dict(where, actual=reprs, admissible=sorted(show_state(s) for s in nxt), two_slots_hold_one_result=bool(dup), stderr=err[-300:]))
        states = ok
        slots = new_slots

        # *e
        if kind in FAIL_KINDS:
            if new_e is MISSING:
                return ("star-e:unbound-after-failed-input:%s" % kind, dict(where, stderr=err[-400:]))
            if not isinstance(new_e, BaseException):
                return ("star-e:not-an-exception:%s" % kind, dict(where, star_e=_show(new_e)))
            if any(new_e is x for x in seen_exc):
                return ("star-e:stale-after-failed-input:%s" % kind, dict(where, star_e=repr(new_e)[:200], stderr=err[-400:]))
            exc = inp.get("exc")
            if exc:
                if type(new_e).__name__ != exc["type"] or (exc.get("msg") is not None and str(new_e) != exc["msg"]):
                    return ("star-e:wrong-exception:%s" % kind, dict(where, expected=exc, star_e=repr(new_e)[:200]))
            if _REPORTED and new_e is not _REPORTED[-1]:  # what the REPL handed to sys.excepthook for this input
                return ("star-e:not-the-reported-exception:%s" % kind, dict(where, star_e=repr(new_e)[:200], reported=repr(_REPORTED[-1])[:200], stderr=err[-600:]))
            seen_exc.append(new_e)
        elif new_e is not star_e:
            return ("star-e:changed-by-%s-input:%s" % (kind, sub), dict(where, before=_show(star_e), after=_show(new_e), stderr=err[-400:]))
        star_e = new_e
    return None


# -- Engine-B programs as sessions -------------------------------------------------------------


def quote_all(items):
    from vf import textgen as T

    return [x if T.is_sep(x) else ["pre", "quote", True, [], x] for x in items]


def inputs_from_items(items):
    """Engine-B tree (top-level forms already quoted) -> (inputs, rendered) | (None, reason).
    The text is split at EVERY line break; the generator's own record of open constructs says, for each
    line end, whether the text so far is incomplete."""
    import hy
    from vf import textgen as T

    try:
        rd = T.render(items)
    except ValueError:
        return None, "model-constructor-rejects"
    lines = rd.text.split("\n")
    inputs = []
    chunk, opens = [], []
    pos = 0
    nprev = 0
    for ln in lines:
        end = pos + len(ln)
        kind = T.classify_cut(rd, end)
        chunk.append(ln)
        if kind[0] == "open":
            opens.append(kind[1])
        elif kind[0] == "between":
            forms = rd.models[nprev:kind[1]]
            nprev = kind[1]
            if forms:
                last = forms[-1]
                inputs.append(dict(kind="value", sub="quoted-data", lines=chunk, expect=hy.repr(last[1]), opens=opens))
            else:
                inputs.append(dict(kind="blank", sub="no-forms", lines=chunk, opens=opens))
            chunk, opens = [], []
        else:
            return None, "line-end-inside-a-top-level-token"
        pos = end + 1
    if chunk:
        return None, "text-ends-incomplete"
    return inputs, rd
