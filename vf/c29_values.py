"""Tagged JSON trees for C29: values for hy.as-model, rebuilt as Python objects.

A tree node is a JSON object with a tag "t":

  leaves      none | bool | int | float | complex | str | bytes   ("m": 1 = given as a model, 0 = as the plain value)
              kw | sym                                            (always models)
  containers  list | tuple | set | dict                           ("m": 1 = hy.models.List/Tuple/Set/Dict holding the built
                                                                    children unpromoted, 0 = the Python container)
              expr (op do | len | + | call) | fstr > fcomp         (always models, children may be plain)
  ref         {"t": "ref", "to": id}  the object built for the container with that "id": an enclosing one (the structure
              contains itself) or an already completed one (shared, acyclic). Only directly inside a plain list or as a value
              of a plain dict, which are the only places where Python lets a structure be closed onto itself.

Floats are stored as repr() text (nan/inf are not JSON), bytes as hex text.
Nothing in this file looks at how hy implements as_model.
"""
import math

ENV = {"a": 7, "b": "bee", "c-d": (1, 2)}
ENV_NS = {"a": 7, "b": "bee", "c_d": (1, 2)}

LEAVES = ("none", "bool", "int", "float", "complex", "str", "bytes", "kw", "sym")
RAWABLE = ("list", "tuple", "set", "dict")
CONTAINERS = ("list", "tuple", "set", "dict", "expr", "fstr", "fcomp")
CONV = {None: lambda v: v, "r": repr, "s": str, "a": ascii}


class Invalid(Exception):
    """The tree is not a well-formed case (only shrinking can produce one)."""


def kids(node):
    t = node["t"]
    if t == "dict":
        return [x for kv in node["c"] for x in kv]
    if t in CONTAINERS:
        return list(node["c"])
    return []


def is_nan_leaf(node):
    if node["t"] == "float":
        return math.isnan(float(node["v"]))
    if node["t"] == "complex":
        return math.isnan(float(node["re"])) or math.isnan(float(node["im"]))
    return False


def hashable_kind(node):
    """Built input AND evaluated value are hashable, and Python's == works on them (no NaN)."""
    t = node["t"]
    if t in LEAVES:
        return not is_nan_leaf(node)
    if t == "tuple":
        return all(hashable_kind(c) for c in node["c"])
    return False


def build_hashable(node):
    """The input object can be put in a plain set / used as a plain dict key."""
    t = node["t"]
    if t in LEAVES:
        return True
    if t == "tuple":
        return all(build_hashable(c) for c in node["c"])
    return False


# -- validation ---------------------------------------------------------------------


def validate(tree):
    """Raise Invalid unless tree is something build() can construct."""
    ids = set()

    def go(node, anc, done, slot):
        if not isinstance(node, dict) or "t" not in node:
            raise Invalid("not a node")
        t = node["t"]
        if t == "ref":
            if slot != "mutable":
                raise Invalid("ref outside a plain list / dict value")
            if node.get("to") not in anc and node.get("to") not in done:
                raise Invalid("dangling ref")
            return
        if t in LEAVES:
            if t == "none":
                pass
            elif t == "bool":
                if not isinstance(node.get("v"), bool):
                    raise Invalid("bool")
            elif t == "int":
                if isinstance(node.get("v"), bool) or not isinstance(node.get("v"), int):
                    raise Invalid("int")
            elif t == "float":
                _f(node.get("v"))
            elif t == "complex":
                _f(node.get("re")), _f(node.get("im"))
            elif t == "str":
                if not isinstance(node.get("v"), str):
                    raise Invalid("str")
                br = node.get("br")
                if br is not None and (not node.get("m") or not isinstance(br, str) or ("]%s]" % br) in (node["v"] + "]" + br)
                                       or br == "f" or br.startswith("f-") or "\r" in node["v"]):
                    raise Invalid("brackets")
            elif t == "bytes":
                try:
                    bytes.fromhex(node.get("v"))
                except (TypeError, ValueError):
                    raise Invalid("bytes")
            elif t == "kw":
                if not isinstance(node.get("v"), str) or not all(ch.isalnum() or ch in "-_?!" for ch in node["v"]):
                    raise Invalid("kw")
            elif t == "sym":
                if node.get("v") not in ENV and node.get("v") not in CALL_HEADS:
                    raise Invalid("sym")
            return
        if t not in CONTAINERS:
            raise Invalid("unknown tag")
        if t != "fcomp":
            i = node.get("id")
            if not isinstance(i, int) or isinstance(i, bool) or i in ids:
                raise Invalid("id")
            ids.add(i)
        c = node.get("c")
        if not isinstance(c, list):
            raise Invalid("children")
        raw = t in RAWABLE and not node.get("m")
        anc2 = anc + [node.get("id")] if t != "fcomp" else anc
        if t == "dict":
            for kv in c:
                if not isinstance(kv, list) or len(kv) != 2:
                    raise Invalid("dict pair")
                go(kv[0], anc2, done, "key")
                if raw and not build_hashable(kv[0]):
                    raise Invalid("unhashable key")
                go(kv[1], anc2, done, "mutable" if raw else "fixed")
        elif t == "set":
            for x in c:
                go(x, anc2, done, "fixed")
                if raw and not build_hashable(x):
                    raise Invalid("unhashable element")
        elif t == "expr":
            op = node.get("op")
            if op == "do":
                if len(c) != 1:
                    raise Invalid("do")
            elif op == "len":
                if len(c) != 1 or not isinstance(c[0], dict) or c[0].get("t") not in RAWABLE:
                    raise Invalid("len")
            elif op == "+":
                if not all(isinstance(x, dict) and x.get("t") == "int" for x in c):
                    raise Invalid("+")
            elif op == "call":
                if node.get("head") not in CALL_HEADS:
                    raise Invalid("call head")
            else:
                raise Invalid("op")
            for x in c:
                go(x, anc2, done, "fixed")
        elif t == "fstr":
            br = node.get("br")
            if br is not None and not isinstance(br, str):
                raise Invalid("fstr brackets")
            for x in c:
                if not isinstance(x, dict) or x.get("t") not in ("str", "fcomp"):
                    raise Invalid("fstr part")
                if x["t"] == "str" and x.get("br") is not None:
                    raise Invalid("fstr literal")
                go(x, anc2, done, "fixed")
            if br is not None and any(n["t"] == "str" and "]" in n["v"] for n, _ in walk(node)):
                raise Invalid("text that could close the bracket f-string")
        elif t == "fcomp":
            if len(c) not in (1, 2) or node.get("conv") not in CONV:
                raise Invalid("fcomp")
            if len(c) == 2 and (c[1].get("t") != "str" or c[1].get("br") is not None):
                raise Invalid("fcomp spec")
            go(c[0], anc2, done, "fixed")
            if len(c) == 2:
                go(c[1], anc2, done, "fixed")
        else:  # list, tuple
            for x in c:
                go(x, anc2, done, "mutable" if (raw and t == "list") else "fixed")
        if t != "fcomp":
            done.add(node["id"])

    def _f(s):
        if not isinstance(s, str):
            raise Invalid("float text")
        try:
            float(s)
        except ValueError:
            raise Invalid("float text")

    go(tree, [], set(), "top")
    # an fcomp may only sit directly in an fstr
    def fplace(node, parent):
        if node["t"] == "fcomp" and parent != "fstr":
            raise Invalid("fcomp outside fstr")
        for k in kids(node):
            fplace(k, node["t"])

    fplace(tree, None)


CALL_HEADS = ("foo", "setv", "print", "my-macro", "fn", "unquote")


# -- facts about a tree --------------------------------------------------------------


def walk(node, anc=()):
    """yield (node, ancestors) in build order (pre-order)."""
    yield node, anc
    for k in kids(node):
        yield from walk(k, anc + (node,))


def up_refs(tree):
    """refs whose target encloses them: the structure contains itself."""
    out = []
    for node, anc in walk(tree):
        if node["t"] == "ref" and any(a.get("id") == node["to"] for a in anc):
            out.append((node, anc))
    return out


def is_cyclic(tree):
    return bool(up_refs(tree))


def side_refs(tree):
    return [n for n, anc in walk(tree) if n["t"] == "ref" and not any(a.get("id") == n["to"] for a in anc)]


def cycle_path_kinds(tree):
    """For each self-reference: kinds of the objects from the target down to the holder of the ref."""
    out = []
    for node, anc in up_refs(tree):
        i = [k for k, a in enumerate(anc) if a.get("id") == node["to"]][0]
        out.append([kind_name(a) for a in anc[i:]])
    return out


def kind_name(node):
    t = node["t"]
    if t in RAWABLE:
        return ("model-" if node.get("m") else "") + t
    return t


def depth(node):
    ks = kids(node)
    return 0 if node["t"] not in CONTAINERS else 1 + max([depth(k) for k in ks], default=0)


def show(node):
    """Compact text of a tree: plain values Python-like, existing models with a leading quote."""
    t = node["t"]
    q = "'" if node.get("m") else ""
    if t == "none":
        return q + "None"
    if t in ("bool", "int"):
        return q + repr(node["v"])
    if t == "float":
        return q + node["v"]
    if t == "complex":
        return q + "(%s%sj)" % (node["re"], node["im"] if node["im"].startswith("-") else "+" + node["im"])
    if t == "str":
        return ("'#[%s[%s]%s]" % (node["br"], node["v"], node["br"])) if node.get("br") is not None else q + ascii(node["v"])
    if t == "bytes":
        return q + repr(bytes.fromhex(node["v"]))
    if t == "kw":
        return ":" + node["v"]
    if t == "sym":
        return "'" + node["v"]
    if t == "ref":
        return "<@%d>" % node["to"]
    tag = "@%d" % node["id"] if "id" in node else ""
    if t == "dict":
        body = " ".join("%s %s" % (show(k), show(v)) for k, v in node["c"])
        return q + "{" + body + "}" + tag
    body = " ".join(show(x) for x in node["c"])
    if t == "list":
        return q + "[" + body + "]" + tag
    if t == "tuple":
        return q + "#(" + body + ")" + tag
    if t == "set":
        return q + "#{" + body + "}" + tag
    if t == "expr":
        return "'(" + (node.get("head") or node["op"]) + (" " if body else "") + body + ")" + tag
    if t == "fstr":
        return "'%s\"%s\"%s%s" % ("t" if node.get("ts") else "f", body, "" if node.get("br") is None else "[brackets=%r]" % node["br"], tag)
    if t == "fcomp":
        return "{" + show(node["c"][0]) + ("!" + node["conv"] if node.get("conv") else "") + (":" + show(node["c"][1]) if len(node["c"]) == 2 else "") + "}"
    return "?"


def healed(tree):
    """The same tree with every self-reference replaced by the plain integer 0."""

    def go(node, anc):
        if node["t"] == "ref":
            if node["to"] in anc:
                return {"t": "int", "v": 0, "m": 0}
            return dict(node)
        new = dict(node)
        a2 = anc + [node.get("id")]
        if node["t"] == "dict":
            new["c"] = [[go(k, a2), go(v, a2)] for k, v in node["c"]]
        elif node["t"] in CONTAINERS:
            new["c"] = [go(x, a2) for x in node["c"]]
        return new

    return go(tree, [])


def evaluable(tree):
    """Acyclic tree whose promoted form is a program with a value this file can predict."""
    if is_cyclic(tree):
        return False
    by_id = {n["id"]: n for n, _ in walk(tree) if "id" in n}
    for node, anc in walk(tree):
        t = node["t"]
        if t == "fstr" and node.get("ts"):
            return False  # template strings need Python 3.14
        if t == "expr" and node["op"] == "call":
            return False
        if t == "sym" and node["v"] not in ENV:
            return False
        if t == "set" and not all(hashable_kind(x) for x in node["c"]):
            return False
        if t == "dict" and not all(hashable_kind(k) for k, _ in node["c"]):
            return False
        if t == "fcomp":
            if _reaches_set(node["c"][0], by_id):
                return False  # the text of a set depends on its iteration order, i.e. on how it was filled: not a value
            try:
                _fcomp_text(node, _Plain(tree))
            except Exception:  # a format spec that does not fit the value: only shrinking produces one
                return False
    return True


def _reaches_set(node, by_id):
    if node["t"] == "set":
        return True
    if node["t"] == "ref":
        return _reaches_set(by_id[node["to"]], by_id)
    return any(_reaches_set(k, by_id) for k in kids(node))


# -- the Python value the tree denotes -------------------------------------------------


class _Plain:
    def __init__(self, tree):
        self.by_id = {n["id"]: n for n, _ in walk(tree) if "id" in n}

    def of(self, node):
        import hy.models as M

        t = node["t"]
        if t == "none":
            return None
        if t == "bool" or t == "int" or t == "str":
            return node["v"]
        if t == "float":
            return float(node["v"])
        if t == "complex":
            return complex(float(node["re"]), float(node["im"]))
        if t == "bytes":
            return bytes.fromhex(node["v"])
        if t == "kw":
            return M.Keyword(node["v"])
        if t == "sym":
            return ENV[node["v"]]
        if t == "ref":
            return self.of(self.by_id[node["to"]])
        if t == "list":
            return [self.of(x) for x in node["c"]]
        if t == "tuple":
            return tuple(self.of(x) for x in node["c"])
        if t == "set":
            return set(self.of(x) for x in node["c"])
        if t == "dict":
            return {self.of(k): self.of(v) for k, v in node["c"]}
        if t == "expr":
            if node["op"] == "do":
                return self.of(node["c"][0])
            if node["op"] == "len":
                return len(self.of(node["c"][0]))
            if node["op"] == "+":
                return sum(x["v"] for x in node["c"])
            raise Invalid("no value for a call")
        if t == "fstr":
            return "".join(x["v"] if x["t"] == "str" else _fcomp_text(x, self) for x in node["c"])
        raise Invalid("no value for " + t)


def _fcomp_text(node, plain):
    v = CONV[node.get("conv")](plain.of(node["c"][0]))
    spec = node["c"][1]["v"] if len(node["c"]) == 2 else ""
    return format(v, spec)


def plain_value(tree):
    return _Plain(tree).of(tree)


# -- the input object ---------------------------------------------------------------------


class _Hole:
    pass


class Built:
    """root = the input for as_model; patches = [(holder, key)] of every self-reference."""

    def __init__(self, tree):
        import hy.models as M

        self.M = M
        self.objs = {}
        self.stack = []
        self.holes = {}
        self.patches = []
        self.root = self.build(tree)
        if self.holes:
            raise Invalid("unpatched hole")

    def heal(self):
        """Mutate the structure in place: every self-reference becomes the plain integer 0."""
        for holder, key in self.patches:
            holder[key] = 0

    def _place(self, holder, key, child_node, obj):
        if child_node["t"] == "ref" and child_node["to"] in self.stack:
            self.patches.append((holder, key))
            if isinstance(obj, _Hole):
                self.holes.setdefault(child_node["to"], []).append((holder, key))

    def _finish(self, node, obj):
        self.objs[node["id"]] = obj
        for holder, key in self.holes.pop(node["id"], []):
            holder[key] = obj
        return obj

    def build(self, node):
        M = self.M
        t = node["t"]
        m = node.get("m")
        if t == "none":
            return M.Symbol("None") if m else None
        if t == "bool":
            return M.Symbol("True" if node["v"] else "False") if m else node["v"]
        if t == "int":
            return M.Integer(node["v"]) if m else node["v"]
        if t == "float":
            return M.Float(float(node["v"])) if m else float(node["v"])
        if t == "complex":
            z = complex(float(node["re"]), float(node["im"]))
            return M.Complex(z.real, z.imag) if m else z
        if t == "str":
            return M.String(node["v"], brackets=node.get("br")) if m else node["v"]
        if t == "bytes":
            return M.Bytes(bytes.fromhex(node["v"])) if m else bytes.fromhex(node["v"])
        if t == "kw":
            return M.Keyword(node["v"])
        if t == "sym":
            return M.Symbol(node["v"])
        if t == "ref":
            if node["to"] in self.objs:
                return self.objs[node["to"]]
            if node["to"] in self.stack:
                return _Hole()
            raise Invalid("dangling ref")
        if t == "fcomp":
            return M.FComponent([self.build(x) for x in node["c"]], conversion=node.get("conv"), is_tstring=bool(node.get("ts")))
        i = node["id"]
        if t == "list" and not m:
            obj = self.objs[i] = []
            self.stack.append(i)
            for k, x in enumerate(node["c"]):
                obj.append(self.build(x))
                self._place(obj, k, x, obj[k])
            self.stack.pop()
            return obj
        if t == "dict" and not m:
            obj = self.objs[i] = {}
            self.stack.append(i)
            for kn, vn in node["c"]:
                key = self.build(kn)
                if key in obj:  # the overwritten entry (and any self-reference below it) would silently vanish from the input
                    raise Invalid("duplicate key in a plain dict")
                obj[key] = self.build(vn)
                self._place(obj, key, vn, obj[key])
            self.stack.pop()
            return obj
        self.stack.append(i)
        if t == "dict":
            parts = [self.build(x) for kv in node["c"] for x in kv]
        else:
            parts = [self.build(x) for x in node["c"]]
        self.stack.pop()
        if t == "list":
            obj = M.List(parts)
        elif t == "tuple":
            obj = M.Tuple(parts) if m else tuple(parts)
        elif t == "set":
            obj = M.Set(parts) if m else set(parts)
        elif t == "dict":
            obj = M.Dict(parts)
        elif t == "expr":
            head = node["head"] if node["op"] == "call" else node["op"]
            obj = M.Expression([M.Symbol(head)] + parts)
        elif t == "fstr":
            obj = M.FString(parts, brackets=node.get("br"), is_tstring=bool(node.get("ts")))
        else:
            raise Invalid("unknown tag " + t)
        return self._finish(node, obj)


def build(tree):
    validate(tree)
    try:
        return Built(tree)
    except (TypeError, ValueError) as e:  # e.g. a bracket string whose text holds its own closer
        raise Invalid("cannot construct: %s" % e)


# -- comparing ---------------------------------------------------------------------------------


def _feq(x, y):
    return (math.isnan(x) and math.isnan(y)) or x == y


def value_diff(exp, act, path="", notes=None):
    """None if act is the value exp: same types at every node of lists/tuples/dict values, equal leaves (NaN == NaN);
    sets and dict keys by Python's own equality. Else (kind, text)."""
    import hy.models as M

    p = path or "."
    if isinstance(exp, (list, tuple)):
        if type(act) is not type(exp):
            return ("container-type", "%s: expected %s, got %s %r" % (p, type(exp).__name__, type(act).__name__, act))
        if len(act) != len(exp):
            return ("length", "%s: expected %d elements, got %d" % (p, len(exp), len(act)))
        for i, (x, y) in enumerate(zip(exp, act)):
            d = value_diff(x, y, "%s[%d]" % (path, i), notes)
            if d:
                return d
        return None
    if isinstance(exp, dict):
        if type(act) is not dict:
            return ("container-type", "%s: expected dict, got %s %r" % (p, type(act).__name__, act))
        if len(act) != len(exp) or any(k not in act for k in exp):
            return ("dict-keys", "%s: expected keys %r, got %r" % (p, list(exp), list(act)))
        for k in exp:
            d = value_diff(exp[k], act[k], "%s{%r}" % (path, k), notes)
            if d:
                return d
        return None
    if isinstance(exp, set):
        if type(act) is not set:
            return ("container-type", "%s: expected set, got %s %r" % (p, type(act).__name__, act))
        return None if exp == act else ("set", "%s: expected %r, got %r" % (p, exp, act))
    if isinstance(exp, M.Keyword):
        if isinstance(act, M.Keyword) and act.name == exp.name:
            return None
        return ("keyword", "%s: expected %r, got %r" % (p, exp, act))
    if type(exp) is float and type(act) is float:
        if not _feq(exp, act):
            return ("float", "%s: expected %r, got %r" % (p, exp, act))
        if notes is not None and math.copysign(1, exp) != math.copysign(1, act):
            notes.append("zero-sign")
        return None
    if type(exp) is complex and type(act) is complex:
        if _feq(exp.real, act.real) and _feq(exp.imag, act.imag):
            return None
        return ("complex", "%s: expected %r, got %r" % (p, exp, act))
    if type(exp) is not type(act):
        try:
            same = bool(exp == act)
        except Exception:
            same = False
        return ("leaf-type" if same else "leaf", "%s: expected %s %r, got %s %r" % (p, type(exp).__name__, exp, type(act).__name__, act))
    return None if exp == act else ("leaf", "%s: expected %r, got %r" % (p, exp, act))


ATTRS = ("brackets", "conversion", "expression", "is_tstring")


def model_diff(a, b, path=""):
    """None if the model trees are the same: type at every node, value (NaN == NaN), and the attributes models carry."""
    import hy.models as M

    p = path or "."
    if type(a) is not type(b):
        return ("type", "%s: %s vs %s" % (p, type(a).__name__, type(b).__name__))
    for at in ATTRS:
        if hasattr(a, at) or hasattr(b, at):
            if getattr(a, at, "<missing>") != getattr(b, at, "<missing>"):
                return ("attr-" + at, "%s: %s %r vs %r" % (p, at, getattr(a, at, "<missing>"), getattr(b, at, "<missing>")))
    if isinstance(a, M.Sequence):
        if len(a) != len(b):
            return ("length", "%s: %d vs %d" % (p, len(a), len(b)))
        for i, (x, y) in enumerate(zip(a, b)):
            d = model_diff(x, y, "%s[%d]" % (path, i))
            if d:
                return d
        return None
    if isinstance(a, M.Keyword):
        return None if a.name == b.name else ("keyword", "%s: %r vs %r" % (p, a.name, b.name))
    if isinstance(a, M.Float):
        return None if _feq(float(a), float(b)) else ("float", "%s: %r vs %r" % (p, float(a), float(b)))
    if isinstance(a, M.Complex):
        ca, cb = complex(a), complex(b)
        return None if _feq(ca.real, cb.real) and _feq(ca.imag, cb.imag) else ("complex", "%s: %r vs %r" % (p, ca, cb))
    for base in (str, bytes, int):
        if isinstance(a, base):
            return None if base(a) == base(b) else ("value", "%s: %r vs %r" % (p, base(a), base(b)))
    return None if a == b else ("value", "%s: %r vs %r" % (p, a, b))


def non_model(out, path=""):
    """First node of the result that is not a model: (path, type name, parent type name) or None."""
    import hy.models as M

    def go(x, path, parent):
        if not isinstance(x, M.Object):
            return (path or ".", type(x).__name__, parent)
        if isinstance(x, M.Sequence):
            for i, y in enumerate(x):
                r = go(y, "%s[%d]" % (path, i), type(x).__name__)
                if r:
                    return r
        return None

    return go(out, path, "top")


def is_pure(x):
    import hy.models as M

    if not isinstance(x, M.Object):
        return False
    if isinstance(x, M.Sequence):
        return all(is_pure(y) for y in x)
    return True


def models_kept(inp, out, path=""):
    """Every part of the input that already was a model tree must come out as the same model tree
    (type, value, attributes). Descends only where positions are forced: sequences. -> None | (kind, text)"""
    import hy.models as M

    if isinstance(inp, M.Object):
        if is_pure(inp):
            d = model_diff(inp, out, path)
            return d and (d[0], "input model %r came out as %r (%s)" % (inp, out, d[1]))
        # a model holding unpromoted values: same model type and attributes, children promoted
        if type(out) is not type(inp):
            return ("type", "%s: input model %s came out as %s" % (path or ".", type(inp).__name__, type(out).__name__))
        for at in ATTRS:
            if hasattr(inp, at) and getattr(inp, at) != getattr(out, at, "<missing>"):
                return ("attr-" + at, "%s: %s %r became %r" % (path or ".", at, getattr(inp, at), getattr(out, at, "<missing>")))
        if isinstance(inp, M.FString):
            # adjacent literal parts may be joined, but replacement fields are neither joined nor reordered
            fi = [x for x in inp if isinstance(x, M.FComponent)]
            fo = [y for y in out if isinstance(y, M.FComponent)]
            if len(fi) == len(fo):
                for i, (x, y) in enumerate(zip(fi, fo)):
                    d = models_kept(x, y, "%s{field %d}" % (path, i))
                    if d:
                        return d
            return None
        if len(inp) != len(out):
            return None
        for i, (x, y) in enumerate(zip(inp, out)):
            d = models_kept(x, y, "%s[%d]" % (path, i))
            if d:
                return d
        return None
    if isinstance(inp, (list, tuple)) and isinstance(out, M.Sequence) and len(inp) == len(out):
        for i, (x, y) in enumerate(zip(inp, out)):
            d = models_kept(x, y, "%s[%d]" % (path, i))
            if d:
                return d
    return None


def passthrough_origin(inp, out):
    """Diagnosis only (names the bucket): the type of the input container one of whose children came out unpromoted."""
    import hy.models as M

    if isinstance(inp, dict):
        ks = [x for kv in inp.items() for x in kv]
    elif isinstance(inp, (list, tuple, set)):
        ks = list(inp)
    else:
        return None
    if not isinstance(out, M.Sequence) or len(ks) != len(out):
        return None
    for x, y in zip(ks, out):
        if not isinstance(y, M.Object):
            return type(inp).__name__
        if y is x and not is_pure(x):
            # either inp never promoted this child, or promoting the child on its own is what fails
            try:
                alone = M.as_model(x)
            except Exception:
                return type(inp).__name__
            return type(x).__name__ if non_model(alone) else type(inp).__name__
    for x, y in zip(ks, out):
        r = passthrough_origin(x, y)
        if r:
            return r
    return None
