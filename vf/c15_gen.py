"""C15: case JSON -> files (pure function), the require model used to build valid uses, and the Hypothesis generator.

A case of kind "import":
  mods : macro modules, each {"path": [hy-spelled parts], "macros": [[name, kind]], "readers": [names], "reqs": [ENTRY], "export": null|{...}}
         (path may end in "__init__": the macros then live in the package itself)
  main : {"path": [...], "items": [ITEM]}
  drop : "all" | "main" | "process"      what is forgotten between the source import and the cached import
  init_py : bool                          package __init__ files without content are .py instead of .hy
ENTRY  : {"mod": i, "rel": bool, "shape": "none"|"bare"|"as"|"names"|"star"|"sub", "alias": str|null, "names": [[name, alias|null]],
          "kw": bool, "readers": null|"*"|[names], "rfirst": bool}
ITEM   : {"t": "require", "entries": [ENTRY]} | {"t": "use", "style": ..., "call": str, "args": [ints], "expect": canon}
         | {"t": "localreq", "entry": ENTRY, "call": str, "args": [...], "expect": canon} | {"t": "val", "forms": [str]}
         | {"t": "own", "name": str} | {"t": "prog", "src": str}
A case of kind "ext": {"stem", "ext", "dirname", "hyval", "pyval"}.
"""

MACRO_NAMES = ["foo", "bar-baz", "is-ok?", "do-it!", "mac1", "->x", "λx", "with-2x", "UPPER", "x*", "_hid", "_priv-2"]
READER_NAMES = ["rd", "r-2", "up!", "λr"]
MOD_NAMES = ["mm-a", "mm-b", "macs", "m2", "util-x", "lib"]
PKG_NAMES = ["pk", "pk-a", "zz-pkg"]
SUB_NAMES = ["sub", "in-ner"]
ALIASES = ["A", "my-M", "P2", "q?", "Zz", "λa", "B-b"]
MAIN_NAMES = ["main-x", "app", "user-mod"]
EXCLUDE = set()  # shapes switched off because a recorded finding covers them ("local-sub"); filled in by the property module
EXCLUDED = [0]  # how often the generator wanted such a shape


def py(part):
    return part.replace("-", "_")


def pydotted(path):
    parts = path[:-1] if path[-1] == "__init__" else path
    return ".".join(py(p) for p in parts)


def hydotted(path):
    parts = path[:-1] if path[-1] == "__init__" else path
    return ".".join(parts)


def relfile(path, ext=".hy"):
    return "/".join(py(p) for p in path) + ext


def is_hidden(name):
    return name.startswith("_")


# ----------------------------------------------------------------------------- model of what a module offers


def own_table(mod):
    """hy macro name -> {"tag", "kind", "module"} for the macros the module defines itself"""
    out = {}
    pm = pydotted(mod["path"])
    first = mod["macros"][0] if mod["macros"] else None
    for name, kind in mod["macros"]:
        if kind == 4 and (first is None or first[0] == name or first[1] not in (0, 2, 3)):
            kind = 0
        if kind == 4:
            out[name] = dict(tag="%s:%s" % (pm, first[0]), kind=0, module=pm, forward=first[0])
        else:
            out[name] = dict(tag="%s:%s" % (pm, name), kind=kind, module=pm)
    return out


def tables(mods):
    """per module: (macro table incl. re-exported names, exported names, reader table)"""
    out = []
    for mod in mods:
        t = {}
        for e in mod.get("reqs", []):
            t.update(apply_entry(e, mods, out))
        t.update(own_table(mod))
        rt = {}
        for e in mod.get("reqs", []):
            rt.update(apply_readers(e, mods, out))
        pm = pydotted(mod["path"])
        for r in mod["readers"]:
            rt[r] = dict(tag="%s#%s" % (pm, r), module=pm)
        ex = mod.get("export")
        if ex is not None:
            exported = [n for n in t if n in ex["names"]]
        else:
            exported = [n for n in t if not is_hidden(n)]
        out.append(dict(macros=t, exported=exported, readers=rt))
    return out


def apply_entry(e, mods, tabs):
    """macro names a require entry brings into the requiring module: call name -> info (docs/api.rst, require)"""
    tab = tabs[e["mod"]]
    shape = e["shape"]
    if shape == "none":
        return {}
    if shape == "bare":
        prefix = hydotted(mods[e["mod"]]["path"])
        if e.get("rel"):
            prefix = mods[e["mod"]]["path"][-1]
        return {prefix + "." + n: tab["macros"][n] for n in tab["exported"]}
    if shape == "as":
        return {e["alias"] + "." + n: tab["macros"][n] for n in tab["exported"]}
    if shape == "names":
        return {(a or n): tab["macros"][n] for n, a in e["names"]}
    if shape == "star":
        return {n: tab["macros"][n] for n in tab["exported"]}
    if shape == "sub":
        prefix = e["alias"] or mods[e["mod"]]["path"][-1]
        return {prefix + "." + n: tab["macros"][n] for n in tab["macros"]}
    raise ValueError(shape)


def apply_readers(e, mods, tabs):
    tab = tabs[e["mod"]]
    r = e.get("readers")
    if r is None:
        return {}
    if r == "*":
        return dict(tab["readers"])
    return {n: tab["readers"][n] for n in r}


def usable(e, mods, tabs, name):
    """may a generated *use* rely on this call name?  Only where the docs state the resulting name."""
    if e["shape"] == "bare" and e.get("rel"):
        return False  # the prefix of a relative bare require is not documented
    if e["shape"] == "sub":
        base = name.split(".", 1)[1]
        return base in tabs[e["mod"]]["exported"]  # whether hidden macros come along is not documented
    return True


def expect_of(info, args):
    """canonical value (worker.canon) of (MACRO *args)"""
    if info["kind"] == 1:
        return ["list", "str:" + info["tag"], "int:%d" % args[0], "int:%d" % (len(args) - 1)]
    return ["list", "str:" + info["tag"], "int:%d" % args[0]]


def expect_reader(info, arg):
    return ["list", "str:" + info["tag"], "int:%d" % arg]


# ----------------------------------------------------------------------------- rendering


def hystr(s):
    import json

    return json.dumps(s, ensure_ascii=False)


def render_macro(mod, name, kind):
    info = own_table(mod)[name]
    tag = hystr(info["tag"])
    if "forward" in info:
        return "(defmacro %s [x] `(hy.R.%s.%s ~x))" % (name, "/".join(mod["path"][:-1] if mod["path"][-1] == "__init__" else mod["path"]), info["forward"])
    kind = info["kind"]
    if kind == 0:
        return "(defmacro %s [x] `[%s ~x])" % (name, tag)
    if kind == 1:
        return "(defmacro %s [x #* ys] `[%s ~x ~(len ys)])" % (name, tag)
    if kind == 2:
        return "(defmacro %s [x] (hy.models.List [(hy.models.String %s) x]))" % (name, tag)
    if kind == 3:
        return "(defmacro %s [x] %s `[%s ~x])" % (name, hystr("doc of " + name), tag)
    raise ValueError(kind)


def modspec(e, mods, frm):
    """text naming the required module, as seen from the module at path `frm`"""
    path = mods[e["mod"]]["path"]
    if e["shape"] == "sub":
        pkg = path[:-1]
        if e.get("rel"):
            return "."
        return ".".join(pkg)
    if e.get("rel"):
        if path[:-1] == frm[:-1]:
            return "." + path[-1]
        return ".." + path[-2] + "." + path[-1]
    return hydotted(path)


def rel_ok(e_shape, target, frm, mods):
    """relative spellings that resolve to the same module in Hy and in Python's import: .NAME, ..PKG.NAME, and `. [NAME]`"""
    if frm[-1] == "__init__" or target[-1] == "__init__" or len(frm) < 2:
        return False
    if e_shape == "sub":
        return target[:-1] == frm[:-1]
    if target[:-1] == frm[:-1]:
        return True
    return len(frm) >= 3 and len(target) == len(frm) and target[:-2] == frm[:-2]


def render_entry(e, mods, frm):
    parts = [modspec(e, mods, frm)]
    mac = None
    if e["shape"] == "as":
        mac = ":as " + e["alias"]
    elif e["shape"] == "names":
        mac = "[" + " ".join(n + (" :as " + a if a else "") for n, a in e["names"]) + "]"
    elif e["shape"] == "star":
        mac = "*"
    elif e["shape"] == "sub":
        mac = "[" + mods[e["mod"]]["path"][-1] + (" :as " + e["alias"] if e["alias"] else "") + "]"
    if mac is not None and e.get("kw") and e["shape"] in ("names", "star"):
        mac = ":macros " + mac
    rd = None
    if e.get("readers") is not None:
        rd = ":readers " + ("*" if e["readers"] == "*" else "[" + " ".join(e["readers"]) + "]")
    seq = [rd, mac] if e.get("rfirst") else [mac, rd]
    parts.extend(x for x in seq if x)
    return " ".join(parts)


def render_mod(mod, mods):
    lines = [";; generated macro module " + pydotted(mod["path"])]
    for e in mod.get("reqs", []):
        lines.append("(require %s)" % render_entry(e, mods, mod["path"]))
    for name, kind in mod["macros"]:
        lines.append(render_macro(mod, name, kind))
    for r in mod["readers"]:
        lines.append("(defreader %s (setv f (.parse-one-form &reader)) `[%s ~f])" % (r, hystr("%s#%s" % (pydotted(mod["path"]), r))))
    ex = mod.get("export")
    if ex is not None:
        if ex["style"] == "export":
            lines.append("(export :objects [MODCONST] :macros [%s])" % " ".join(ex["names"]))
        else:
            lines.append("(setv _hy_export_macros (list (map hy.mangle [%s])))" % " ".join(hystr(n) for n in ex["names"]))
    lines.append("(setv MODCONST %s)" % hystr(pydotted(mod["path"])))
    return "\n".join(lines) + "\n"


def call_text(call, args):
    return "(%s %s)" % (call, " ".join(str(a) for a in args))


def render_item(i, it, mods, frm):
    t = it["t"]
    if t == "require":
        return ["(require %s)" % "\n         ".join(render_entry(e, mods, frm) for e in it["entries"])]
    if t == "val":
        return list(it["forms"])
    if t == "own":
        tag = hystr("own:" + it["name"])
        return ["(defmacro %s [x] `[%s ~x])" % (it["name"], tag)]
    if t == "prog":
        return ["(import vf.c15_fx [E CM XA XB XC BOOM])", it["src"]]
    if t == "localreq":
        c = call_text(it["call"], it["args"])
        return ["(defn zp-%d []\n  (require %s)\n  [%s (hy.eval '%s :macros (local-macros))])" % (i, render_entry(it["entry"], mods, frm), c, c)]
    if t == "use":
        s = it["style"]
        c = call_text(it["call"], it["args"]) if s not in ("reader-top", "reader-rt", "getmacro") else None
        if s == "top":
            return ["(setv zu%d %s)" % (i, c)]
        if s == "fn":
            return ["(defn zp-%d [] %s)" % (i, c)]
        if s == "rt":
            return ["(defn zp-%d [] (hy.eval '%s))" % (i, c)]
        if s == "rtread":
            return ["(defn zp-%d [] (hy.eval (hy.read %s)))" % (i, hystr(c))]
        if s == "rt-top":
            return ["(setv zu%d (hy.eval '%s))" % (i, c)]
        if s == "getmacro":
            return ["(setv zu%d (. (get-macro %s) __module__))" % (i, it["call"])]
        if s == "reader-top":
            return ["(setv zu%d #%s %d)" % (i, it["call"], it["args"][0])]
        if s == "reader-rt":
            return ["(defn zp-%d [] (hy.eval (hy.read %s :reader (hy.HyReader :use-current-readers True))))" % (i, hystr("#%s %d" % (it["call"], it["args"][0])))]
        if s == "hyR-top":
            return ["(setv zu%d %s)" % (i, c)]
        if s == "hyR-rt":
            return ["(defn zp-%d [] (hy.eval '%s))" % (i, c)]
    raise ValueError(it)


def packages_of(case):
    pk = []
    for m in case["mods"] + [case["main"]]:
        p = m["path"]
        for k in range(1, len(p)):
            if p[:k] not in pk:
                pk.append(p[:k])
    return pk


def render_import_case(case):
    """-> dict(files={relpath: text}, modules=[python dotted names], file_of={dotted: relpath}, main=dotted)"""
    mods = case["mods"]
    files = {}
    file_of = {}
    have_init = set()
    for mod in mods:
        rel = relfile(mod["path"])
        files[rel] = render_mod(mod, mods)
        file_of[pydotted(mod["path"])] = rel
        if mod["path"][-1] == "__init__":
            have_init.add(tuple(mod["path"][:-1]))
    for p in packages_of(case):
        if tuple(p) not in have_init:
            rel = relfile(p + ["__init__"], ".py" if case.get("init_py") else ".hy")
            files[rel] = ""
            file_of[pydotted(p)] = rel
    main = case["main"]
    lines = [";; generated module " + pydotted(main["path"])]
    for i, it in enumerate(main["items"]):
        lines.extend(render_item(i, it, mods, main["path"]))
    rel = relfile(main["path"])
    files[rel] = "\n".join(lines) + "\n"
    file_of[pydotted(main["path"])] = rel
    return dict(files=files, modules=sorted(file_of), file_of=file_of, main=pydotted(main["path"]))


def expectations(case):
    """what the model says: {"zuN"/"zp_N": canon} for the main module, plus the external probes [(src, canon)]"""
    exp = {}
    for i, it in enumerate(case["main"]["items"]):
        if it["t"] == "use":
            key = ("zu%d" if it["style"] in ("top", "rt-top", "getmacro", "reader-top", "hyR-top") else "zp_%d") % i
            exp[key] = it["expect"]
        elif it["t"] == "localreq":
            exp["zp_%d" % i] = ["list", it["expect"], it["expect"]]
    return exp


POLY = '0; R = "py:%d"\n#_ 0 (setv R "hy:%d")\n'


def render_ext_case(case):
    """A text that is a program in both languages: Python sees `0; R = "py:N"` and a comment; Hy sees `0`, a comment, a discarded form
    and `(setv R "hy:M")`.  So R tells which compiler handled the file."""
    return POLY % (case["pyval"], case["hyval"])


# ----------------------------------------------------------------------------- generator


def gen_values(draw, st, i):
    """forms defining public values of several kinds (constants survive marshal, functions, classes, models built at run time)"""
    k = draw(st.integers(0, 11))
    n = draw(st.integers(-3, 40))
    if k == 0:
        return ["(setv zc%d %d)" % (i, draw(st.sampled_from([0, -1, 2**31, 2**64 + 1, -(2**70), 10**30, n])))]
    if k == 1:
        return ["(setv zc%d %s)" % (i, draw(st.sampled_from(["NaN", "Inf", "-Inf", "-0.0", "1e300", "2.5", "5e-324", "3+4j", "-0.0j", "1e16"])))]
    if k == 2:
        s = draw(st.text(max_size=12))
        return ["(setv zc%d %s)" % (i, hystr(s))]
    if k == 3:
        b = draw(st.binary(max_size=8))
        return ['(setv zc%d b"%s")' % (i, "".join("\\x%02x" % c for c in b))]
    if k == 4:
        return ["(setv zc%d [:kw-%d '(a [b 1.5] \"s\" :k #{%d} #(1 2)) 'sym-%d])" % (i, n, n, n)]
    if k == 5:
        return ['(setv zc%d [%d #(2 "x" None) {"k" [3 True] %d #{4 5}} #{"a" "b" %d} (frozenset [1 %d])])' % (i, n, n, n, n)]
    if k == 6:
        return ['(setv zc%d f"v={(+ 1 %d)}:{%d :>5}:{%d !r}")' % (i, n, n, n)]
    if k == 7:
        return ['(defn zf%d [a [b %d] * [k "s%d"]] "doc %d" (+ a b))' % (i, n, n, n), "(setv zc%d (zf%d 1))" % (i, i)]
    if k == 8:
        return ['(defclass ZK%d [] "cls doc" (setv attr %d) (defn meth [self [q #(1 %d)]] (* %d 2)))' % (i, n, n, n), "(setv zc%d (.meth (ZK%d)))" % (i, i)]
    if k == 9:
        return ["(setv zc%d (lfor x (range %d) :if (%% x 2) (* x x)))" % (i, abs(n) % 9)]
    if k == 10:
        return ["(import math [floor :as zfl%d] os.path :as zop%d)" % (i, i), "(setv zc%d (zfl%d %d.5))" % (i, i, n)]
    return ["(setv [za%d #* zb%d] [%d 2 3])" % (i, i, n), "(setv zc%d (if (> za%d 3) (let [q za%d] (* q 2)) (try (/ 1 0) (except [e ZeroDivisionError] \"z\"))))" % (i, i, i)]


def gen_entry(draw, st, mods, tabs, frm, taken, allow_local_shapes=False, taken_readers=()):
    """One require entry of a random documented shape whose new names do not collide with `taken`. Returns (entry, new names) or None."""
    mi = draw(st.integers(0, len(mods) - 1))
    mod, tab = mods[mi], tabs[mi]
    shapes = ["bare", "as", "names", "names", "star"]
    pkg = mod["path"][:-1]
    pkg_has_macros = any(m["path"] == pkg + ["__init__"] for m in mods)
    if mod["path"][-1] != "__init__" and pkg and not pkg_has_macros:
        shapes.append("sub")
    if tab["readers"] and not allow_local_shapes:
        shapes.append("none")
    if not tab["macros"]:
        shapes = ["none"] if tab["readers"] and not allow_local_shapes else []
    if not shapes:
        return None
    shape = draw(st.sampled_from(shapes))
    if shape == "sub" and allow_local_shapes and "local-sub" in EXCLUDE:
        EXCLUDED[0] += 1
        shape = "as"
    e = dict(mod=mi, rel=False, shape=shape, alias=None, names=[], kw=False, readers=None, rfirst=False)
    if not allow_local_shapes and rel_ok(shape, mod["path"], frm, mods) and draw(st.booleans()):
        e["rel"] = True
    if shape in ("as", "sub"):
        e["alias"] = draw(st.sampled_from(ALIASES)) if shape == "as" or draw(st.booleans()) else None
    if shape == "names":
        pool = sorted(n for n in tab["macros"] if "." not in n)  # a dotted name is not a symbol inside the brackets
        if not pool:
            return None
        chosen = draw(st.lists(st.sampled_from(pool), min_size=1, max_size=min(3, len(pool)), unique=True))
        for n in chosen:
            a = draw(st.sampled_from(ALIASES + MACRO_NAMES[:6])) if draw(st.integers(0, 2)) == 0 else None
            e["names"].append([n, a])
        if draw(st.integers(0, 2)) == 0:
            # the same macro once more under another name: [m :as x m :as y] / [m m :as y]
            n = draw(st.sampled_from(chosen))
            used = {(a or m) for m, a in e["names"]}
            free = [a for a in ALIASES + MACRO_NAMES[:6] if a not in used]
            if free:
                e["names"].insert(draw(st.integers(0, len(e["names"]))), [n, draw(st.sampled_from(free))])
    if shape in ("names", "star"):
        e["kw"] = draw(st.booleans())
    if tab["readers"] and not allow_local_shapes and (shape == "none" or (shape not in ("bare", "sub") and draw(st.integers(0, 2)) == 0)):
        if draw(st.booleans()):
            e["readers"] = "*"
        else:
            e["readers"] = draw(st.lists(st.sampled_from(sorted(tab["readers"])), min_size=1, max_size=2, unique=True))
        e["rfirst"] = draw(st.booleans())
    new = apply_entry(e, mods, tabs)
    if set(apply_readers(e, mods, tabs)) & set(taken_readers):
        return None  # no reader macro name is bound twice in one module (same reason as for macro names)
    if shape != "none" and not new:
        return None
    if len(set(new)) != len(new) or any(n in taken for n in new):
        return None
    if shape == "names" and len({(a or n) for n, a in e["names"]}) != len(e["names"]):
        return None
    return e, new


def gen_import_case(draw, with_prog=None):
    from hypothesis import strategies as st

    top = draw(st.sampled_from(PKG_NAMES))
    sub = draw(st.sampled_from(SUB_NAMES))
    locs = [[top], [top], [top, sub], []]
    nm = draw(st.integers(1, 3))
    names = draw(st.lists(st.sampled_from(MOD_NAMES), min_size=nm, max_size=nm, unique=True))
    mods = []
    tabs = []
    for k, name in enumerate(names):
        loc = draw(st.sampled_from(locs))
        last = name
        if loc and draw(st.integers(0, 7)) == 0 and not any(m["path"] == loc + ["__init__"] for m in mods) and not any(
            m["path"][:-1] == loc for m in mods
        ):
            last = "__init__"
        macs = draw(st.lists(st.sampled_from(MACRO_NAMES), min_size=0 if k else 1, max_size=4, unique=True))
        macros = [[n, draw(st.sampled_from([0, 0, 1, 2, 3, 4]))] for n in macs]
        readers = draw(st.lists(st.sampled_from(READER_NAMES), max_size=2, unique=True)) if draw(st.integers(0, 2)) == 0 else []
        mod = dict(path=loc + [last], macros=macros, readers=readers, reqs=[], export=None)
        if mods and draw(st.integers(0, 2)) == 0:
            got = gen_entry(draw, st, mods, tabs, mod["path"], set(n for n, _ in macros), taken_readers=set(readers))
            if got is not None:
                mod["reqs"].append(got[0])
        mods.append(mod)
        full = tables(mods)
        tabs = full
        allnames = sorted(tabs[-1]["macros"])
        if allnames and draw(st.integers(0, 3)) == 0:
            ex = draw(st.lists(st.sampled_from(allnames), min_size=1, max_size=3, unique=True))
            style = draw(st.sampled_from(["export", "setv"]))
            if any("." in n for n in ex):
                style = "setv"  # (export :macros [a.b]) cannot spell a prefixed name
            mod["export"] = dict(style=style, names=ex)
            tabs = tables(mods)
    # a package whose __init__ carries macros cannot be used with the "sub" shape; gen_entry checks that
    mainloc = draw(st.sampled_from(locs))
    mainname = draw(st.sampled_from(MAIN_NAMES))
    frm = mainloc + [mainname]
    items = []
    env = {}  # call name -> (info, usable)
    renv = {}
    nitems = draw(st.integers(3, 9))
    have_rt = False
    force_ruse = False
    for i in range(nitems):
        choices = ["require", "require", "val"]
        if env:
            choices += ["use"] * 4
        if renv:
            choices += ["ruse"] * 4
        choices += ["hyR", "localreq", "own"]
        c = draw(st.sampled_from(choices))
        if force_ruse and renv:
            c = "ruse"
        force_ruse = False
        if i == 0:
            c = "require"
        if i == nitems - 1 and env and not have_rt:
            c = "use"
        if c == "require":
            entries = []
            taken = set(env)
            for _ in range(draw(st.sampled_from([1, 1, 1, 2, 3]))):
                got = gen_entry(draw, st, mods, tabs, frm, taken, taken_readers=set(renv))
                if got is None:
                    continue
                e, new = got
                entries.append(e)
                taken |= set(new)
                for n, info in new.items():
                    env[n] = (info, usable(e, mods, tabs, n))
                if apply_readers(e, mods, tabs):
                    force_ruse = draw(st.integers(0, 2)) > 0
                renv.update(apply_readers(e, mods, tabs))
            if entries:
                items.append(dict(t="require", entries=entries))
            else:
                items.append(dict(t="val", forms=gen_values(draw, st, i)))
        elif c == "val":
            items.append(dict(t="val", forms=gen_values(draw, st, i)))
        elif c == "own":
            name = "own-%d" % i
            items.append(dict(t="own", name=name))
            env[name] = (dict(tag="own:" + name, kind=0, module=pydotted(frm)), True)
        elif c == "use":
            cands = sorted(n for n in env if env[n][1])
            if not cands:
                items.append(dict(t="val", forms=gen_values(draw, st, i)))
                continue
            call = draw(st.sampled_from(cands))
            info = env[call][0]
            style = draw(st.sampled_from(["top", "fn", "rt", "rt", "rtread", "rt-top", "getmacro"]))
            if i == nitems - 1 and not have_rt:
                style = "rt"
            args = [draw(st.integers(-5, 99))]
            if info["kind"] == 1:
                args += draw(st.lists(st.integers(0, 9), max_size=3))
            if style == "getmacro":
                items.append(dict(t="use", style=style, call=call, args=[], expect="str:" + info["module"]))
            else:
                items.append(dict(t="use", style=style, call=call, args=args, expect=expect_of(info, args)))
                have_rt = have_rt or style in ("rt", "rtread")
        elif c == "ruse":
            r = draw(st.sampled_from(sorted(renv)))
            arg = draw(st.integers(0, 99))
            style = draw(st.sampled_from(["reader-top", "reader-rt"]))
            items.append(dict(t="use", style=style, call=r, args=[arg], expect=expect_reader(renv[r], arg)))
        elif c == "hyR":
            cands = [(mi, n) for mi, m in enumerate(mods) for n in own_table(m)]
            if not cands:
                items.append(dict(t="val", forms=gen_values(draw, st, i)))
                continue
            mi, n = draw(st.sampled_from(cands))
            info = own_table(mods[mi])[n]
            p = mods[mi]["path"]
            call = "hy.R.%s.%s" % ("/".join(p[:-1] if p[-1] == "__init__" else p), n)
            args = [draw(st.integers(-5, 99))] + ([7] if info["kind"] == 1 else [])
            items.append(dict(t="use", style=draw(st.sampled_from(["hyR-top", "hyR-rt"])), call=call, args=args, expect=expect_of(info, args)))
        elif c == "localreq":
            got = gen_entry(draw, st, mods, tabs, frm, set(), allow_local_shapes=True)
            if got is None or got[0]["shape"] == "none":
                items.append(dict(t="val", forms=gen_values(draw, st, i)))
                continue
            e, new = got
            cands = sorted(n for n in new if usable(e, mods, tabs, n))
            if not cands:
                items.append(dict(t="val", forms=gen_values(draw, st, i)))
                continue
            call = draw(st.sampled_from(cands))
            info = new[call]
            args = [draw(st.integers(-5, 99))] + ([1, 2] if info["kind"] == 1 else [])
            items.append(dict(t="localreq", entry=e, call=call, args=args, expect=expect_of(info, args)))
    if with_prog is not None:
        items.append(dict(t="prog", src=with_prog))
    ext_probes = []
    cands = sorted(n for n in env if env[n][1])
    for call in cands[: draw(st.integers(0, 2))]:
        info = env[call][0]
        args = [draw(st.integers(100, 199))] + ([0] if info["kind"] == 1 else [])
        ext_probes.append([call_text(call, args), expect_of(info, args)])
    return dict(
        kind="import",
        mods=mods,
        main=dict(path=frm, items=items),
        drop=draw(st.sampled_from(["all", "all", "main", "process"])),
        init_py=draw(st.integers(0, 3)) == 0,
        ext_probes=ext_probes,
    )


EXTS = ["", ".hy", ".txt", ".hyx", ".py", ".PY", ".Py", ".pyw", ".pyi", ".p", ".pyy", ".py3", ".hy.py", ".py.hy", ".py.txt", ".tar.py", ".lisp", ".h", ".y", ". py", ".py "]


def gen_ext_case(draw):
    from hypothesis import strategies as st

    ext = draw(st.one_of(st.sampled_from(EXTS), st.sampled_from(["", ".py", ".py", ".hy"]),
                         st.text(alphabet="pyhYPx._-1", min_size=1, max_size=4).map(lambda s: "." + s)))
    stem = draw(st.sampled_from(["prog", "my-script", "py-thing", "hy-thing", "a.py", "x.hy", "run_me"]))
    dirname = draw(st.sampled_from(["d", "dir.py", "src.hy", "x.y"]))
    return dict(kind="ext", stem=stem, ext=ext, dirname=dirname, hyval=draw(st.integers(0, 999)), pyval=draw(st.integers(0, 999)))


# ----------------------------------------------------------------------------- validity (for shrinking and replay)


def invalid(case):
    """None if the case is one the generator could have produced (every use refers to a name the model says is in scope, with the value the
    model predicts); otherwise a reason.  Shrinking only moves between valid cases, and replaying refuses an invalid one."""
    try:
        if case.get("kind") == "ext":
            for k in ("stem", "ext", "dirname", "hyval", "pyval"):
                if k not in case:
                    return "ext case lacks " + k
            if not case["stem"] or "/" in case["stem"] + case["ext"] + case["dirname"] or "\x00" in case["stem"] + case["ext"]:
                return "bad file name"
            return None
        mods = case["mods"]
        seen = []
        for k, mod in enumerate(mods):
            if mod["path"] in seen:
                return "duplicate module path"
            seen.append(mod["path"])
            if len({n for n, _ in mod["macros"]}) != len(mod["macros"]):
                return "duplicate macro"
            for e in mod["reqs"]:
                if not 0 <= e["mod"] < k:
                    return "re-export of a later module"
        tabs = tables(mods)
        frm = case["main"]["path"]
        if frm in seen:
            return "main module path clashes"

        def entry_ok(e, frm, local=False):
            tab = tabs[e["mod"]]
            target = mods[e["mod"]]["path"]
            if e["shape"] == "names":
                if not e["names"] or any(n not in tab["macros"] or "." in n for n, _ in e["names"]):
                    return False
            if e["shape"] == "as" and not e["alias"]:
                return False
            if e["shape"] == "sub":
                if target[-1] == "__init__" or len(target) < 2 or any(m["path"] == target[:-1] + ["__init__"] for m in mods):
                    return False
            if e.get("readers") not in (None, "*") and any(r not in tab["readers"] for r in e["readers"]):
                return False
            if e["shape"] == "none" and e.get("readers") is None:
                return False
            if e["shape"] in ("bare", "sub") and e.get("readers") is not None:
                return False
            if local and (e.get("rel") or e.get("readers") is not None):
                return False
            if e.get("rel") and not rel_ok(e["shape"], target, frm, mods):
                return False
            if e["shape"] != "none" and not apply_entry(e, mods, tabs):
                return False
            return True

        for k, mod in enumerate(mods):
            taken = set(own_table(mod))
            for e in mod["reqs"]:
                if not entry_ok(e, mod["path"]):
                    return "bad re-export entry"
                new = apply_entry(e, mods, tabs)
                if taken & set(new):
                    return "re-export collides"
                taken |= set(new)
                if set(apply_readers(e, mods, tabs)) & set(mod["readers"]):
                    return "re-exported reader macro collides"
            ex = mod.get("export")
            if ex is not None and (not ex["names"] or any(n not in tabs[k]["macros"] for n in ex["names"])):
                return "export of an unknown macro"
            if ex is not None and ex["style"] == "export" and any("." in n for n in ex["names"]):
                return "export macro with a dotted name"
        env, renv = {}, {}
        for i, it in enumerate(case["main"]["items"]):
            t = it["t"]
            if t == "require":
                if not it["entries"]:
                    return "empty require"
                for e in it["entries"]:
                    if not entry_ok(e, frm):
                        return "bad require entry"
                    new = apply_entry(e, mods, tabs)
                    if set(new) & set(env):
                        return "macro name brought in twice"
                    for n, info in new.items():
                        env[n] = (info, usable(e, mods, tabs, n))
                    if set(apply_readers(e, mods, tabs)) & set(renv):
                        return "reader macro name brought in twice"
                    renv.update(apply_readers(e, mods, tabs))
            elif t == "own":
                if it["name"] in env:
                    return "own macro collides"
                env[it["name"]] = (dict(tag="own:" + it["name"], kind=0, module=pydotted(frm)), True)
            elif t == "localreq":
                e = it["entry"]
                if not entry_ok(e, frm, local=True):
                    return "bad local require"
                new = apply_entry(e, mods, tabs)
                if it["call"] not in new or not usable(e, mods, tabs, it["call"]) or it["expect"] != expect_of(new[it["call"]], it["args"]):
                    return "local use not predicted by the model"
            elif t == "use":
                s = it["style"]
                if s in ("reader-top", "reader-rt"):
                    if it["call"] not in renv or it["expect"] != expect_reader(renv[it["call"]], it["args"][0]):
                        return "reader use not predicted by the model"
                elif s in ("hyR-top", "hyR-rt"):
                    hit = None
                    for m in mods:
                        p = m["path"]
                        for n, info in own_table(m).items():
                            if it["call"] == "hy.R.%s.%s" % ("/".join(p[:-1] if p[-1] == "__init__" else p), n):
                                hit = info
                    if hit is None or it["expect"] != expect_of(hit, it["args"]):
                        return "hy.R use not predicted by the model"
                else:
                    if it["call"] not in env or not env[it["call"]][1]:
                        return "use of a name that is not in scope"
                    info = env[it["call"]][0]
                    want = "str:" + info["module"] if s == "getmacro" else expect_of(info, it["args"])
                    if it["expect"] != want:
                        return "use not predicted by the model"
            elif t not in ("val", "prog"):
                return "unknown item"
        for src, want in case.get("ext_probes", []):
            call = src[1:].split(" ")[0]
            args = [int(a) for a in src[:-1].split(" ")[1:]]
            if call not in env or not env[call][1] or want != expect_of(env[call][0], args):
                return "outside probe not predicted by the model"
        if case["drop"] not in ("all", "main", "process"):
            return "bad drop"
        return None
    except (KeyError, IndexError, TypeError, ValueError, AttributeError) as e:
        return "malformed case: %r" % (e,)
