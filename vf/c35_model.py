"""C35: histories of defmacro / require / pragma over nested scopes -- reference model, Hy rendering, execution.

A case is JSON:

    {"helpers": [H0, H1], "ops": [op, ...]}            (optional "focus": bucket, see check())

    H  = {"macros": [name, ...],          macros the helper module defines, in this order (each expands to its own integer)
          "export": null | [name, ...],   _hy_export_macros (absent / the mangled names of this list)
          "via": "setv" | "export",       how the export list is written
          "quiet": bool}                  helper starts with (pragma :warn-on-core-shadow False)

    op = ["def", name]                    (defmacro name [#* a] <fresh integer>) in the current scope
       | ["open", kind] | ["close"]       kind: a macro scope (defn fn class lfor lfor-do sfor gfor dfor) or a plain block
                                          (do let for) that is not one
       | ["req", [entry, ...]]            one (require ...) form; entry = {"h": 0|1, "shape": bare|as|names|star|none,
                                          "prefix": P, "names": [[name, alias|null], ...], "kw": bool (:macros written),
                                          "readers": null|"star"|"list"}
       | ["pragma", bool]                 (pragma :warn-on-core-shadow b)
       | ["call", null | [name, ...]]     record the value of (name True _K) for these names (null: every name of the case)
       | ["eval", null | [name, ...], mode, [key, ...]]
                                          record (hy.eval '(name True _K) :macros M); mode none: no M, dict: M maps the keys
                                          to fresh integers' macros, local: M = (local-macros)
       | ["snap"]                         record (sorted (.keys (local-macros)))

Names are symbolic: only names of the fixed vocabulary below are accepted, anything else makes the op void (so a shrunk
case stays meaningful).  "$0.m1" stands for <helper module 0>.m1.

The reference model knows nothing of Hy's implementation: it keeps one dictionary per macro scope, the module's
dictionary and the set of core names, and resolves a call by the documented precedence.
"""
import importlib
import itertools
import os
import re
import shutil
import sys
import tempfile
import warnings

BASE = ["m1", "m2", "_u", "m-x", "when", "is-not"]
ALIASES = ["x", "y", "a-b"]
NAMES = set(BASE + ALIASES + ["m_x", "is_not", "a_b"])
PREFIXES = ["P", "D", "p-q", "p_q"]
REAL = ["defn", "fn", "class", "lfor", "lfor-do", "sfor", "gfor", "dfor"]
PLAIN = ["do", "let", "for"]
SHAPES = ["bare", "as", "names", "star", "none"]
INNER_VALUE = 77  # what the local macro defined inside evaluated code expands to
MODES = ["none", "dict", "local", "dict+inner"]  # dict+inner: macros= dict, and the evaluated code defines a local macro of the same name itself
# (NAME True _K) with _K = -1 for the two pooled core macros
CORE = {"when": -1, "is_not": "bool:True"}
K_VALUE = -1


def mangle(s):
    from hy.reader.mangling import mangle as m

    return m(s)


def valid_simple(n):
    return isinstance(n, str) and n in NAMES


def valid_call_name(n):
    if not isinstance(n, str):
        return False
    if "." not in n:
        return valid_simple(n)
    p, _, r = n.partition(".")
    return (p in PREFIXES or p in ("$0", "$1")) and valid_simple(r)


def key_of(name):
    """model key of a Hy name: the mangled name, with the helper placeholder kept symbolic"""
    if name.startswith("$"):
        p, _, r = name.partition(".")
        return "@" + p[1:] + "." + mangle(r)
    return mangle(name)


def spell(key):
    """a Hy spelling of a model key"""
    return "$" + key[1:] if key.startswith("@") else key


# ---------------------------------------------------------------------------------------------------------
# normalisation


def norm_helper(h):
    if not isinstance(h, dict):
        h = {}
    macros = []
    for m in h.get("macros") or []:
        if valid_simple(m) and mangle(m) not in [mangle(x) for x in macros]:
            macros.append(m)
    exp = h.get("export")
    if isinstance(exp, list):
        exp = [e for e in exp if valid_simple(e) and mangle(e) in [mangle(x) for x in macros]]
    else:
        exp = None
    return dict(macros=macros, export=exp, via="export" if h.get("via") == "export" else "setv", quiet=bool(h.get("quiet")))


def norm_entry(e, helpers):
    if not isinstance(e, dict) or e.get("h") not in (0, 1) or e.get("shape") not in SHAPES:
        return None
    h = helpers[e["h"]]
    out = dict(h=e["h"], shape=e["shape"], kw=bool(e.get("kw")), readers=e.get("readers") if e.get("readers") in ("star", "list") else None)
    if out["shape"] == "as":
        if e.get("prefix") not in PREFIXES:
            return None
        out["prefix"] = e["prefix"]
    if out["shape"] == "names":
        names = []
        have = [mangle(m) for m in h["macros"]]
        for pair in e.get("names") or []:
            if not (isinstance(pair, list) and len(pair) == 2):
                continue
            n, a = pair
            if not valid_simple(n) or mangle(n) not in have:
                continue  # requiring a macro the module lacks is an error, not part of this property
            if a is not None and not valid_simple(a):
                continue
            names.append([n, a])
        out["names"] = names  # may be empty: (require m [])
    if out["shape"] == "none" and out["readers"] is None:
        return None
    if out["shape"] == "bare":
        out["kw"] = False  # (require m :macros) is not a form
    return out


def normalise(case):
    """-> (helpers, ops): void ops dropped, scopes balanced"""
    hs = case.get("helpers") if isinstance(case, dict) else None
    hs = list(hs) if isinstance(hs, list) else []
    while len(hs) < 2:
        hs.append({})
    helpers = [norm_helper(h) for h in hs[:2]]
    ops = []
    depth = 0
    for op in case.get("ops") or []:
        if not isinstance(op, list) or not op:
            continue
        k = op[0]
        if k == "def" and len(op) == 2 and valid_simple(op[1]):
            ops.append(["def", op[1]])
        elif k == "open" and len(op) == 2 and op[1] in REAL + PLAIN and depth < 6:
            ops.append(["open", op[1]])
            depth += 1
        elif k == "close" and depth > 0:
            ops.append(["close"])
            depth -= 1
        elif k == "req" and len(op) == 2 and isinstance(op[1], list):
            ents = [x for x in (norm_entry(e, helpers) for e in op[1]) if x is not None]
            if ents:
                ops.append(["req", ents])
        elif k == "pragma" and len(op) == 2 and isinstance(op[1], bool):
            ops.append(["pragma", op[1]])
        elif k == "call" and len(op) == 2:
            names = op[1]
            if names is not None:
                if not isinstance(names, list):
                    continue
                names = list(dict.fromkeys(n for n in names if valid_call_name(n)))
                if not names:
                    continue
            ops.append(["call", names])
        elif k == "eval" and len(op) == 4 and op[2] in MODES and isinstance(op[3], list):
            names = op[1]
            if names is not None:
                if not isinstance(names, list):
                    continue
                names = list(dict.fromkeys(n for n in names if valid_call_name(n)))
                if not names:
                    continue
            keys = []
            for n in op[3]:
                if valid_call_name(n) and key_of(n) not in [key_of(x) for x in keys]:
                    keys.append(n)
            if op[2] == "dict+inner":
                # the evaluated code defines the called names as local macros: plain, non-core, non-dotted names only
                names = [n for n in (names or []) if "." not in n and key_of(n) not in CORE]
                if not names:
                    continue
            ops.append(["eval", names, op[2], keys if op[2] in ("dict", "dict+inner") else []])
        elif k == "snap" and len(op) == 1:
            ops.append(["snap"])
    ops.extend(["close"] for _ in range(depth))
    return helpers, ops


# ---------------------------------------------------------------------------------------------------------
# documented name sets of require


def helper_value(hi, j):
    return 100 * (hi + 1) + j + 1


def exported(h):
    """names (require m *) collects: _hy_export_macros if set, else every macro whose mangled name has no leading underscore"""
    if h["export"] is not None:
        ex = {mangle(e) for e in h["export"]}
        return [m for m in h["macros"] if mangle(m) in ex]
    return [m for m in h["macros"] if not mangle(m).startswith("_")]


def required_names(entry, helpers, prefix_filtered=False):
    """-> [(model key, value, how, exported?)] in the order the names are brought in.
    prefix_filtered=True is the *defect model* (prefixed requires skip what * would skip), used only to recognise that root cause."""
    hi = entry["h"]
    h = helpers[hi]
    val = {mangle(m): helper_value(hi, j) for j, m in enumerate(h["macros"])}
    ex = {mangle(m) for m in exported(h)}
    out = []
    shape = entry["shape"]
    if shape in ("bare", "as"):
        pre = "@%d" % hi if shape == "bare" else mangle(entry["prefix"])
        for m in h["macros"]:
            if prefix_filtered and mangle(m) not in ex:
                continue
            out.append((pre + "." + mangle(m), val[mangle(m)], "require-" + shape, mangle(m) in ex))
    elif shape == "star":
        for m in exported(h):
            out.append((mangle(m), val[mangle(m)], "require-star", True))
    elif shape == "names":
        for n, a in entry["names"]:
            out.append((mangle(a if a is not None else n), val[mangle(n)], "require-alias" if a is not None else "require-name", mangle(n) in ex))
    return out


# ---------------------------------------------------------------------------------------------------------
# the reference model


def label(b):
    """namespace kind + construct that made the binding: the root-cause proxy of a lost definition"""
    if b is None:
        return "none"
    where = "module" if b["frame"].kind == "module" else "local"
    flag = "(not-exported)" if not b["exported"] and b["how"] in ("require-bare", "require-as") else ""
    return "%s:%s%s" % (where, b["how"], flag)


class Frame:
    def __init__(self, kind, opi, parent=None):
        self.kind = kind
        self.opi = opi
        self.parent = parent
        self.macros = {}  # key -> binding
        self.pragma = None
        self.ever = set()
        self.closed_at = None


def build(case, prefix_filtered=False):
    """Run the reference model over the case. -> plan (dict) with everything the renderer and the comparison need."""
    helpers, ops = normalise(case)
    module = Frame("module", -1)
    stack = [module]  # macro scopes only
    blocks = []  # every open construct: True if it is a macro scope
    allb = {}  # key -> [binding, ...] every binding ever made (for explaining a wrong value)
    expect = {}  # record id -> expected value
    info = {}  # record id -> dict(want=label, name, opi, phase)
    warn = []  # expected core-shadow warnings, in compile order
    classes = set()
    stats = dict(nontrivial=False, closed=0, pragma_false_closed=False)
    at = []  # per op: dict(level, stack snapshot ...) for the second phase
    pending_local = []  # (opi, frames) for eval-local / snap ops: safety decided after the walk
    universe = set(BASE)
    frames = []  # every macro scope of the history

    def pragma_on():
        for d, f in enumerate(reversed(stack)):
            if f.pragma is not None:
                if d > 0:
                    classes.add("pragma:setting of an enclosing scope applies (%s)" % f.pragma)
                return f.pragma
        if stats["pragma_false_closed"]:
            classes.add("pragma:back to the default after a scope with False closed")
        return True

    def bind(frame, key, value, how, exp, opi):
        b = dict(key=key, v=value, how=how, exported=exp, frame=frame, opi=opi, live=True)
        old = frame.macros.get(key)
        if old is not None:
            old["live"] = False
        frame.macros[key] = b
        frame.ever.add(key)
        allb.setdefault(key, []).append(b)
        universe.add(spell(key))
        if key in CORE:
            if pragma_on():
                warn.append(key)
                classes.add("warning:expected")
            else:
                classes.add("warning:silenced-by-pragma")
        return b

    for opi, op in enumerate(ops):
        k = op[0]
        here = dict(level="module" if len(stack) == 1 else "local", depth=len(stack) - 1)
        at.append(here)
        if k == "open":
            real = op[1] in REAL
            blocks.append(real)
            classes.add("scope:" + op[1] + ("@module" if len(stack) == 1 else "@nested"))
            if real:
                stack.append(Frame(op[1], opi, stack[-1]))
                frames.append(stack[-1])
        elif k == "close":
            if blocks.pop():
                f = stack.pop()
                f.closed_at = opi
                if f.pragma is False:
                    stats["pragma_false_closed"] = True
                stats["closed"] += 1
                for b in f.macros.values():
                    b["live"] = False
        elif k == "def":
            bind(stack[-1], mangle(op[1]), 1000 + opi, "defmacro", True, opi)
            classes.add("defmacro@" + here["level"])
            universe.add(op[1])
        elif k == "req":
            here["bound"] = []
            for e in op[1]:
                sh = e["shape"] + (":macros" if e["kw"] and e["shape"] != "none" else "") + ("+readers" if e["readers"] and e["shape"] != "none" else "")
                classes.add("require:%s@%s" % (sh, here["level"]))
                h = helpers[e["h"]]
                classes.add("helper:" + ("export-list" if h["export"] is not None else "default-exports"))
                for key, v, how, exp in required_names(e, helpers, prefix_filtered):
                    b = bind(stack[-1], key, v, how, exp, opi)
                    here["bound"].append(b)
                    if not exp:
                        classes.add("require:%s brings a name * would not" % e["shape"])
                if e["shape"] == "names":
                    for n, a in e["names"]:
                        if a is not None:
                            universe.add(a)
        elif k == "pragma":
            stack[-1].pragma = op[1]
            classes.add("pragma:%s@%s" % (op[1], here["level"]))
        elif k == "call":
            here["names"] = op[1]
            here["stack"] = list(stack)
        elif k == "eval":
            here["names"] = op[1]
            here["stack"] = list(stack)
            here["dict"] = {key_of(n): 100000 + opi * 100 + j for j, n in enumerate(op[3])}
            for n in op[3]:
                universe.add(n)
            if op[2] == "local":
                vis = {}
                for f in stack[1:]:
                    for key, b in f.macros.items():
                        vis[key] = b
                here["local"] = vis
                pending_local.append(opi)
        elif k == "snap":
            here["stack"] = list(stack)
            vis = {}
            for f in stack[1:]:
                vis.update(f.macros)
            here["snap"] = sorted(vis)
            here["snap_b"] = vis
            pending_local.append(opi)

    final_compile = dict(module.macros)

    # (local-macros) expands to a dictionary of *variables*; Python's own scoping (and Hy's way of sharing a comprehension's
    # variables with the enclosing function) decides what they hold at run time. They show the compile-time definitions when
    # no class scope lies below the innermost scope and no two scopes anywhere inside the outermost enclosing scope ever
    # define the same name. Other places are outside what is checked here (the op is void there).
    def inside(f, top):
        while f is not None:
            if f is top:
                return True
            f = f.parent
        return False

    skip = set()
    for opi in pending_local:
        fr = at[opi]["stack"][1:]
        ok = not any(f.kind == "class" for f in fr[:-1])
        if fr:
            seen = set()
            for f in frames:
                if inside(f, fr[0]):
                    if seen & f.ever:
                        ok = False
                    seen |= f.ever
        if not ok:
            skip.add(opi)
            classes.add("void:local-macros where Python scoping hides the variable")

    uni = sorted(universe)

    # phase 1 values: direct calls are expanded at compile time, in source order. Re-walk with the recorded stacks: the
    # bindings visible at op i are those made before i, so replay binding times.
    # (bindings carry their op index; a binding is visible at op i iff made at an op < i and not overwritten/closed before i.)
    def visible(frame, key, opi):
        best = None
        for b in allb.get(key, []):
            if b["frame"] is frame and b["opi"] < opi:
                best = b
        return best

    def resolve(stack_, key, opi):
        for d, f in enumerate(reversed(stack_[1:])):
            b = visible(f, key, opi)
            if b is not None:
                return b, ("local-innermost" if d == 0 else "local-outer")
        b = visible(module, key, opi)
        if b is not None:
            return b, "module"
        if key in CORE:
            return None, "core"
        return None, "none"

    def namespaces_with(key, opi):
        """how many namespaces have ever (before opi) defined key, and whether one of them is a closed scope"""
        fr = {}
        for b in allb.get(key, []):
            if b["opi"] < opi:
                fr[id(b["frame"])] = b["frame"]
        n = len(fr) + (1 if key in CORE else 0)
        closed = any(f.kind != "module" and f.closed_at is not None and f.closed_at < opi for f in fr.values())
        return n, closed

    run_mod = {k2: b for k2, b in final_compile.items()}  # phase 2: the module table as the run starts
    for opi, op in enumerate(ops):
        k = op[0]
        here = at[opi]
        if k == "call":
            for n in (here["names"] if here["names"] is not None else uni):
                key = key_of(n)
                b, hit = resolve(here["stack"], key, opi)
                rid = "%d:%s" % (opi, n)
                expect[rid] = b["v"] if b is not None else (CORE[key] if hit == "core" else "NameError")
                nns, closed = namespaces_with(key, opi)
                info[rid] = dict(kind="call", name=n, key=key, opi=opi, want=label(b) if b is not None else hit, hit=hit, stack=here["stack"])
                classes.add("call->" + hit)
                if nns >= 2:
                    classes.add("call:name known to >=2 namespaces")
                    if closed:
                        classes.add("call:name of a closed scope, known to >=2 namespaces")
                        stats["nontrivial"] = True
                if hit in ("module", "core", "none") and closed:
                    classes.add("call:after its local definition ended -> " + hit)
        elif k in ("def", "req") and here["level"] == "module":
            if k == "def":
                for b in allb.get(mangle(op[1]), []):
                    if b["opi"] == opi:
                        run_mod[b["key"]] = b
            else:
                for b in here["bound"]:
                    run_mod[b["key"]] = b
        elif k == "eval":
            if op[2] == "local" and opi in skip:
                continue
            macros = {}
            if op[2] in ("dict", "dict+inner"):
                macros = {k2: dict(v=v, how="eval-macros", exported=True, frame=None) for k2, v in here["dict"].items()}
            elif op[2] == "local":
                macros = here["local"]
            for n in (here["names"] if here["names"] is not None else uni):
                key = key_of(n)
                rid = "%d:%s" % (opi, n)
                if key in macros:
                    b, hit = macros[key], "eval-macros"
                elif op[2] == "dict+inner":
                    # no entry in macros=: the local macro that the evaluated code itself defines is the innermost definition
                    b, hit = dict(v=INNER_VALUE), "inner-local"
                elif key in run_mod:
                    b, hit = run_mod[key], "module"
                elif key in CORE:
                    b, hit = None, "core"
                else:
                    b, hit = None, "none"
                expect[rid] = b["v"] if b is not None else (CORE[key] if hit == "core" else "NameError")
                # (a local macro handed over through (local-macros) is named by the construct that defined it)
                want = ("eval-macros:dict" if hit == "eval-macros" and op[2] in ("dict", "dict+inner") else
                        "local:defmacro-inside-the-evaluated-code" if hit == "inner-local" else (label(b) if b is not None else hit))
                info[rid] = dict(kind="eval", name=n, key=key, opi=opi, want=want, hit=hit, stack=here["stack"], run_mod=dict(run_mod))
                classes.add("eval(%s)->%s" % (op[2], hit))
                if hit == "eval-macros" and (key in run_mod or key in CORE):
                    classes.add("eval:macros shadow " + ("module" if key in run_mod else "core"))
                    stats["nontrivial"] = True
                lb, lhit = resolve(here["stack"], key, opi)
                if op[2] != "local" and lhit.startswith("local") and hit != "eval-macros":
                    classes.add("eval:local macro not seen -> " + hit)
                if hit == "module" and visible(module, key, opi) is not run_mod[key]:
                    classes.add("eval:module macro defined later in the file")
        elif k == "snap" and opi not in skip:
            rid = "%d:snap" % opi
            expect[rid] = here["snap"]
            info[rid] = dict(kind="snap", name="(local-macros)", key=None, opi=opi, want="local-names", hit="snap", stack=here["stack"], bindings=here["snap_b"])
            classes.add("snap@" + here["level"])

    hwarn = []
    for hi, h in enumerate(helpers):
        hwarn.append([] if h["quiet"] else [mangle(m) for m in h["macros"] if mangle(m) in CORE])
    return dict(helpers=helpers, ops=ops, expect=expect, info=info, warn=warn, final=sorted(final_compile), final_b=final_compile,
                classes=classes, stats=stats, skip=skip, universe=uni, allb=allb, helper_warn=hwarn, at=at)


# ---------------------------------------------------------------------------------------------------------
# rendering


def macro_src(name, value):
    return "(defmacro %s [#* a] %d)" % (name, value)


def render_helper(hi, h):
    lines = []
    if h["quiet"]:
        lines.append("(pragma :warn-on-core-shadow False)")
    for j, m in enumerate(h["macros"]):
        lines.append(macro_src(m, helper_value(hi, j)))
    lines.append("(defreader rd%d %d)" % (hi, 7 + hi))
    if h["export"] is not None:
        if h["via"] == "export":
            lines.append("(export :macros [%s])" % " ".join(h["export"]))
        else:
            lines.append("(setv _hy_export_macros [%s])" % " ".join('"%s"' % mangle(e) for e in h["export"]))
    return "\n".join(lines) + "\n"


def render_entry(e, modnames):
    m = modnames[e["h"]]
    parts = [m]
    kw = ":macros " if e["kw"] else ""
    if e["shape"] == "as":
        parts.append("%s:as %s" % (kw, e["prefix"]))
    elif e["shape"] == "star":
        parts.append(kw + "*")
    elif e["shape"] == "names":
        parts.append(kw + "[" + " ".join(n if a is None else "%s :as %s" % (n, a) for n, a in e["names"]) + "]")
    if e["readers"] == "star" and e["shape"] != "bare":
        parts.append(":readers *")
    elif e["readers"] == "list" and e["shape"] != "bare":
        parts.append(":readers [rd%d]" % e["h"])
    s = " ".join(parts)
    if e["readers"] and e["shape"] == "bare":
        # the documented way to get both: (require m  m :readers [r])
        s += " %s :readers %s" % (m, "*" if e["readers"] == "star" else "[rd%d]" % e["h"])
    return s


def hyname(n, modnames):
    if n.startswith("$"):
        p, _, r = n.partition(".")
        return modnames[int(p[1:])] + "." + r
    return n


def render_module(plan, modnames):
    ops = plan["ops"]
    out = ["(setv _LOG [])", "(setv _K %d)" % K_VALUE]
    ind = [0]
    closers = []

    def emit(s):
        out.append("  " * ind[0] + s)

    def rec(rid, form):
        emit('(.append _LOG ["%s" (try %s (except [_e NameError] "NameError"))])' % (rid, form))

    for opi, op in enumerate(ops):
        k = op[0]
        if k == "def":
            emit(macro_src(op[1], 1000 + opi))
        elif k == "req":
            emit("(require " + "  ".join(render_entry(e, modnames) for e in op[1]) + ")")
        elif k == "pragma":
            emit("(pragma :warn-on-core-shadow %s)" % op[1])
        elif k == "open":
            kind = op[1]
            head, tail = {
                "defn": ("(defn _f%d []" % opi, ["None)", "(_f%d)" % opi]),
                "fn": ("((fn []", ["None))"]),
                "class": ("(defclass _C%d []" % opi, [")"]),
                "lfor": ("(lfor _i [0] (do", ["0))"]),
                "lfor-do": ("(lfor _i [0] :do (do", ["None) 0)"]),
                "sfor": ("(sfor _i [0] (do", ["0))"]),
                "gfor": ("(list (gfor _i [0] (do", ["0)))"]),
                "dfor": ("(dfor _i [0] _i (do", ["0))"]),
                "do": ("(do", ["None)"]),
                "let": ("(let [_l 0]", ["None)"]),
                "for": ("(for [_i [0]]", ["None)"]),
            }[kind]
            emit(head)
            ind[0] += 1
            closers.append(tail)
        elif k == "close":
            tail = closers.pop()
            emit(tail[0])
            ind[0] -= 1
            for t in tail[1:]:
                emit(t)
        elif k == "call":
            for n in (op[1] if op[1] is not None else plan["universe"]):
                rec("%d:%s" % (opi, n), "(%s True _K)" % hyname(n, modnames))
        elif k == "eval":
            if op[2] == "local" and opi in plan["skip"]:
                continue
            if op[2] in ("dict", "dict+inner"):
                d = plan["at"][opi]["dict"]
                emit("(setv _D%d {%s})" % (opi, " ".join('"%s" (fn [#* a] %d)' % (hyname(spell(k2), modnames), v) for k2, v in d.items())))
                m = " :macros _D%d" % opi
            elif op[2] == "local":
                m = " :macros (local-macros)"
            else:
                m = ""
            for n in (op[1] if op[1] is not None else plan["universe"]):
                if op[2] == "dict+inner":
                    nm = hyname(n, modnames)
                    rec("%d:%s" % (opi, n), "(hy.eval '(do (defn _inner [] (defmacro %s [#* a] %d) (%s True _K)) (_inner))%s)" % (nm, INNER_VALUE, nm, m))
                else:
                    rec("%d:%s" % (opi, n), "(hy.eval '(%s True _K)%s)" % (hyname(n, modnames), m))
        elif k == "snap":
            if opi not in plan["skip"]:
                emit('(.append _LOG ["%d:snap" (sorted (.keys (local-macros)))])' % opi)
    return "\n".join(out) + "\n"


def sources(case):
    """Hy sources of a case with symbolic module names (for samples and reports)"""
    plan = build(case)
    names = ["HELPER0", "HELPER1"]
    return dict(helper0=render_helper(0, plan["helpers"][0]), helper1=render_helper(1, plan["helpers"][1]), module=render_module(plan, names))


# ---------------------------------------------------------------------------------------------------------
# execution

_counter = itertools.count()
WORKROOT = os.path.join(os.path.dirname(os.path.dirname(os.path.abspath(__file__))), ".work", "c35")
BACKTICKED = re.compile(r"`([^`]*)`")


def canon(v):
    if isinstance(v, bool):
        return "bool:%s" % v
    if isinstance(v, (int, str)) or v is None:
        return v
    if isinstance(v, (list, tuple)):
        return [canon(x) for x in v]
    return "other:" + type(v).__name__ + ":" + repr(v)[:60]


def shadow_warnings(ws):
    """RuntimeWarnings issued by Hy itself while the module was compiled and run: the generated programs give no other
    occasion for one. The macro's name is taken from the message when it is quoted there (None otherwise: the wording of the
    message is not part of the property)."""
    import hy

    hydir = os.path.dirname(os.path.abspath(hy.__file__))
    out = []
    for w in ws:
        if issubclass(w.category, RuntimeWarning) and os.path.abspath(w.filename).startswith(hydir):
            m = BACKTICKED.search(str(w.message))
            out.append(mangle(m.group(1)) if m else None)
    return out


def same_warnings(expected, actual):
    return len(expected) == len(actual) and all(a is None or a == e for e, a in zip(expected, actual))


def execute(plan):
    """Write the three modules, import them (helpers first), collect the observations. -> dict"""
    import hy  # noqa: F401  (installs the importer for .hy files)

    os.makedirs(WORKROOT, exist_ok=True)
    d = tempfile.mkdtemp(prefix="run-%d-" % os.getpid(), dir=WORKROOT)
    n = next(_counter)
    tag = "c35p%dn%d" % (os.getpid(), n)
    modnames = [tag + "ha", tag + "hb"]
    testname = tag + "t"
    obs = dict(modnames=modnames, error=None, log=None, final=None, warn=None, helper_warn=[])
    old_dwb = sys.dont_write_bytecode
    try:
        for hi in (0, 1):
            with open(os.path.join(d, modnames[hi] + ".hy"), "w") as f:
                f.write(render_helper(hi, plan["helpers"][hi]))
        src = render_module(plan, modnames)
        obs["source"] = src
        with open(os.path.join(d, testname + ".hy"), "w") as f:
            f.write(src)
        sys.dont_write_bytecode = True
        sys.path.insert(0, d)
        importlib.invalidate_caches()
        for hi in (0, 1):
            with warnings.catch_warnings(record=True) as ws:
                warnings.simplefilter("always")
                try:
                    importlib.import_module(modnames[hi])
                except Exception as e:  # the helper is plain defmacro forms: failing to load it is a finding, not a skip
                    obs["error"] = "helper %d: %s: %s" % (hi, type(e).__name__, str(e)[:300])
                    return obs
            obs["helper_warn"].append(shadow_warnings(ws))
        with warnings.catch_warnings(record=True) as ws:
            warnings.simplefilter("always")
            try:
                mod = importlib.import_module(testname)
            except Exception as e:
                obs["error"] = "%s: %s" % (type(e).__name__, str(e)[:600])
                obs["warn"] = shadow_warnings(ws)
                return obs
        obs["warn"] = shadow_warnings(ws)
        sym = {modnames[0]: "@0", modnames[1]: "@1"}

        def symbolic(keys):
            out = []
            for k in keys:
                p, dot, r = k.partition(".") if isinstance(k, str) else (k, "", "")
                out.append(sym[p] + dot + r if p in sym else k)
            return sorted(out)

        obs["log"] = [[rid, symbolic(v) if rid.endswith(":snap") and isinstance(v, list) else canon(v)] for rid, v in mod._LOG]
        obs["final"] = symbolic(mod._hy_macros)
        return obs
    finally:
        sys.dont_write_bytecode = old_dwb
        if d in sys.path:
            sys.path.remove(d)
        sys.path_importer_cache.pop(d, None)
        for m in modnames + [testname]:
            sys.modules.pop(m, None)
        shutil.rmtree(d, ignore_errors=True)


# ---------------------------------------------------------------------------------------------------------
# comparison


def explain(plan, inf, actual):
    """where does the value Hy produced come from, according to the model? -> (class, needs_want)
    The class is the root-cause proxy of the bucket: the kind of namespace whose definition was used instead."""
    if actual == "NameError":
        return "no-macro", True
    key = inf["key"]
    if key in CORE and actual == CORE[key]:
        return "core", True
    if isinstance(actual, int):
        for b in plan["allb"].get(key, []):
            if b["v"] == actual:
                f = b["frame"]
                later = "(defined-later)" if b["opi"] > inf["opi"] else ""
                if f.kind == "module":
                    return "module" + later, True
                if f not in inf["stack"]:
                    if f.closed_at is None or f.closed_at > inf["opi"]:
                        return "scope-not-enclosing(%s)" % f.kind, False
                    return "closed-scope(%s)" % f.kind, False
                if f is not inf["stack"][-1]:
                    return "outer-local" + later, True
                return "innermost-local" + later, True
        if actual >= 100000:
            if inf["kind"] == "eval" and actual // 100 - 1000 == inf["opi"]:
                return "eval-macros", True
            return "eval-macros-of-another-call", False
        return "macro-of-another-name", True
    return "other", True


def compare(plan, obs):
    """-> list of (bucket, detail) for every disagreement, in a fixed order"""
    out = []
    if obs["error"] is not None:
        return [("module-did-not-load|" + re.sub(r"[^A-Za-z]+", "-", obs["error"].split(":")[0])[:40], dict(error=obs["error"]))]
    for hi in (0, 1):
        if not same_warnings(plan["helper_warn"][hi], obs["helper_warn"][hi]):
            out.append(("warnings|helper-module", dict(helper=hi, expected=plan["helper_warn"][hi], actual=obs["helper_warn"][hi])))
    got = {}
    for rid, v in obs["log"]:
        if rid in got:
            out.append(("record-ran-twice", dict(record=rid)))
        got[rid] = v
    for rid in plan["expect"]:  # insertion order = op order
        inf = plan["info"][rid]
        if rid not in got:
            out.append(("record-missing|" + inf["kind"], dict(record=rid)))
            continue
        e, a = plan["expect"][rid], got[rid]
        if e != a:
            if inf["kind"] == "snap":
                miss = [x for x in e if not isinstance(a, list) or x not in a]
                extra = [x for x in a if x not in e] if isinstance(a, list) else a
                bucket = "lost|" + label(inf["bindings"][miss[0]]) if miss else "local-macros|extra"
                out.append((bucket, dict(record=rid, expected=e, actual=a, missing=miss, extra=extra)))
            else:
                cls, _ = explain(plan, inf, a)
                if cls.split("(")[0] in ("closed-scope", "scope-not-enclosing", "eval-macros-of-another-call", "macro-of-another-name"):
                    bucket = "%s|stale:%s" % (inf["kind"], cls)  # a definition that should not be visible at all was used
                elif isinstance(e, int):
                    bucket = "lost|%s%s" % (inf["want"], "" if cls == "no-macro" else "|used=" + cls)  # the expected definition was not used
                else:
                    bucket = "%s|phantom:%s|want=%s" % (inf["kind"], cls, inf["want"])
                out.append((bucket, dict(record=rid, observed_by=inf["kind"], name=inf["name"], op=inf["opi"], expected=e, actual=a,
                                         expected_from=inf["want"], actual_from=cls)))
    for rid in got:
        if rid not in plan["expect"]:
            out.append(("record-unexpected", dict(record=rid)))
    if obs["final"] != plan["final"]:
        miss = [x for x in plan["final"] if x not in obs["final"]]
        extra = [x for x in obs["final"] if x not in plan["final"]]
        bucket = "lost|" + label(plan["final_b"][miss[0]]) if miss else "module-table|extra"
        out.append((bucket, dict(observed_by="final _hy_macros", expected=plan["final"], actual=obs["final"], missing=miss, extra=extra)))
    if not same_warnings(plan["warn"], obs["warn"]):
        e, a = plan["warn"], obs["warn"]
        kind = "missing" if len(a) < len(e) else ("extra" if len(a) > len(e) else "different")
        out.append(("warnings|" + kind, dict(expected=e, actual=a)))
    return out


def run(case):
    """-> (plan, obs, mismatches)"""
    plan = build(case)
    obs = execute(plan)
    return plan, obs, compare(plan, obs)
