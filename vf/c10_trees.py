"""C10 helpers, part 1: JSON model trees -> hy.models / Hy text, and the outcome oracle.

A tree node is a 2-element JSON list:
  ["sym", "x"]  ["kw", "a"]  ["int", 1]  ["float", "1.5"|"nan"|"inf"|"-inf"]  ["complex", "2j"]
  ["str", "s"]  ["bytes", "ab"] (latin-1 text of the bytes)
  ["expr", [...]]  ["list", [...]]  ["dict", [...]]  ["tuple", [...]]  ["set", [...]]
  ["fstr", [part...]]   part = ["str", s] | ["fcomp", [form, specpart...], conv]   conv = null | one character
A case is {"forms": [node...], "via": "models" | "text"}.

Everything here builds only what the reader can produce: symbols and keywords go through the
checked constructors (a dotted name like a.b or .m becomes the expression the reader makes of
it), so a node that no source text can denote is *invalid* (Invalid is raised), never a verdict.
"""
import ast
import contextlib
import io
import marshal
import math
import re
import signal
import types
import warnings


class Invalid(Exception):
    "the JSON does not denote a model tree that source text can denote"


SEQ = ("expr", "list", "dict", "tuple", "set")
_SYM_OK = re.compile(r"[^\s()\[\]{};\"'`~:#][^\s()\[\]{};\"'`~]*")


def same_model(a, b):
    "structural equality of two model trees (NaN equals NaN; f-string source text is not compared)"
    import hy.models as M

    if type(a) is not type(b):
        return False
    if isinstance(a, M.Sequence):
        if isinstance(a, M.FComponent) and a.conversion != b.conversion:
            return False
        return len(a) == len(b) and all(same_model(x, y) for x, y in zip(a, b))
    if isinstance(a, M.Float):
        return (math.isnan(a) and math.isnan(b)) or (float(a) == float(b) and math.copysign(1, a) == math.copysign(1, b))
    if isinstance(a, M.Complex):
        return repr(complex(a)) == repr(complex(b))
    if isinstance(a, M.Keyword):
        return a.name == b.name
    return a == b


# ------------------------------------------------------------------ JSON -> models
def to_model(node):
    import hy.models as M
    from hy.reader.hy_reader import as_identifier

    if not (isinstance(node, list) and len(node) >= 2 and isinstance(node[0], str)):
        raise Invalid("shape")
    k, v = node[0], node[1]
    if k == "sym":
        if not isinstance(v, str) or not _SYM_OK.fullmatch(v):
            raise Invalid("symbol")
        try:
            m = as_identifier(v)  # what the reader does with an identifier-like token
        except Exception:
            raise Invalid("symbol")
        if isinstance(m, M.Symbol) or (isinstance(m, M.Expression) and "." in v):
            return m
        raise Invalid("symbol text reads as " + type(m).__name__)
    if k == "kw":
        if not isinstance(v, str):
            raise Invalid("keyword")
        try:
            return M.Keyword(v)
        except ValueError:
            raise Invalid("keyword")
    if k == "int":
        if isinstance(v, bool) or not isinstance(v, int):
            raise Invalid("int")
        return M.Integer(v)
    if k == "float":
        try:
            return M.Float(float(v))
        except (ValueError, TypeError):
            raise Invalid("float")
    if k == "complex":
        try:
            return M.Complex(complex(v))
        except (ValueError, TypeError):
            raise Invalid("complex")
    if k == "str":
        if not isinstance(v, str):
            raise Invalid("str")
        return M.String(v)
    if k == "bytes":
        try:
            return M.Bytes(v.encode("latin-1"))
        except Exception:
            raise Invalid("bytes")
    if k in SEQ:
        if not isinstance(v, list):
            raise Invalid("seq")
        cls = dict(expr=M.Expression, list=M.List, dict=M.Dict, tuple=M.Tuple, set=M.Set)[k]
        return cls([to_model(x) for x in v])
    if k == "fstr":
        if not isinstance(v, list):
            raise Invalid("fstr")
        return M.FString([_fpart(p) for p in v])
    raise Invalid("kind " + k)


def _fpart(p):
    import hy.models as M

    if not (isinstance(p, list) and len(p) >= 2):
        raise Invalid("fpart")
    if p[0] == "str":
        if not isinstance(p[1], str):
            raise Invalid("fpart str")
        return M.String(p[1])
    if p[0] == "fcomp":
        items = p[1]
        conv = p[2] if len(p) > 2 else None
        if not isinstance(items, list) or not items or not (conv is None or (isinstance(conv, str) and len(conv) == 1 and conv.isalpha())):
            raise Invalid("fcomp")
        return M.FComponent([to_model(items[0])] + [_fpart(q) for q in items[1:]], conversion=conv)
    raise Invalid("fpart kind")


# ------------------------------------------------------------------ JSON -> text
_STR_OK = re.compile(r"[ !#-\[\]-~]")  # printable ASCII except " and \


def _esc(s):
    out = []
    for ch in s:
        o = ord(ch)
        if _STR_OK.fullmatch(ch):
            out.append(ch)
        elif o < 0x100:
            out.append("\\x%02x" % o)
        elif o < 0x10000:
            out.append("\\u%04x" % o)
        else:
            out.append("\\U%08x" % o)
    return "".join(out)


def to_text(node):
    k, v = node[0], node[1]
    if k == "sym":
        return v
    if k == "kw":
        return ":" + v
    if k == "int":
        return str(v)
    if k == "float":
        f = float(v)
        return "NaN" if math.isnan(f) else "Inf" if f == math.inf else "-Inf" if f == -math.inf else repr(f)
    if k == "complex":
        c = complex(v)
        if c.real or not all(map(math.isfinite, (c.real, c.imag))):
            raise Invalid("complex text")
        return repr(c.imag) + "j"
    if k == "str":
        return '"' + _esc(v) + '"'
    if k == "bytes":
        return 'b"' + "".join(ch if _STR_OK.fullmatch(ch) else "\\x%02x" % ord(ch) for ch in v) + '"'
    if k in SEQ:
        o, c = dict(expr="()", list="[]", dict="{}", tuple=("#(", ")"), set=("#{", "}"))[k]
        return o + " ".join(to_text(x) for x in v) + c
    if k == "fstr":
        return 'f"' + "".join(_ftext(p) for p in v) + '"'
    raise Invalid("kind " + str(k))


def _ftext(p):
    if p[0] == "str":
        return _esc(p[1]).replace("{", "{{").replace("}", "}}")
    items, conv = p[1], (p[2] if len(p) > 2 else None)
    s = "{" + to_text(items[0]) + " "
    if conv:
        s += "!" + conv
    if len(items) > 1:
        s += ":" + "".join(_ftext(q) for q in items[1:])
    return s + "}"


# ------------------------------------------------------------------ the oracle
_NUM = re.compile(r"\d+")
_QUOTED = re.compile(r"(?<![A-Za-z0-9])'[^']*'|`[^`]*`|\"[^\"]*\"")
_ADDR = re.compile(r"0x[0-9a-fA-F]+")
_FRAME = re.compile(r'File "([^"]+)", line \d+, in (\S+)')


def norm_msg(msg):
    msg = (msg or "").strip().splitlines()
    msg = msg[0] if msg else ""
    msg = _ADDR.sub("0xN", msg)
    msg = _QUOTED.sub("'X'", msg)
    msg = _NUM.sub("N", msg)
    return msg[:90]


def _hy_frame_from_tb(tb):
    "innermost frame inside the hy package, as file.py:function"
    best = None
    while tb is not None:
        fn = tb.tb_frame.f_code.co_filename.replace("\\", "/")
        if "/hy/" in fn and "/vf/" not in fn:
            f = fn.rsplit("/hy/", 1)[1] + ":" + tb.tb_frame.f_code.co_name
            if best is None or not f.startswith("models.py"):  # a model accessor is never the place of the mistake
                best = f
        tb = tb.tb_next
    return best or "?"


def _hy_frame_from_text(text):
    best = None
    for m in _FRAME.finditer(text):
        fn = m.group(1).replace("\\", "/")
        if "/hy/" in fn:
            f = fn.rsplit("/hy/", 1)[1] + ":" + m.group(2)
            if best is None or not f.startswith("models.py"):
                best = f
    return best or "?"


_WRAPPED = re.compile(r"^\s*(?:[\w.]+\.)?(\w*(?:Error|Exception|Bug|Interrupt|StopIteration|Warning))\b:?", re.M)


class CaseTimeout(Exception):
    pass


@contextlib.contextmanager
def time_limit(seconds):
    def handler(signum, frame):
        raise CaseTimeout()

    # CPU time of this process, not wall time: a busy machine must not turn a slow case into a failure
    try:
        old = signal.signal(signal.SIGPROF, handler)
    except ValueError:  # not the main thread: no watchdog
        yield
        return
    signal.setitimer(signal.ITIMER_PROF, seconds)
    try:
        yield
    finally:
        signal.setitimer(signal.ITIMER_PROF, 0)
        signal.signal(signal.SIGPROF, old)


_counter = [0]


def observe(case, limit_s=20.0):
    """Run hy_compile -> compile -> marshal on one case.

    Returns dict(status=..., ...):
      ok                                   all three stages succeeded
      rejected   kind=hy|python  exc=TypeName  wrapped=TypeName|None  msg=...
      violation  bucket=...  detail={...}
    Raises Invalid when the JSON denotes nothing a user can write.
    """
    import hy
    import hy.models as M
    from hy.compiler import hy_compile
    from hy.errors import HyLanguageError

    via = case.get("via", "models")
    forms = case["forms"]
    if not isinstance(forms, list) or not forms:
        raise Invalid("no forms")
    models = [to_model(f) for f in forms]  # also validates in text mode
    _counter[0] += 1
    module = types.ModuleType("c10_case_%d" % _counter[0])
    src = None
    if via == "text":
        src = "\n".join(to_text(f) for f in forms)
        try:
            got = list(hy.read_many(src, filename="<c10>"))
        except Exception as e:
            raise Invalid("rendered text does not read back: %r: %s" % (src[:200], e))
        if len(got) != len(models) or not all(same_model(x, y) for x, y in zip(got, models)):
            raise Invalid("rendered text reads back as a different tree: %r" % src[:200])
        tree = hy.read_many(src, filename="<c10>")
    elif len(models) == 1:
        tree = models[0]
    else:
        tree = M.Lazy(iter(models))

    out = io.StringIO()
    noise = 0
    try:
        with warnings.catch_warnings(), contextlib.redirect_stdout(out), contextlib.redirect_stderr(out), time_limit(limit_s):
            warnings.simplefilter("ignore")
            try:
                try:
                    tree_ast = hy_compile(tree, module, filename="<c10>", source=src)
                except (HyLanguageError, SyntaxError) as e:
                    wrapped = None
                    if type(e).__name__ in ("HyMacroExpansionError", "HyEvalError"):
                        names = [n for n in _WRAPPED.findall(str(getattr(e, "msg", e))) if n not in ("HyMacroExpansionError", "HyEvalError")]
                        wrapped = names[-1] if names else None
                    return dict(status="rejected", kind="hy", exc=type(e).__name__, wrapped=wrapped, msg=norm_msg(str(getattr(e, "msg", e))),
                                frame=_hy_frame_from_text(str(getattr(e, "msg", ""))) if wrapped else None)
                except CaseTimeout:
                    raise
                except BaseException as e:
                    if isinstance(e, (KeyboardInterrupt, SystemExit, MemoryError)):
                        raise
                    tname = type(e).__name__
                    text = str(e)
                    if tname == "HyCompileError":
                        lines = [ln for ln in text.strip().splitlines() if ln.strip()]
                        last = lines[-1].strip() if lines else ""
                        inner = last.split(":", 1)[0].rsplit(".", 1)[-1] or "?"
                        frame = _hy_frame_from_text(text)
                        bucket = "internal-compiler-error:%s@%s:%s" % (inner, frame, norm_msg(last.split(":", 1)[1] if ":" in last else ""))
                        return dict(status="violation", bucket=bucket, detail=dict(stage="hy_compile", raised="HyCompileError", inner=last[:300], frame=frame))
                    frame = _hy_frame_from_tb(e.__traceback__)
                    bucket = "hy-raised:%s@%s:%s" % (tname, frame, norm_msg(text))
                    return dict(status="violation", bucket=bucket, detail=dict(stage="hy_compile", raised=tname, message=text[:300], frame=frame))
                try:
                    code = compile(tree_ast, "<c10>", "exec")
                except SyntaxError as e:
                    return dict(status="rejected", kind="python", exc=type(e).__name__, wrapped=None, msg=norm_msg(e.msg or ""))
                except CaseTimeout:
                    raise
                except BaseException as e:
                    if isinstance(e, (KeyboardInterrupt, SystemExit, MemoryError)):
                        raise
                    bucket = "ast-rejected:%s:%s" % (type(e).__name__, norm_msg(str(e)))
                    try:
                        dump = ast.dump(tree_ast)[:600]
                    except Exception as e2:  # the AST is so broken it cannot be dumped
                        dump = "<undumpable: %r>" % (e2,)
                    return dict(status="violation", bucket=bucket, detail=dict(stage="compile()", raised=type(e).__name__, message=str(e)[:300], ast=dump))
                # constraints of Python's grammar that CPython's AST validator does not check (the interpreter may crash on them)
                for node in ast.walk(tree_ast):
                    if isinstance(node, getattr(ast, "TryStar", ())) and any(h.type is None for h in node.handlers):
                        return dict(status="violation", bucket="ast-invalid:except*-handler-without-exception-type",
                                    detail=dict(stage="grammar", message="Python requires `except*` to name one or more exception types; "
                                                "CPython 3.12 dies (segmentation fault) when such a handler is reached", ast=ast.dump(node)[:400]))
                try:
                    data = marshal.dumps(code)
                    marshal.loads(data)
                except CaseTimeout:
                    raise
                except Exception as e:
                    bucket = "marshal-failed:%s:%s" % (type(e).__name__, norm_msg(str(e)))
                    return dict(status="violation", bucket=bucket, detail=dict(stage="marshal", raised=type(e).__name__, message=str(e)[:300]))
                return dict(status="ok")
            finally:
                noise = out.getvalue().count("Bad boy clobbered expr")
    except CaseTimeout:
        return dict(status="violation", bucket="no-outcome-within-%ds-of-cpu-time" % int(limit_s), detail=dict(stage="hy_compile/compile()", raised="timeout"))
    finally:
        case_noise[0] = noise


case_noise = [0]  # "Bad boy clobbered expr" diagnostics printed during the last observe() (evidence only)
