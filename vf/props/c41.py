"""C41 The hy command runs programs the same way from -c, a file, stdin and -m.

Every case is one short Hy program plus one argument list.  The same program
text is run four ways in a private scratch directory (`hy -c CODE ARGS`,
`hy FILE ARGS`, `hy - ARGS` with the text on stdin, `hy -m MODULE ARGS`), each
in its own subprocess of the hy entry point of the tree under test.  The
program reports `sys.argv` as JSON on a marked line; everything else it prints
is compared between the modes.
"""
import json
import os
import shutil
import subprocess
import sys
from concurrent.futures import ThreadPoolExecutor

from vf import core

PROP = "C41"
LEVEL = "exploration"
NSHARDS = 16
BUDGET_QUICK = 600  # bounded by case counts (4 subprocesses of ~0.3 s CPU per program); the clock only guards against a loaded machine
BUDGET_THOROUGH = 3000

RULE = (
    "case = (program text, ARGS, hy options before the mode selector, spelling of -c/-m, FILE path, MODULE name). Programs are built from a pool of "
    "statements (print of literals incl. Unicode, arithmetic, defn/defmacro/defclass/defreader use, loops, try/except, __name__, (cut sys.argv 1 None), "
    "eval-when-compile, writes to stderr and unterminated writes to stdout) with one or two reports `@@ARGV@@ <json of sys.argv>` placed anywhere, and end by falling off the end, "
    "sys.exit with a status 0..255 / a message / None, raise of a builtin or program-defined exception, SystemExit, KeyboardInterrupt, a failing assert, "
    "an exit from inside a function, or a reader / compiler error at the end of the text; some have unreachable prints after the terminator. ARGS are 0..6 "
    "strings: Hy/Python option look-alikes (-c -m -i -h --help -v --version -B -E -u --spy --repl-output-fn[=x] -- - -cfoo -mfoo -x --bogus ...), empty "
    "string, whitespace/quotes/shell characters, arbitrary Unicode text, plain words; in addition every look-alike and the empty string is enumerated once per run "
    "as the first ARG of a fixed small program (28 cases, the other dimensions rotating). FILE is given as p.hy, ./p.hy, sub/p.hy, sub/../p.hy, an absolute "
    "path, an extensionless name, a name with a space / non-ASCII letters, or a directory holding __main__.hy; MODULE is a plain name, a hyphenated name "
    "(docs/cli.rst: mangled), pkg.mod, a hyphenated pkg.mod, or a package with __main__.hy. Each mode runs as a subprocess of the tree's hy entry point in "
    "a fresh scratch directory. Oracle: (absolute, per mode) every reported sys.argv[1:] == ARGS and sys.argv[0] == what CPython documents for the "
    "equivalent python invocation ('-c'; the script path as given; '-'; the full path of the module file); (relative, every mode against a reference mode: the first of the largest group of agreeing modes, normally -c) stdout "
    "without the report lines, exit status, and the last line of stderr are identical. A mode that never reports argv is a failure of that mode, unless no "
    "mode ran the program and hy_compile (library API, separate process) rejects the text too: then it is not a program and only agreement is required. "
    "Non-trivial = at least one ARG and the -c run printed a report plus at least one other line; distinct by the whole case"
)
ASSUMPTIONS = [
    "the documented argv[0] rule (Python docs 'Command line and environment', to which docs/cli.rst defers) is re-validated against the real CPython on "
    "every run with equivalent python invocations for each FILE / MODULE layout; a disagreement is a harness error",
    "stderr is compared only by its last non-empty line (tracebacks legitimately name '<string>', '<stdin>' or the file)",
    "children run with PYTHONUTF8=1 and the runner's environment otherwise; stdin of the non-stdin modes is /dev/null",
    "a child that does not finish within 600 s is a harness error, never a verdict",
    "shebang lines are excluded: Hy documents that only files skip them (tests/test_bin.py: 'No shebang is allowed' for -c)",
    "programs do not read stdin, print __file__ or sys.path, which legitimately depend on the mode",
]

MARK = "@@ARGV@@"
MODES = ["c", "stdin", "module", "file"]
REPO = os.environ.get("VF_REPO", "/repo")
TIMEOUT_S = 600
ENV_TAG = "runpy._get_code_from_file(run_name,fname)-on-this-python-vs-importer-assuming-1-arg-for-all-3.12"

OPTION_LIKE = [
    "-c", "-m", "-i", "-h", "--help", "-v", "--version", "-B", "-E", "-u", "--unbuffered", "--spy", "--repl-output-fn", "--repl-output-fn=repr",
    "--", "-", "-cfoo", "-mfoo", "-c=1", "-iB", "-x", "--bogus", "---", "-=", "-Bc", "-ic", "--spy=1",
]
PLAIN = ["a", "foo", "x.hy", "42", "-1", "3.5", "a=b", "=", "mod", "p.hy"]
ODD = ["", " ", "a b", "'", '"', "$HOME", "*", "\\", "a\nb", "\t", "(print 1)", ";", "#!", "~"]

PRE = [[], [], [], [], ["-B"], ["-u"], ["-B", "-u"], ["-Bu"], ["--unbuffered"], ["-E"], ["-uB"]]
FILES = [
    ("rel", "vfp.hy"), ("rel", "vfp.hy"), ("dot", "./vfp.hy"), ("sub", "vsub/vfp.hy"), ("dotdot", "vsub/../vfp.hy"), ("abs", "@ABS@/vfp.hy"),
    ("noext", "vfprog"), ("space", "vf p.hy"), ("unicode", "vfp\u00e9\u03bb.hy"), ("dir", "vfdir"), ("dir-slash", "./vfdir/"),
]
MODULES = [
    ("plain", "vfmod"), ("plain", "vfmod"), ("hyphen", "vf-mod-x"), ("pkgmod", "vfpkg.vfsub"), ("hyphen-pkgmod", "vf-pkg.vf-sub"),
    ("pkgmain", "vfpkgm"), ("hyphen-pkgmain", "vf-pkgm"),
]
PKGMAIN = {"vfpkgm", "vf-pkgm"}


# ---------------------------------------------------------------------------
# layout of one case in its scratch directory


def file_layout(case):
    """-> (relative path of the program file for FILE mode, argument as given with @ABS@ still in it)"""
    given = case["file"]
    rel = given.replace("@ABS@/", "")
    rel = os.path.normpath(rel)
    if os.path.basename(rel) in ("vfdir",):
        return os.path.join(rel, "__main__.hy")
    return rel


def module_file(name):
    parts = [p.replace("-", "_") for p in name.split(".")]  # docs/cli.rst: the module name is mangled
    if name in PKGMAIN:
        return os.path.join(*parts, "__main__.hy"), [os.path.join(*parts[: i + 1]) for i in range(len(parts))]
    return os.path.join(*parts) + ".hy", [os.path.join(*parts[: i + 1]) for i in range(len(parts) - 1)]


def write_layout(d, case, suffix=".hy", src=None):
    """Write the FILE-mode file and the MODULE-mode tree for the case into d (suffix '.py' for the CPython twin)."""
    src = case["src"] if src is None else src
    swap = lambda p: p[: -len(".hy")] + suffix if p.endswith(".hy") else p
    fp = os.path.join(d, swap(file_layout(case)))
    os.makedirs(os.path.dirname(fp), exist_ok=True)
    os.makedirs(os.path.join(d, "vsub"), exist_ok=True)
    with open(fp, "w", encoding="utf-8") as f:
        f.write(src)
    mf, pkgs = module_file(case["module"])
    for p in pkgs:
        os.makedirs(os.path.join(d, p), exist_ok=True)
        with open(os.path.join(d, p, "__init__" + suffix), "w") as f:
            f.write("")
    with open(os.path.join(d, swap(mf)), "w", encoding="utf-8") as f:
        f.write(src)


def selector(case, mode, d, suffix=".hy", mangle_module=False):
    """The command-line words after the interpreter for one mode, and the expected argv[0]."""
    pre = list(case.get("pre", []))
    spell = case.get("spell", "sep")
    args = list(case["args"])
    swap = lambda p: p[: -len(".hy")] + suffix if p.endswith(".hy") else p

    def opt(letter, value):
        if spell == "att":
            return pre + ["-" + letter + value]
        if spell == "cluster" and pre and pre[-1].startswith("-") and not pre[-1].startswith("--"):
            return pre[:-1] + [pre[-1] + letter, value]
        return pre + ["-" + letter, value]

    if mode == "c":
        return opt("c", case["src"] if suffix == ".hy" else PY_TWIN) + args, "-c"
    if mode == "stdin":
        return pre + ["-"] + args, "-"
    if mode == "file":
        given = swap(case["file"]).replace("@ABS@", d)
        return pre + [given] + args, given
    if mode == "module":
        name = case["module"]
        mf, _ = module_file(name)
        if mangle_module:
            name = name.replace("-", "_")
        return opt("m", name) + args, os.path.join(d, swap(mf))
    raise ValueError(mode)


PY_TWIN = "import sys, json\nprint(%r, json.dumps(sys.argv))\n" % MARK

# ---------------------------------------------------------------------------
# running

_HY = None


def child_env():
    env = dict(os.environ)
    env["PYTHONUTF8"] = "1"
    env.pop("PYTHONIOENCODING", None)
    env.pop("HYSTARTUP", None)
    return env


def hy_cmd():
    """The hy entry point of the tree under test: the venv's `hy` script when it imports hy from VF_REPO, else `python -m hy`."""
    global _HY
    if _HY is not None:
        return _HY
    probe = "(import hy os) (print (os.path.realpath hy.__file__))"
    want = os.path.realpath(os.path.join(REPO, "hy", "__init__.py"))
    seen = []
    for cmd in ([os.path.join(os.path.dirname(sys.executable), "hy")], [sys.executable, "-m", "hy"]):
        if not os.path.exists(cmd[0]):
            continue
        r = subprocess.run(cmd + ["-c", probe], capture_output=True, text=True, env=child_env(), stdin=subprocess.DEVNULL, timeout=TIMEOUT_S)
        seen.append((cmd, r.returncode, r.stdout.strip(), r.stderr[-300:]))
        if r.returncode == 0 and r.stdout.strip() == want:
            _HY = cmd
            return _HY
    raise core.HarnessError("no hy entry point imports hy from %s: %r" % (REPO, seen))


def run_proc(cmd, cwd, stdin_text=None):
    try:
        r = subprocess.run(
            cmd,
            cwd=cwd,
            env=child_env(),
            input=stdin_text.encode("utf-8") if stdin_text is not None else None,
            stdin=subprocess.DEVNULL if stdin_text is None else None,
            capture_output=True,
            timeout=TIMEOUT_S,
        )
    except subprocess.TimeoutExpired:
        raise core.HarnessError("child did not finish within %d s (not a verdict): %r" % (TIMEOUT_S, cmd[:4]))
    return dict(
        status=r.returncode,
        stdout=r.stdout.decode("utf-8", "backslashreplace"),
        stderr=r.stderr.decode("utf-8", "backslashreplace"),
    )


def run_modes(case, d, modes, pool):
    """Run the requested modes of one case in directory d (already realpath'd). -> {mode: observation}"""
    os.makedirs(d, exist_ok=True)
    write_layout(d, case)
    hy = hy_cmd()
    futs = {}
    for m in modes:
        words, argv0 = selector(case, m, d)
        futs[m] = (pool.submit(run_proc, hy + words, d, case["src"] if m == "stdin" else None), argv0, words)
    out = {}
    for m in modes:
        fut, argv0, words = futs[m]
        ob = fut.result()
        ob["expect_argv0"] = argv0
        ob["cwd"] = d
        ob["cmd"] = ["hy"] + [w.replace(case["src"], "<CODE>") if case["src"] else w for w in words]
        out[m] = ob
    return out


# ---------------------------------------------------------------------------
# judging


def split_out(stdout):
    """-> (list of reported argv lists, stdout with the report lines replaced by a placeholder)"""
    reports, rest = [], []
    for line in stdout.split("\n"):
        i = line.find(MARK + " ")  # not always at the start of a line: the program may have written text without a newline before
        if i >= 0:
            try:
                reports.append(json.loads(line[i + len(MARK) + 1 :]))
                rest.append(line[:i] + "<ARGV>")
                continue
            except ValueError:
                pass
        rest.append(line)
    return reports, "\n".join(rest)


def last_line(stderr):
    lines = [l for l in stderr.split("\n") if l.strip()]
    return lines[-1] if lines else ""


def arg_category(a):
    if a == "--":
        return "double-dash"
    if a == "-":
        return "single-dash"
    if a == "":
        return "empty-string"
    if a.startswith("--"):
        return "long-option-like"
    if a.startswith("-"):
        return "short-option-like"
    return "plain"


def env_defect(ob):
    """The known environmental root cause: this CPython's runpy.run_path still calls _get_code_from_file(run_name, fname) and
    unpacks a pair, hy/importer.py's replacement unpacks one argument on every 3.12."""
    e = ob["stderr"]
    frames = [l for l in e.split("\n") if l.startswith("  File ")]
    return (
        ob["stdout"] == ""
        and bool(frames)
        and frames[-1].startswith('  File "<frozen runpy>"')
        and frames[-1].endswith("in run_path")  # hy's own frames (hy/importer.py: `fname, = args`) are filtered out of the traceback
        and last_line(e) == "ValueError: too many values to unpack (expected 1)"
        and runpy_passes_run_name()
    )


_RUNPY2 = None


def runpy_passes_run_name():
    """The environmental fact itself, asked of a pristine interpreter (hy replaces runpy._get_code_from_file when imported)."""
    global _RUNPY2
    if _RUNPY2 is None:
        r = subprocess.run(
            [sys.executable, "-S", "-c", "import runpy, inspect; print(list(inspect.signature(runpy._get_code_from_file).parameters))"],
            capture_output=True, text=True, env=child_env(), stdin=subprocess.DEVNULL, timeout=TIMEOUT_S,
        )
        if r.returncode != 0:
            raise core.HarnessError("cannot inspect runpy: " + r.stderr[-300:])
        _RUNPY2 = r.stdout.strip() == "['run_name', 'fname']" and sys.version_info[:2] == (3, 12)
    return _RUNPY2


ARGV0_TAG = "script-path-joined-to-cwd-(what-cmdline-passes-to-run_path)-instead-of-the-path-as-given"


def cwd_joined(cwd, given, got):
    """Root cause of the FILE-mode argv[0] finding: cmdline_handler makes the script path absolute with `Path.cwd() / filename` (for __file__) and
    runpy.run_path then stores that very string in sys.argv[0], replacing the name as given that cmdline_handler had put there."""
    import pathlib

    return (
        isinstance(cwd, str) and isinstance(given, str) and isinstance(got, str)
        and not os.path.isabs(given)
        and got == str(pathlib.PurePosixPath(cwd) / given)
    )


_ACCEPTS = {}
_WITNESS = (
    "import sys, types, hy\n"
    "from hy.compiler import hy_compile\n"
    "src = sys.stdin.read()\n"
    "tree = hy_compile(hy.read_many(src, filename='<c41>'), types.ModuleType('__main__'), source=src, filename='<c41>')\n"
    "compile(tree, '<c41>', 'exec')\n"
    "print('\\nC41-ACCEPTED')\n"
)


def compiler_accepts(src):
    """Independent witness, used only when NO mode ran the program: does the compiler (library API, no command line involved) accept the text?
    If it does not, the text is not a program at all (a compiler matter, C10), and only the agreement of the modes is required."""
    if src not in _ACCEPTS:
        ob = run_proc([sys.executable, "-c", _WITNESS], None, src)
        _ACCEPTS[src] = ob["stdout"].endswith("C41-ACCEPTED\n")
    return _ACCEPTS[src]


def tail(s, n=700):
    return s if len(s) <= n else "..." + s[-n:]


def judge(case, obs):
    """-> list of (bucket, detail, modes needed to reproduce), in a fixed order."""
    fails = []
    args = list(case["args"])
    usable = {}
    for m in MODES:
        if m not in obs:
            continue
        ob = obs[m]
        if m == "file" and env_defect(ob):
            fails.append(("file-mode-dead|" + ENV_TAG, dict(cmd=ob["cmd"], status=ob["status"], stderr=tail(ob["stderr"])), ["file"]))
            continue
        reports, rest = split_out(ob["stdout"])
        ob["_reports"], ob["_rest"] = reports, rest
        usable[m] = ob
        if not reports and not case.get("runs", True):
            pass  # the text ends in a reader/compiler error: no mode may run any of it, so there is nothing to report
        elif not reports:
            fails.append((m + ":program-never-reported-argv", dict(cmd=ob["cmd"], status=ob["status"], stdout=tail(ob["stdout"]), stderr=tail(ob["stderr"])), [m]))
            continue
        bad_tail = [r for r in reports if not (isinstance(r, list) and r[1:] == args)]
        if bad_tail:
            got = bad_tail[0][1:] if isinstance(bad_tail[0], list) else bad_tail[0]
            i = 0
            while i < len(got) and i < len(args) and got[i] == args[i]:
                i += 1
            culprit = arg_category(args[i]) if i < len(args) else "extra-arguments"
            fails.append((
                "%s:argv[1:]-is-not-ARGS:first-difference-at-%s" % (m, culprit),
                dict(cmd=ob["cmd"], expected=args, got=got),
                [m],
            ))
        bad0 = [r for r in reports if isinstance(r, list) and r[:1] != [ob["expect_argv0"]]]
        if bad0:
            got0 = bad0[0][0] if bad0[0] else None
            kind = case["file"] if m == "file" else case["module"] if m == "module" else m
            how = "other"
            if m == "file" and cwd_joined(ob.get("cwd"), ob["expect_argv0"], got0):
                how = ARGV0_TAG
            fails.append((
                "%s:argv[0]-wrong|%s" % (m, how),
                dict(cmd=ob["cmd"], expected=ob["expect_argv0"], got=got0, layout=kind, cwd=ob.get("cwd")),
                [m],
            ))
    if case.get("runs", True) and usable and not any(ob["_reports"] for ob in usable.values()) and not compiler_accepts(case["src"]):
        fails = [f for f in fails if not f[0].endswith(":program-never-reported-argv")]
        for ob in usable.values():
            ob["_rejected"] = True
    # relative part: every mode against a reference mode.  The reference is the first mode (in MODES order) of the largest group of modes that
    # agree with each other, so that one broken mode is named as the odd one out; a replay case names its reference explicitly.
    sig = {m: (usable[m]["_rest"], usable[m]["status"], last_line(usable[m]["stderr"])) for m in MODES if m in usable}
    rm = case.get("ref")
    if rm not in sig:
        rm = None
        best = 0
        for m in MODES:
            if m in sig:
                n = sum(1 for o in sig if sig[o] == sig[m])
                if n > best:
                    rm, best = m, n
    if rm is not None:
        ref = usable[rm]
        for m in MODES:
            if m == rm or m not in usable:
                continue
            ob = usable[m]
            both = sorted([rm, m], key=MODES.index)
            for i, what in enumerate(("stdout-differs", "exit-status-differs", "last-stderr-line-differs")):
                a, b = sig[rm][i], sig[m][i]
                if a != b:
                    if i == 0:
                        a, b = tail(a), tail(b)
                    fails.append((
                        "%s-vs-%s:%s" % (m, rm, what),
                        {"cmd": ob["cmd"], "cmd_reference": ref["cmd"], rm: a, m: b, "stderr_" + rm: tail(ref["stderr"], 300), "stderr_" + m: tail(ob["stderr"], 300)},
                        both + ["ref=" + rm],
                    ))
    return fails


# ---------------------------------------------------------------------------
# scratch directories


def scratch_root(tag):
    d = os.path.realpath(os.path.join(core.WORK, "c41-%d-%s" % (os.getpid(), tag)))
    shutil.rmtree(d, ignore_errors=True)
    os.makedirs(d)
    return d


def drop_scratch(d):
    shutil.rmtree(d, ignore_errors=True)
    prefix = os.environ.get("PYTHONPYCACHEPREFIX")
    if prefix:  # bytecode of the scratch modules lands under the cache prefix, mirrored by absolute path
        shutil.rmtree(os.path.join(prefix, d.lstrip(os.sep)), ignore_errors=True)


# ---------------------------------------------------------------------------
# replay / shrinking


def normal(case):
    case = dict(case)
    if not isinstance(case.get("src"), str) or not isinstance(case.get("args"), list) or not all(isinstance(a, str) and "\0" not in a for a in case["args"]):
        raise ValueError("malformed case")
    case.setdefault("pre", [])
    case.setdefault("spell", "sep")
    case.setdefault("file", "vfp.hy")
    case.setdefault("module", "vfmod")
    case.setdefault("modes", list(MODES))
    case.setdefault("runs", True)
    if case.get("ref") is not None and case["ref"] not in MODES:
        raise ValueError("malformed case")
    if case["runs"] and not (MARK in case["src"] and case["src"].startswith("(import sys json)")):
        raise ValueError("malformed case: a program that is expected to run must contain the argv report and its imports")
    if (
        case["file"] not in [f for _, f in FILES]
        or case["module"] not in [m for _, m in MODULES]
        or list(case["pre"]) not in PRE
        or case["spell"] not in ("sep", "att", "cluster")
        or not case["modes"]
        or not set(case["modes"]) <= set(MODES)
        or "\0" in case["src"]
    ):
        raise ValueError("malformed case")
    return case


def check_case(case):
    case = normal(case)
    d = scratch_root("replay")
    try:
        with ThreadPoolExecutor(4) as pool:
            obs = run_modes(case, os.path.join(d, "case"), case["modes"], pool)
        fails = judge(case, obs)
    finally:
        drop_scratch(d)
    if not fails:
        return None
    for bucket, detail, _ in fails:
        if bucket == case.get("want"):  # a recorded failure names its bucket, so that replay and shrinking stay on that failure when the case has several
            return bucket, detail
    return fails[0][0], fails[0][1]


def shrink(case, same, budget):
    budget = min(budget // 10, 40)  # every evaluation costs up to four interpreter start-ups: 15 (quick) / 40 (thorough) per bucket
    best = dict(case)
    used = 0

    def attempt(cand):
        nonlocal best, used
        if used >= budget or cand == best:
            return False
        used += 1
        try:
            ok = same(cand)
        except ValueError:
            ok = False
        if ok:
            best = cand
        return ok

    for key, simple in (("pre", []), ("spell", "sep"), ("file", "vfp.hy"), ("module", "vfmod")):
        attempt(dict(best, **{key: simple}))
    attempt(dict(best, args=[]))
    i = 0
    while i < len(best["args"]) and used < budget:
        if not attempt(dict(best, args=best["args"][:i] + best["args"][i + 1 :])):
            i += 1
    lines = best["src"].split("\n")
    i = 0
    while i < len(lines) and used < budget:
        cand = lines[:i] + lines[i + 1 :]
        if (MARK in lines[i] and MARK not in "\n".join(cand)) or lines[i].startswith("(import sys json)"):
            i += 1  # the report and its imports stay: the reduced text must remain a program that reports on a healthy tree
        elif attempt(dict(best, src="\n".join(cand))):
            lines = cand
        else:
            i += 1
    return best


# ---------------------------------------------------------------------------
# generation


def hystr(s):
    return json.dumps(s, ensure_ascii=False)


def strategies():
    from hypothesis import strategies as st

    text = st.text(st.characters(blacklist_categories=("Cs", "Cc"), max_codepoint=0x1FFFF), min_size=0, max_size=8)
    word = st.sampled_from(["alpha", "x", "hello world", "r\u00e9sum\u00e9", "\u03bb", "\u6f22\u5b57", "a\"b", "tab\there", "\U0001F600", "-c", "--", "100%"]) | text
    small = st.integers(-9, 99)

    arg = st.one_of(
        st.sampled_from(OPTION_LIKE), st.sampled_from(OPTION_LIKE), st.sampled_from(OPTION_LIKE),
        st.sampled_from(PLAIN), st.sampled_from(ODD),
        st.text(st.characters(blacklist_categories=("Cs",), blacklist_characters="\0", max_codepoint=0x1FFFF), min_size=0, max_size=6),
    )
    key = st.sampled_from(["--", "-", "-c", "-m", "-i", "-h", "--spy", "-E", "-B", ""])
    arg = st.one_of(arg, arg, arg, key)
    args = st.sampled_from([0, 1, 1, 2, 2, 3, 3, 4, 5, 6]).flatmap(lambda n: st.lists(arg, min_size=n, max_size=n))

    @st.composite
    def statement(draw, n):
        k = draw(st.sampled_from([
            "lit", "lit", "arith", "defn", "macro", "loop", "name", "cut", "repr", "lfor", "write", "stderr", "try", "when-main", "class",
            "fmodule", "ewc", "mangle", "bracket", "fstring", "reader", "len", "hy-I", "setv",
        ]))
        a, b = draw(small), draw(small)
        if k == "lit":
            return k, "(print %s)" % hystr(draw(word))
        if k == "arith":
            return k, "(print (+ %d %d) (* %d %d) (- %d))" % (a, b, a, b, a)
        if k == "defn":
            return k, "(defn f%d [x] (* x %d))\n(print (f%d %d))" % (n, a, n, b)
        if k == "macro":
            return k, "(defmacro m%d [x] `(+ ~x %d))\n(print (m%d %d))" % (n, a, n, b)
        if k == "loop":
            return k, "(for [i (range %d)] (print \"i\" i))" % (abs(a) % 4)
        if k == "name":
            return k, "(print __name__)"
        if k == "cut":
            return k, "(print (cut sys.argv 1 None))"
        if k == "repr":
            return k, "(print (hy.repr [%d %s :k]))" % (a, hystr(draw(word)))
        if k == "lfor":
            return k, "(print (.join \",\" (lfor x (range %d) (str (* x x)))))" % (abs(a) % 5)
        if k == "write":
            return k, "(sys.stdout.write %s)" % hystr(draw(word))
        if k == "stderr":
            return k, "(print %s :file sys.stderr)" % hystr("note " + draw(st.sampled_from(["one", "two", "\u00e9"])))
        if k == "try":
            return k, "(try (/ %d 0) (except [e ZeroDivisionError] (print \"caught\" (. (type e) __name__))))" % a
        if k == "when-main":
            return k, "(when (= __name__ \"__main__\") (print \"main\" %d))" % a
        if k == "class":
            return k, "(defclass C%d [] (defn __init__ [self] (setv self.x %d)))\n(print (. (C%d) x) (. C%d __module__))" % (n, a, n, n)
        if k == "fmodule":
            return k, "(print (. (fn [] 1) __module__))"
        if k == "ewc":
            return k, "(eval-when-compile (print \"compiling\" %d))" % a
        if k == "mangle":
            return k, "(print (hy.mangle \"a-b?\") (hy.unmangle \"c_d\"))"
        if k == "bracket":
            return k, "(print #[[br %d]] :sep \"|\")" % a
        if k == "fstring":
            return k, "(print f\"{(+ %d %d)} and {%s !r}\")" % (a, b, hystr(draw(word)))
        if k == "reader":
            return k, "(defreader r%d '%d)\n(print #r%d)" % (n, a, n)
        if k == "len":
            return k, "(print (len sys.argv))"
        if k == "hy-I":
            return k, "(print (hy.I.math.floor %d.5))" % a
        if k == "setv":
            return k, "(setv v%d %d)\n(print v%d (+ v%d %d))" % (n, a, n, n, b)
        raise AssertionError(k)

    @st.composite
    def terminator(draw):
        k = draw(st.sampled_from([
            "fall-off", "fall-off", "exit-status", "exit-status", "exit-status", "exit-message", "exit-none", "raise-builtin", "raise-builtin",
            "raise-own-class", "zero-division", "name-error", "assert", "raise-SystemExit", "raise-SystemExit-n", "KeyboardInterrupt",
            "exit-in-function", "premature-eof", "compile-error", "lex-error", "file-not-found", "os-error-subclass",
        ]))
        n = draw(st.sampled_from([0, 1, 2, 3, 7, 42, 100, 127, 128, 255]))
        msg = draw(st.sampled_from(["boom", "bad thing", "\u00e9chec", "a: b", ""]))
        if k == "fall-off":
            return k, ""
        if k == "exit-status":
            return k, "(sys.exit %d)" % n
        if k == "exit-message":
            return k, "(sys.exit %s)" % hystr("fatal " + msg)
        if k == "exit-none":
            return k, draw(st.sampled_from(["(sys.exit None)", "(sys.exit)"]))
        if k == "raise-builtin":
            return k, "(raise (%s %s))" % (draw(st.sampled_from(["ValueError", "KeyError", "RuntimeError", "OSError"])), hystr(msg))
        if k == "raise-own-class":
            return k, "(defclass MyErr [Exception])\n(raise (MyErr %s))" % hystr(msg)
        if k == "zero-division":
            return k, "(print (/ 1 0))"
        if k == "name-error":
            return k, "(print undefined-thing)"
        if k == "assert":
            return k, "(assert (= 1 2) %s)" % hystr(msg)
        if k == "raise-SystemExit":
            return k, "(raise SystemExit)"
        if k == "raise-SystemExit-n":
            return k, "(raise (SystemExit %d))" % n
        if k == "KeyboardInterrupt":
            return k, "(raise KeyboardInterrupt)"
        if k == "exit-in-function":
            return k, "(defn die [] (print \"dying\") (sys.exit %d))\n(die)" % n
        if k == "file-not-found":  # the program's own failure to open a file, not hy's failure to open the program
            return k, draw(st.sampled_from(["(open \"/nonexistent-vf/%s.txt\")" % (msg.replace(" ", "-").replace(":", "") or "x"),
                                           "(raise (FileNotFoundError 2 \"No such file or directory\" \"data.csv\"))",
                                           "(import os) (os.stat \"/nonexistent-vf-dir\")"]))
        if k == "os-error-subclass":
            return k, draw(st.sampled_from(["(raise (PermissionError 13 \"Permission denied\" \"p.txt\"))", "(raise (IsADirectoryError 21 \"Is a directory\" \"d\"))",
                                           "(raise (NotADirectoryError 20 \"Not a directory\" \"n/x\"))"]))
        if k == "premature-eof":
            return k, "(print \"never\" (+ 1"
        if k == "compile-error":
            return k, draw(st.sampled_from(["(fn)", "(setv x)", "(import)  (defn)"]))
        if k == "lex-error":
            return k, draw(st.sampled_from(["(print 1))", "(print \"\\q\")", "(print '[1 2))"]))
        raise AssertionError(k)

    @st.composite
    def case(draw):
        nstmt = draw(st.integers(1, 5))
        stmts = [draw(statement(i)) for i in range(nstmt)]
        term = draw(terminator())
        report = "(print %s (json.dumps sys.argv))" % hystr(MARK)
        lines = [s for _, s in stmts]
        pos = draw(st.integers(0, len(lines)))
        lines.insert(pos, report)
        if draw(st.integers(0, 3)) == 0:
            lines.append(report)
        if term[1]:
            lines.append(term[1])
            if draw(st.booleans()) and term[0] not in ("premature-eof",):
                lines.append("(print \"unreachable\")")
        src = "(import sys json)\n" + "\n".join(lines) + "\n"
        f = draw(st.sampled_from(FILES))
        m = draw(st.sampled_from(MODULES))
        pre = draw(st.sampled_from(PRE))
        spell = draw(st.sampled_from(["sep", "sep", "sep", "att", "cluster"]))
        c = dict(src=src, args=draw(args), pre=list(pre), spell=spell, file=f[1], module=m[1], runs=term[0] not in ("premature-eof", "compile-error", "lex-error"))
        meta = dict(stmts=sorted(set(k for k, _ in stmts)), term=term[0], file=f[0], module=m[0])
        return c, meta

    return case()


def enumerated():
    """Every option look-alike (and the empty string) as the FIRST program argument, once per run, in every mode: the finite part of the domain.
    The other dimensions rotate with the index."""
    report = "(print %s (json.dumps sys.argv))" % hystr(MARK)
    firsts = OPTION_LIKE + [""]
    fs, ms = FILES[1:], MODULES[1:]
    out = []
    for i, first in enumerate(firsts):
        args = [first] + ([OPTION_LIKE[(7 * i + 3) % len(OPTION_LIKE)]] if i % 3 == 0 else []) + (["x"] if i % 2 else [])
        src = "(import sys json)\n(print \"start\" __name__)\n%s\n(print (cut sys.argv 1 None))\n(sys.exit %d)\n(print \"unreachable\")\n" % (report, (0, 3, 42)[i % 3])
        f, m = fs[i % len(fs)], ms[i % len(ms)]
        case = dict(src=src, args=args, pre=list(PRE[3:][i % len(PRE[3:])]), spell=("sep", "att", "cluster")[i % 3], file=f[1], module=m[1], runs=True)
        out.append((case, dict(stmts=["cut", "name"], term="exit-status", file=f[0], module=m[0], enumerated=True)))
    return out


def classes(case, meta):
    cls = ["file:" + meta["file"], "module:" + meta["module"], "end:" + meta["term"]]
    cls += ["stmt:" + s for s in meta["stmts"]]
    n = len(case["args"])
    cls.append("nargs:" + ("0" if n == 0 else "1-2" if n <= 2 else "3-6"))
    cls.append("enumerated-first-argument" if meta.get("enumerated") else "generated")
    cats = set(arg_category(a) for a in case["args"])
    cls += ["arg:" + c for c in sorted(cats)]
    for a in sorted(set(case["args"]) & {"-c", "-m", "-i", "-h", "--help", "--spy", "-v", "--version", "-B", "-E", "-u"}):
        cls.append("arg=" + a)
    if any(ord(ch) > 127 for a in case["args"] for ch in a):
        cls.append("arg:non-ascii")
    if case["args"] and arg_category(case["args"][0]) != "plain":
        cls.append("first-arg-option-like")
    cls.append("pre:" + (" ".join(case["pre"]) or "none"))
    spell = case["spell"]
    if spell == "cluster" and not (case["pre"] and not case["pre"][-1].startswith("--")):
        spell = "sep"
    cls.append("spelling:" + {"sep": "-c CODE", "att": "-cCODE", "cluster": "-Bc CODE"}[spell])
    return cls


# ---------------------------------------------------------------------------
# validating the documented argv[0] rule against the real CPython


def validate_rule_against_cpython(d, pool):
    """Run the CPython twin of every FILE / MODULE layout and spelling and require that python's sys.argv is what `selector` expects.
    (python does not mangle module names, so hyphenated names are passed already mangled.)"""
    jobs = []
    n = 0
    fs = sorted(set(f for _, f in FILES))
    ms = sorted(set(m for _, m in MODULES))
    for f, m in [(f, "vfmod") for f in fs] + [("vfp.hy", m) for m in ms if m != "vfmod"]:
        if True:
            n += 1
            case = dict(src="", args=["-c", "--", "-", "x y", ""], pre=[], spell="sep", file=f, module=m)
            cd = os.path.join(d, "py%d" % n)
            os.makedirs(cd)
            write_layout(cd, case, suffix=".py", src=PY_TWIN)
            for mode in MODES:
                for pre, spell in (([], "sep"), (["-B"], "att"), (["-B"], "cluster")):
                    if (mode in ("c", "stdin") or spell != "sep") and (f, m) != ("vfp.hy", "vfmod"):
                        continue  # only the first layout exercises -c, - and the spellings
                    if mode == "file" and (spell != "sep" or m != "vfmod"):
                        continue
                    if mode == "module" and f != "vfp.hy":
                        continue
                    if spell != "sep" and mode == "stdin":
                        continue
                    c2 = dict(case, pre=pre, spell=spell)
                    words, argv0 = selector(c2, mode, cd, suffix=".py", mangle_module=True)
                    jobs.append((pool.submit(run_proc, [sys.executable] + words, cd, PY_TWIN if mode == "stdin" else None), words, argv0, case["args"]))
    for fut, words, argv0, args in jobs:
        ob = fut.result()
        reports, _ = split_out(ob["stdout"])
        if ob["status"] != 0 or reports != [[argv0] + args]:
            raise core.HarnessError(
                "the argv rule of this check disagrees with CPython itself: python %r -> %r (stderr %r), expected %r"
                % (words, reports, ob["stderr"][-300:], [argv0] + args)
            )
    return len(jobs)


# ---------------------------------------------------------------------------


def shard(ctx):
    cases = [c for j, c in enumerate(enumerated()) if j % ctx.n == ctx.k]
    ctx.hyp(strategies(), cases.append, ctx.per_shard(40, 1600), "cases")
    root = scratch_root("s%d" % ctx.k)
    try:
        with ThreadPoolExecutor(4) as pool:
            if ctx.k == 0:
                ctx.count("cpython-twin-invocations-validating-the-argv-rule", validate_rule_against_cpython(root, pool))
            for i, (case, meta) in enumerate(cases):
                if ctx.out_of_time():
                    break
                d = os.path.join(root, "case%d" % i)
                obs = run_modes(case, d, MODES, pool)
                fails = judge(case, obs)
                shutil.rmtree(d, ignore_errors=True)
                ref = obs["c"]
                nt = bool(case["args"]) and bool(ref.get("_reports")) and any(l and l != "<ARGV>" for l in ref.get("_rest", "").split("\n"))
                cls = classes(case, meta)
                cls.append("status(-c):%s" % (ref["status"] if ref["status"] in (0, 1, 130) else "other"))
                if ref.get("_rejected"):
                    cls.append("skipped:compiler-rejects-the-program-outside-the-command-line-too(only-agreement-checked)")
                for m in MODES:
                    if "_reports" in obs[m] and obs[m]["_reports"]:
                        cls.append("mode-ran:" + m)
                sample = "hy %s   # program: %s" % (" ".join(json.dumps(w, ensure_ascii=False) for w in obs["file"]["cmd"][1:]), case["src"].replace("\n", " ")[:300])
                ctx.case(key=json.dumps(case, sort_keys=True), nontrivial=nt, cls=cls, sample=sample)
                for bucket, detail, modes in fails:
                    rec = dict(case, modes=[m for m in modes if not m.startswith("ref=")], want=bucket)
                    for m in modes:
                        if m.startswith("ref="):
                            rec["ref"] = m[4:]
                    ctx.fail(rec, bucket, detail)
    finally:
        drop_scratch(root)


def match_file_argv0_cwd_joined(case, bucket, detail):
    return bucket == "file:argv[0]-wrong|" + ARGV0_TAG and isinstance(detail, dict) and cwd_joined(detail.get("cwd"), detail.get("expected"), detail.get("got"))


# Only needed if the FILE-mode argv[0] deviation is recorded as a known finding instead of being repaired (fix-2.diff).
MATCHERS = {"file_argv0_cwd_joined": match_file_argv0_cwd_joined}
