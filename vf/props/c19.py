"""C19 Truncated input is reported as premature end of input."""
from vf import textgen as T

PROP = "C19"
RULE = (
    "Engine-B well-formed multi-form texts; EVERY cut point of each text is read (exhaustive per text). Ground truth from the "
    "generator's record of open constructs: a prefix that ends inside an unclosed paren/bracket/brace, string, bracket string, "
    "f-string or replacement field, or right after a prefix (' ` ~ ~@ #* #** #^ #_ and their first character '#') must raise exactly "
    "PrematureEndOfInput; a prefix that ends between top-level forms (in whitespace, in a comment, or right at the end of a form) must "
    "read without error and give exactly the preceding forms; cuts in the middle of a top-level token are not claimed. REPL leg: "
    "hy.REPL().compile(prefix) -- the command compiler runsource consults -- returns None (ask for more) for the first class; "
    "non-trivial = a cut inside a string / bracket string / f-string / field or right after a prefix; distinct by (text, cut)"
)
ASSUMPTIONS = [
    "the open-construct intervals are recorded by vf/textgen.py while it writes the text (independent of the reader)",
    "the REPL leg only compiles (nothing generated is executed); it is applied to prefixes whose complete forms are quoted data",
]


def classify(exc):
    from hy.reader.exceptions import LexException, PrematureEndOfInput

    if exc is None:
        return "ok"
    if isinstance(exc, PrematureEndOfInput):
        return "PrematureEndOfInput"
    if isinstance(exc, LexException):
        return "LexException"
    return type(exc).__name__


def read_prefix(text):
    import hy

    try:
        return list(hy.read_many(text)), None
    except BaseException as e:  # noqa
        return None, e


def known_tag(rd, i, kind, exc):
    """Root-cause tag for the recorded finding, decided from the text and the cut alone: the cut falls in the
    middle of a token and the truncated token, read on its own, is lexically invalid (e.g. 'a.' or '1e2+3.5')."""
    for s, e in rd.atoms:
        if s < i < e:
            ms, exc2 = read_prefix(rd.text[s:i])
            if classify(exc2) == "LexException":
                return "truncated-token-is-itself-invalid"
    return None


def check_cut(rd, i):
    kind = T.classify_cut(rd, i)
    prefix = rd.text[:i]
    ms, exc = read_prefix(prefix)
    c = classify(exc)
    if kind[0] == "open":
        if c != "PrematureEndOfInput":
            tag = known_tag(rd, i, kind, exc)
            msg = str(getattr(exc, "msg", exc))[:40]
            return ("open:%s:%s" % (c, msg) + ("|" + tag if tag else ""),
                    dict(prefix=prefix, cut=i, construct=kind[1], outcome=c, message=str(getattr(exc, "msg", exc))[:120]))
    elif kind[0] == "between":
        if c != "ok":
            return ("between:%s" % c, dict(prefix=prefix, cut=i, outcome=c, message=str(getattr(exc, "msg", exc))[:120]))
        want = rd.models[:kind[1]]
        if len(ms) != len(want) or any(T.model_diff(a, b) for a, b in zip(ms, want)):
            return ("between:wrong-models", dict(prefix=prefix, cut=i, expected_forms=kind[1], got_forms=len(ms)))
    else:
        if c not in ("ok", "PrematureEndOfInput", "LexException"):
            return ("midtoken:%s" % c, dict(prefix=prefix, cut=i, outcome=c))
    return None


def repl_leg(rd, i, kind):
    """None | failure. Uses the REPL's command compiler on the prefix."""
    import hy
    from hy.repl import REPL

    prefix = rd.text[:i]
    global _REPL
    try:
        _REPL
    except NameError:
        _REPL = REPL(locals={})
    try:
        code = _REPL.compile(prefix, "<stdin>", "exec")
        out = "more" if code is None else "code"
    except SyntaxError as e:
        out = "syntax-error:" + type(e).__name__
    except Exception as e:  # noqa
        out = "error:" + type(e).__name__
    if kind[0] == "open" and out != "more":
        # only claim when the reader itself behaves (else the reader failure is reported by check_cut)
        ms, exc = read_prefix(prefix)
        if classify(exc) == "PrematureEndOfInput":
            return ("repl:open-but-%s" % out, dict(prefix=prefix, cut=i, construct=kind[1], repl=out))
    if kind[0] == "between" and out == "more":
        return ("repl:between-but-asks-for-more", dict(prefix=prefix, cut=i))
    return None


def check_case(case):
    try:
        rd = T.render(case["items"])
    except ValueError:
        return None
    cuts = [case["cut"]] if "cut" in case else range(len(rd.text) + 1)
    for i in cuts:
        if i > len(rd.text):
            return None
        r = check_cut(rd, i)
        if r:
            return r
        if case.get("repl"):
            r = repl_leg(rd, i, T.classify_cut(rd, i))
            if r:
                return r
    return None


def quote_all(items):
    """Make every top-level form quoted data so that the REPL leg compiles but cannot fail on unknown macros etc."""
    return [x if T.is_sep(x) else ["pre", "quote", True, [], x] for x in items]


def shard(ctx):
    S = T.strategies(max_depth=3 if ctx.quick else 4)

    def one(items):
        try:
            rd = T.render(items)
        except ValueError:
            ctx.count("skipped:model-constructor-rejects")
            return
        if len(rd.text) > 400:
            ctx.count("skipped:text-longer-than-400")
            return
        seen_fail = set()
        for i in range(len(rd.text) + 1):
            kind = T.classify_cut(rd, i)
            nt = kind[0] == "open" and not kind[1].startswith("seq")
            ctx.case(key=(rd.text, i), nontrivial=nt, cls=kind[0] + (":" + kind[1] if kind[1] and kind[0] == "open" else ""),
                     sample="%r cut at %d" % (rd.text[:200], i))
            r = check_cut(rd, i)
            if r is not None and r[0] not in seen_fail:
                seen_fail.add(r[0])
                ctx.fail(dict(items=items, cut=i), r[0], r[1])

    ctx.hyp(S["program"], one, ctx.per_shard(1200, 60000), "programs")

    def two(items):
        items = quote_all(items)
        try:
            rd = T.render(items)
        except ValueError:
            return
        if len(rd.text) > 160:
            ctx.count("skipped:repl-text-longer-than-160")
            return
        seen_fail = set()
        for i in range(len(rd.text) + 1):
            kind = T.classify_cut(rd, i)
            ctx.case(key=("repl", rd.text, i), nontrivial=kind[0] == "open", cls="repl:" + kind[0], sample="REPL %r cut at %d" % (rd.text[:200], i))
            r = repl_leg(rd, i, kind)
            if r is not None and r[0] not in seen_fail:
                seen_fail.add(r[0])
                ctx.fail(dict(items=items, cut=i, repl=True), r[0], r[1])

    S2 = T.strategies(max_depth=2, fields_compile_safe=True)
    ctx.hyp(S2["program"], two, ctx.per_shard(250, 8000), "repl")


MATCHERS = {
    "truncated_token_invalid": lambda case, bucket, detail: bucket.endswith("|truncated-token-is-itself-invalid"),
}
