"""C30 quote reproduces its argument model exactly."""
from vf import textgen as T

PROP = "C30"
RULE = (
    "models read from Engine-B texts (all syntax forms incl. FString/FComponent with conversion, = and nested specs, t-strings, "
    "bracket strings, keywords incl. the empty one, empty sequences, symbols that look special: unquote, None, ..., hyx_XaX, quote) "
    "and the same models re-assembled by constructors without positions, plus copies whose f-string attributes take edge values "
    "the reader never produces (brackets / conversion / expression = empty string, is_tstring flipped on inner fields); every evaluation is preceded by a refused one (a quoted tree holding a non-model object). Oracle: hy.eval(Expression([Symbol('quote'), m])) is "
    "node-by-node equal to m: same type, value (NaN == NaN), brackets, conversion, expression, is_tstring. Non-trivial = the model "
    "has an extra attribute somewhere (FString, FComponent, bracket string) or is a sequence of depth >= 2; distinct by source text"
)
ASSUMPTIONS = ["models come from the reader (vf/textgen.py texts), plus position-free copies"]


def strip_positions(m):
    import hy.models as M

    if isinstance(m, M.FComponent):
        return M.FComponent([strip_positions(x) for x in m], conversion=m.conversion, expression=m.expression, is_tstring=m.is_tstring)
    if isinstance(m, M.FString):
        return M.FString([strip_positions(x) for x in m], brackets=m.brackets, is_tstring=m.is_tstring)
    if isinstance(m, M.Sequence):
        return type(m)([strip_positions(x) for x in m])
    if isinstance(m, M.String):
        return M.String(str(m), brackets=m.brackets)
    if isinstance(m, M.Symbol):
        return M.Symbol(str(m), from_parser=True)
    if isinstance(m, M.Keyword):
        return M.Keyword(m.name, from_parser=True)
    if isinstance(m, M.Bytes):
        return M.Bytes(bytes(m))
    if isinstance(m, M.Integer):
        return M.Integer(int(m))
    if isinstance(m, M.Float):
        return M.Float(float(m))
    if isinstance(m, M.Complex):
        return M.Complex(complex(m))
    return m


def edge_attributes(m, which):
    """a position-free copy of m in which the extra attributes of f-string models take edge values the reader never produces
    but the constructors accept: which = 0 -> empty strings, 1 -> the other values flipped"""
    import hy.models as M

    if isinstance(m, M.FComponent):
        kids = [edge_attributes(x, which) for x in m]
        if which == 0:
            return M.FComponent(kids, conversion="", expression="", is_tstring=m.is_tstring)
        return M.FComponent(kids, conversion=m.conversion or "r", expression=(m.expression or "") + " ", is_tstring=not m.is_tstring)
    if isinstance(m, M.FString):
        kids = [edge_attributes(x, which) for x in m]
        if which == 0:
            return M.FString(kids, brackets="", is_tstring=m.is_tstring)
        return M.FString(kids, brackets=m.brackets, is_tstring=not m.is_tstring)
    if isinstance(m, M.Sequence):
        return type(m)([edge_attributes(x, which) for x in m])
    if isinstance(m, M.String) and m.brackets is None and which == 0 and "]]" not in (str(m) + "]") and "\r" not in m:
        return M.String(str(m), brackets="")
    return strip_positions(m)


def has_fmodel(m):
    import hy.models as M

    return isinstance(m, (M.FString, M.FComponent)) or (isinstance(m, M.Sequence) and any(has_fmodel(x) for x in m))


def check_model(m, src, tag):
    import hy
    import hy.models as M

    # history: an evaluation of the same outer shape that is (rightly) refused - a tree holding a non-model object - comes
    # first and its objects are freed; the property holds for every m whatever was evaluated before
    bad = M.Expression([M.Symbol("quote"), [0, [object()]]])
    try:
        hy.eval(bad, {})
    except Exception:  # noqa
        pass
    del bad
    form = M.Expression([M.Symbol("quote"), m])
    try:
        got = hy.eval(form, {})
    except Exception as e:  # noqa
        return ("quote-raised:" + type(e).__name__ + tag, dict(source=src, error=str(e)[:200]))
    d = T.model_diff(got, m)
    if d:
        return ("quote-differs:" + d.split(":", 1)[1].strip().split(" ")[0] + tag, dict(source=src, diff=d))
    return None


def check_case(case):
    import hy

    try:
        rd = T.render(case["items"])
        ms = list(hy.read_many(rd.text))
    except Exception:
        return None
    for m in ms:
        r = check_model(m, rd.text, "") or check_model(strip_positions(m), rd.text, ":constructed")
        if r:
            return r
        if has_fmodel(m):
            for which in (0, 1):
                try:
                    e = edge_attributes(m, which)
                except ValueError:
                    continue
                r = check_model(e, rd.text, ":edge-attributes")
                if r:
                    return r
    return None


def shard(ctx):
    S = T.strategies(max_depth=3 if ctx.quick else 4, allow_t=True)

    def one(items):
        try:
            rd = T.render(items)
        except ValueError:
            ctx.count("skipped:model-constructor-rejects")
            return
        nt = bool(rd.features & {"fstring", "bracket-string", "bracket-fstring"}) or rd.text.count("(") + rd.text.count("[") >= 2
        ctx.case(key=rd.text, nontrivial=nt, cls=sorted(rd.features) or ["plain"], sample=rd.text[:300])
        r = check_case(dict(items=items))
        if r is not None:
            ctx.fail(dict(items=items), r[0], r[1])

    ctx.hyp(S["program"], one, ctx.per_shard(4000, 300000), "programs")


MATCHERS = {}
