"""C24 f-strings evaluate like the equivalent Python f-string."""
PROP = "C24"
RULE = (
    "f-string structures rendered twice, as Hy (f\"...\", fr\"...\" and bracketed #[f[...]f] / #[f-x[...]f-x]) and as Python "
    "(f\"\"\"...\"\"\" / rf\"\"\"...\"\"\"): literal parts with {{ }} escapes, \\N{...}, \\n \\t \\\\ \\\" \\x41 escapes, raw newlines; "
    "replacement fields whose expression has a Hy and a Python rendering (variables, numbers, strings, arithmetic, calls, method "
    "calls, subscripts, list/tuple/dict displays, conditional expressions, nested f-strings), conversions !s !r !a, the = debug "
    "form (with the whitespace variants around it), format specs with literal text and nested fields (depth <= 2). Oracle: CPython "
    "evaluating the Python rendering in the same environment: identical string, or the same exception type (bad format spec for the "
    "value). Malformed variants (bad/missing conversion character, single '}', empty field, junk after the form, unclosed field) must "
    "raise a SyntaxError subclass from reading or compiling. Non-trivial = a field with conversion+spec, a nested field, or =; distinct by Hy text"
)
ASSUMPTIONS = ["CPython 3.12 (PEP 701 f-strings) is the reference; both renderings come from one structure built by this module"]

class Money:
    """a value whose format(), str() and repr() all differ (conversions must be applied before formatting)"""

    def __init__(self, v):
        self.v = v

    def __format__(self, spec):
        return "$" + format(self.v, spec or ".2f")

    def __str__(self):
        return "Money<%s>" % self.v

    def __repr__(self):
        return "Money(%r)" % self.v


ENV = dict(x=42, y=-3.5, s="hé'\"", w=8, p=2, lst=[1, 2], n=None, z=0, m=Money(3.5))
EXPRS = [("m", "m"), ("x", "x"), ("y", "y"), ("s", "s"), ("w", "w"), ("n", "n"), ("lst", "lst"), ("42", "42"), ("-1.5", "-1.5"), ('"lit"', "'lit'"), ("(+ x 1)", "(x + 1)"),
         ("(* y 2)", "(y * 2)"), ("(len s)", "len(s)"), ("(.upper s)", "s.upper()"), ("(get lst 0)", "lst[0]"), ("[x y]", "[x, y]"), ("#(x s)", "(x, s)"),
         ('{"k" x}', "{'k': x}"), ("(if z 1 2)", "(1 if z else 2)"), ("(str x)", "str(x)"), ("(repr s)", "repr(s)"), ('(.join "-" ["a" "b"])', "'-'.join(['a', 'b'])"),
         ("(not z)", "(not z)"), ("(= x 42)", "(x == 42)"), ("s.__class__.__name__", "s.__class__.__name__"), ("(. lst [0])", "lst[0]"),
         ('f"{x}"', 'f"{x}"'), ('f"a{w}b{p}"', 'f"a{w}b{p}"'), ('f"{f"{x}"}"', 'f"{f"{x}"}"')]
# expressions whose source text is the same in both languages (the = text is that source text); the nested f-strings have
# replacement fields of their own, whose text must appear in the outer field's = text as well
DEBUGGABLE = ["m", "x", "y", "s", "w", "n", "42", "lst", 'f"{x}"', 'f"a{w}b{p}"', 'f"{f"{x}"}"']
LITS = [("a", "a"), (" ", " "), ("{{", "{{"), ("}}", "}}"), ("x=", "x="), ("'", "'"), ("(", "("), ("\\n", "\\n"), ("\\t", "\\t"), ("\\N{DIGIT ONE}", "\\N{DIGIT ONE}"),
        ('\\"', '\\"'), ("\n", "\n"), (":", ":"), ("!", "!"), ("é", "é"), ("\\\\", "\\\\"), ("\\x41", "\\x41"), ("#", "#"), (";", ";"), ("\U0001F600", "\U0001F600")]
RAWLITS = [("a", "a"), (" ", " "), ("{{", "{{"), ("}}", "}}"), ('"', '"'), ("\\n", "\\n"), ("\n", "\n"), (":", ":"), ("é", "é"), ("[", "["), ("\\d", "\\d")]
SPECLITS = [">", "<", "^", "10", "5", ".2f", ".3", "x", "+", "d", "s", "e", "08", ",", "_", "%", "*^"]
WS = ["", " ", "  "]


def render(node, bracket):
    """node -> (hy_text, py_text) of the *inside* of an f-string"""
    hy, py = [], []
    for part in node:
        if part[0] == "lit":
            for h, p in part[1]:
                hy.append(h)
                py.append(p)
        else:
            _, expr, ws0, ws1, dbg, conv, spec = part
            if expr[0] == "nested":
                ih, ip = render(expr[1], False)
                eh, ep = 'f"' + ih + '"', 'f"""' + ip + '"""' if "\n" in ip else "f'" + ip + "'"
                if "'" in ip or "\\" in ip:
                    ep = 'f"""' + ip + '"""'
            else:
                eh, ep = expr[1], expr[2]
            if dbg is not None:
                # the debug text is the source text of the expression: only expressions whose text is the same in both languages
                h = "{" + ws0 + eh + (ws1 or " ") + "=" + dbg
                p = "{" + ws0 + ep + (ws1 or " ") + "=" + dbg
            else:
                sep_h = ws1 if (conv is None and spec is None) else (ws1 or " ")
                if eh.endswith((")", "]", "}", '"')):
                    sep_h = ws1
                h = "{" + (ws0 or (" " if eh.startswith("{") else "")) + eh + sep_h
                p = "{" + (ws0 or (" " if ep.startswith("{") else "")) + ep + ws1
            if conv:
                h += "!" + conv
                p += "!" + conv
            if spec is not None:
                sh, sp = [], []
                for q in spec:
                    if q[0] == "lit":
                        sh.append(q[1])
                        sp.append(q[1])
                    else:
                        sh.append("{" + q[1] + "}")
                        sp.append("{" + q[2] + "}")
                h += (" " if (conv is None and dbg is None and not sep_h and not eh.endswith((")", "]", "}", '"'))) else "") + ":" + "".join(sh)
                p += ":" + "".join(sp)
            hy.append(h + "}")
            py.append(p + "}")
    return "".join(hy), "".join(py)


def texts(case):
    inner_h, inner_p = render(case["parts"], case["style"] != "plain")
    style = case["style"]
    if style == "plain":
        return 'f"' + inner_h + '"', 'f"""' + inner_p + '"""'
    if style == "raw":
        return 'fr"' + inner_h + '"', 'rf"""' + inner_p + '"""'
    d = case.get("delim", "f")
    return "#[" + d + "[" + inner_h + "]" + d + "]", 'rf"""' + inner_p + '"""'


def outcome(fn):
    try:
        return ("value", fn())
    except SyntaxError as e:
        return ("syntax-error", type(e).__name__)
    except Exception as e:  # noqa
        return ("exception", type(e).__name__)


def valid_case(case):
    try:
        ht, pt = texts(case)
    except Exception:
        return False
    raw = case["style"] != "plain"

    def ok_parts(parts, pool):
        for part in parts:
            if part[0] == "lit":
                if any(tuple(x) not in pool for x in part[1]):
                    return False
            elif part[0] == "field":
                if len(part) != 7:
                    return False
                e = part[1]
                if e[0] == "expr" and (e[1], e[2]) not in EXPRS:
                    return False
                if e[0] == "nested" and not ok_parts(e[1], LITS):
                    return False
                if e[0] not in ("expr", "nested"):
                    return False
                if part[4] is not None and (e[0] != "expr" or e[1] not in DEBUGGABLE or e[1] != e[2]):
                    return False
                if part[2] not in WS or part[3] not in WS or (part[4] is not None and part[4] not in WS) or part[5] not in (None, "r", "s", "a"):
                    return False
            else:
                return False
        return True

    if not ok_parts(case["parts"], RAWLITS if raw else LITS):
        return False
    if case["style"] == "raw" and any(p[0] == "lit" and any(x[0] == '"' for x in p[1]) for p in case["parts"]):
        return False  # a bare quote in the literal text of fr"..." ends the string (decided on the structure: the scanner
        # below loses count of the braces of f-strings nested inside fields)
    # the Python rendering must itself be fine where the closing quotes are concerned
    inner = pt[pt.index('"""') + 3:-3]
    if inner.endswith('"') or '"""' in inner or inner.endswith("\\"):
        return False
    if raw and case["style"] == "bracket":
        d = case.get("delim", "f")
        ih = ht[len("#[" + d + "["):-len("]" + d + "]")]
        if ("]" + d + "]") in ih or ih[:1] in ("\n", "\r"):
            return False
    if case["style"] != "bracket" and not raw_scan_ok(ht[ht.index('"') + 1:-1], raw):
        return False
    return True


def raw_scan_ok(body, raw):
    i = 0
    depth = 0
    while i < len(body):
        c = body[i]
        if c == "\\" and depth == 0:
            i += 2
            continue
        if c == "{":
            if body[i:i + 2] == "{{" and depth == 0:
                i += 2
                continue
            depth += 1
        elif c == "}":
            if depth > 0:
                depth -= 1
            elif body[i:i + 2] == "}}":
                i += 2
                continue
        elif c == '"' and depth == 0:
            return False
        i += 1
    return i == len(body)


def check_case(case):
    import hy

    if case.get("kind") == "malformed":
        return check_malformed(case)
    if not valid_case(case):
        return None
    ht, pt = texts(case)
    py = outcome(lambda: eval(compile(pt, "<c24>", "eval"), dict(ENV)))
    if py[0] == "syntax-error":
        return None  # the structure is not a valid Python f-string: outside the claim
    hyo = outcome(lambda: hy.eval(hy.read(ht), dict(ENV)))
    if py != hyo:
        kind = "value-differs" if (py[0] == hyo[0] == "value") else "outcome-differs:%s-vs-%s" % (py[0], hyo[0])
        return (kind, dict(hy=ht, python=pt, python_result=repr(py[1])[:200], hy_result=repr(hyo[1])[:200]))
    return None


MALFORMED = ['f"{x !z}"', 'f"{x !}"', 'f"a}b"', 'f"{}"', 'f"{x y}"', 'f"{x"', 'f"{x !r"', 'f"{x :>"', 'f"{ }"', 'f"{x !rr}"', 'f"{x ! r}"', 'f"}"', 'f"{x}}"', 'f"{{x}"',
             '#[f[{x !z}]f]', '#[f[a}b]f]', '#[f[{}]f]', '#[f[{x y}]f]', 'f"{x !r !s}"', 'f"{x :{}}"', 'f"{x :{y z}}"', 'f"{x = !q}"', 'f"{(}"', 'f"{)}"', 'f"{x !R}"']


def check_malformed(case):
    import hy

    t = case["text"]
    if t not in MALFORMED:
        return None
    o = outcome(lambda: hy.eval(hy.read(t), dict(ENV)))
    if o[0] != "syntax-error":
        return ("malformed-accepted" if o[0] == "value" else "malformed-raised:" + str(o[1]), dict(text=t, outcome=repr(o)[:200]))
    return None


def shard(ctx):
    from hypothesis import strategies as st

    def parts(lits, depth):
        lit = st.lists(st.sampled_from(lits), min_size=1, max_size=3).map(lambda ps: ["lit", [list(x) for x in ps]])
        simple_expr = st.sampled_from(EXPRS).map(lambda e: ["expr", e[0], e[1]])
        expr = simple_expr if depth <= 0 else st.one_of(simple_expr, simple_expr, simple_expr, parts(LITS, depth - 1).map(lambda ps: ["nested", ps]))
        specpart = st.one_of(st.sampled_from(SPECLITS).map(lambda t: ["lit", t]), st.sampled_from([("w", "w"), ("p", "p"), ("(+ w 2)", "(w + 2)"), ('">"', "'>'")]).map(lambda e: ["field", e[0], e[1]]))
        spec = st.one_of(st.none(), st.none(), st.lists(specpart, max_size=3))
        field = st.builds(lambda e, w0, w1, dbg, conv, sp: ["field", e, w0, w1, dbg, conv, sp], expr, st.sampled_from(WS), st.sampled_from(WS),
                          st.one_of(st.none(), st.none(), st.none(), st.sampled_from(WS)), st.sampled_from([None, None, "r", "s", "a"]), spec)
        dbgfield = st.builds(lambda e, w0, w1, dbg, conv, sp: ["field", ["expr", e, e], w0, w1, dbg, conv, sp], st.sampled_from(DEBUGGABLE), st.sampled_from(WS), st.sampled_from(WS),
                             st.sampled_from(WS), st.sampled_from([None, None, "r", "s", "a"]), spec)
        return st.lists(st.one_of(lit, field, field, dbgfield), max_size=4)

    def fix(case):
        # '=' only with expressions that read the same in both languages
        for p in case["parts"]:
            if p[0] == "field" and p[4] is not None and (p[1][0] != "expr" or p[1][1] not in DEBUGGABLE):
                p[4] = None
        return case

    case = st.one_of(
        parts(LITS, 1).map(lambda ps: dict(style="plain", parts=ps)),
        parts(LITS, 1).map(lambda ps: dict(style="plain", parts=ps)),
        parts(RAWLITS, 1).map(lambda ps: dict(style="raw", parts=ps)),
        st.builds(lambda ps, d: dict(style="bracket", parts=ps, delim=d), parts(RAWLITS, 1), st.sampled_from(["f", "f-x", "f-", "f-=="])),
    ).map(fix)

    def one(c):
        if not valid_case(c):
            ctx.count("skipped:not-renderable-in-both-languages")
            return
        ht, pt = texts(c)
        feats = []
        for p in c["parts"]:
            if p[0] == "field":
                if p[4] is not None:
                    feats.append("debug=")
                if p[5] and p[6] is not None:
                    feats.append("conversion+spec")
                if p[6] and any(q[0] == "field" for q in p[6]):
                    feats.append("nested-spec-field")
                if p[1][0] == "nested":
                    feats.append("nested-fstring")
        ctx.case(key=ht, nontrivial=bool(feats), cls=sorted(set(feats)) + ["style:" + c["style"]], sample=ht + "   <=>   " + pt)
        r = check_case(c)
        if r is not None:
            ctx.fail(c, r[0], r[1])

    ctx.hyp(case, one, ctx.per_shard(8000, 300000), "fstrings")
    if ctx.k == 0:
        for t in MALFORMED:
            ctx.case(key=t, nontrivial=True, cls="malformed", sample=t)
            r = check_malformed(dict(text=t))
            if r is not None:
                ctx.fail(dict(kind="malformed", text=t), r[0], r[1])


MATCHERS = {}
