"""C13 Compiling the same source is deterministic across processes."""
import json
import os
import subprocess
import sys
import tempfile

from vf import progs as P
from vf import proggen as G
from vf import core

PROP = "C13"
RULE = (
    "sources: (a) scoping-heavy templates: functions nested 1..3 deep with (nonlocal ...)/(global ...) declarations of 1..6 names "
    "that resolve to a mix of enclosing-function locals, let bindings and module globals; comprehensions (lfor/gfor/dfor with :do, so "
    "they compile to generator functions) leaking 2..6 setx names at module and function level; let forms with several bindings; "
    "(b) Engine-A programs at large; (c) Engine-C scoping programs (vf/scopes.py: nonlocal/global with several names, lets, "
    "comprehensions with :do, classes) and C08 match forms. Each batch is compiled in fresh interpreter processes under PYTHONHASHSEED in {0,1,2} (quick) / "
    "{0,1,2,3,7,4242} (thorough). Oracle (metamorphic): the sha256 of ast.dump(module, include_attributes=True) and of a canonical "
    "dump of the code objects (bytecode, constants, names, line tables; frozenset constants order-normalised) are identical across "
    "all seeds. Non-trivial = the source has a declaration or a leak list with >= 3 names; distinct by source"
)
ASSUMPTIONS = [
    "bytecode identity is judged on code objects (co_code, constants, names, line table) rather than on marshal bytes, whose reference flags "
    "depend on object identity/refcounts in CPython itself",
    "CPython orders frozenset constants by hash; they are order-normalised before comparison (not Hy's doing)",
]
NAMES = ["a", "b", "c", "d", "e", "f", "g", "h", "alpha", "beta", "gamma", "x1", "x2", "k", "m", "n", "p", "q", "r", "zz", "foo", "bar", "baz", "spam"]
NSHARDS = 8


def template(draw):
    from hypothesis import strategies as st

    kind = draw(st.sampled_from(["nonlocal", "nonlocal", "leak", "leak", "let", "mixed", "let-nest", "let-nest", "require", "require"]))
    pick = lambda lo, hi: draw(st.lists(st.sampled_from(NAMES), min_size=lo, max_size=hi, unique=True))
    lines = []
    big = 0
    if kind in ("nonlocal", "mixed"):
        glob = pick(1, 4)
        loc = [n for n in pick(1, 5) if n not in glob]
        let = [n for n in pick(0, 3) if n not in glob and n not in loc]
        lines.append("(setv %s)" % " ".join("%s %d" % (n, i) for i, n in enumerate(glob)))
        decl_nl = draw(st.permutations(glob + loc + let))
        decl_nl = list(decl_nl)[: draw(st.integers(1, len(decl_nl)))]
        decl_g = [n for n in draw(st.permutations(glob)) ][: draw(st.integers(0, len(glob)))]
        depth = draw(st.integers(1, 3))
        inner = "(nonlocal %s)" % " ".join(decl_nl)
        if decl_g and not set(decl_g) & set(decl_nl):
            inner += " (global %s)" % " ".join(decl_g)
        inner += " " + " ".join("(setv %s (+ %s 1))" % (n, n) for n in decl_nl)
        body = "(defn f0 [] %s [%s])" % (inner, " ".join(decl_nl))
        for d in range(1, depth):
            body = "(defn f%d [] %s (f%d))" % (d, body, d - 1)
        letpart = "(let [%s] %s (f%d))" % (" ".join("%s %d" % (n, 50 + i) for i, n in enumerate(let)), body, depth - 1) if let else body + " (f%d)" % (depth - 1)
        lines.append("(defn outer [] (setv %s) %s)" % (" ".join("%s %d" % (n, 10 + i) for i, n in enumerate(loc)) if loc else "zzz 0", letpart))
        lines.append("(setv R1 (outer))")
        big = max(big, len(decl_nl), len(decl_g))
    if kind in ("leak", "mixed"):
        leak = pick(2, 6)
        comp = draw(st.sampled_from(["lfor", "gfor", "sfor"]))
        # some names are assigned more than once (a name list built through a set loses its order exactly then)
        assigned = list(leak) + [draw(st.sampled_from(leak)) for _ in range(draw(st.integers(0, 3)))]
        assigned = list(draw(st.permutations(assigned)))
        clause = " ".join(":do (setx %s (+ i %d))" % (n, j) for j, n in enumerate(assigned))
        form = "(list (%s i (range 3) %s i))" % (comp, clause)
        if draw(st.booleans()):
            lines.append("(defn leaky [] (setv w %s) [w %s])" % (form, " ".join(leak)))
            lines.append("(setv R2 (leaky))")
        else:
            lines.append("(setv R2 %s)" % form)
            lines.append("(setv R3 [%s])" % " ".join(leak))
        big = max(big, len(leak))
    if kind == "let":
        names = pick(3, 6)
        lines.append("(setv R4 (let [%s] (defn g [] (nonlocal %s) %s [%s]) (g)))" % (
            " ".join("%s %d" % (n, i) for i, n in enumerate(names)), " ".join(names), " ".join("(setv %s (* %s 2))" % (n, n) for n in names), " ".join(names)))
        big = max(big, len(names))
    if kind == "let-nest":
        # (nonlocal a b ...) written inside lets nested 1..3 deep within one function; the names live in the enclosing function,
        # in lets around the inner function, or in the nested lets themselves
        outer = pick(2, 6)
        around = [n for n in pick(0, 3) if n not in outer]
        decl = list(draw(st.permutations(outer + around)))[: draw(st.integers(2, len(outer + around)))]
        depth = draw(st.integers(1, 3))
        body = "(nonlocal %s) %s [%s]" % (" ".join(decl), " ".join("(setv %s (+ %s 1))" % (n, n) for n in decl), " ".join(decl))
        for d in range(depth):
            body = "(let [u%d %d] %s)" % (d, d, body)
        fn = "(defn inner [] %s)" % body
        if around:
            fn = "(let [%s] %s (inner))" % (" ".join("%s %d" % (n, 70 + i) for i, n in enumerate(around)), fn)
        else:
            fn += " (inner)"
        lines.append("(defn outer2 [] (setv %s) %s)" % (" ".join("%s %d" % (n, 20 + i) for i, n in enumerate(outer)), fn))
        lines.append("(setv R5 (outer2))")
        big = max(big, len(decl))
    if kind == "require":
        mod = draw(st.sampled_from(["vf.c13_macros", "vf.c13_macros_exp"]))
        pool = ["alpha", "beta", "gamma-ray", "delta", "epsilon", "zeta"]
        shape = draw(st.sampled_from(["star", "star", "names", "as", "bare"]))
        if shape == "star":
            spec = mod + " *"
        elif shape == "names":
            ns = list(draw(st.permutations(pool)))[: draw(st.integers(2, 6))]
            spec = "%s [%s]" % (mod, " ".join(n if draw(st.booleans()) else "%s :as q%d" % (n, i) for i, n in enumerate(ns)))
        elif shape == "as":
            spec = mod + " :as P"
        else:
            spec = mod
        place = draw(st.sampled_from(["defn", "defn", "class", "module", "fn-in-let"]))
        if place == "defn":
            lines.append("(defn rq [] (require %s) 1)" % spec)
        elif place == "class":
            lines.append("(defclass RQ [] (require %s) (setv v 1))" % spec)
        elif place == "fn-in-let":
            lines.append("(let [w 1] (defn rq2 [] (require %s) w))" % spec)
        else:
            lines.append("(require %s)" % spec)
        big = max(big, 3)
    return "\n".join(lines), big


def run_batch(sources, seeds, with_text=False):
    """-> {seed: [[ast_hash, code_hash, text], ...]}"""
    os.makedirs(os.path.join(core.WORK, "c13"), exist_ok=True)
    fd, path = tempfile.mkstemp(suffix=".json", dir=os.path.join(core.WORK, "c13"))
    with os.fdopen(fd, "w") as f:
        json.dump(sources, f)
    out = {}
    try:
        for s in seeds:
            env = dict(os.environ)
            env["PYTHONHASHSEED"] = str(s)
            r = subprocess.run([sys.executable, "-m", "vf.c13worker", path] + (["text"] if with_text else []), env=env, capture_output=True, text=True, cwd=core.ROOT)
            if r.returncode != 0:
                raise RuntimeError("worker failed: " + r.stderr[-500:])
            out[s] = json.loads(r.stdout)
    finally:
        os.unlink(path)
    return out


def judge(src, per_seed):
    seeds = sorted(per_seed)
    a0 = per_seed[seeds[0]]
    for s in seeds[1:]:
        a = per_seed[s]
        if a[0].startswith("error:") or a0[0].startswith("error:"):
            if a[0] != a0[0]:
                return ("outcome-differs", dict(source=src, seeds=[seeds[0], s], outcomes=[a0[:2], a[:2]]))
            continue
        if a[0] != a0[0]:
            return ("ast-differs", dict(source=src, seeds=[seeds[0], s], python_a=a0[2][:600], python_b=a[2][:600]))
        if a[1] != a0[1]:
            return ("bytecode-differs", dict(source=src, seeds=[seeds[0], s]))
    return None


def check_case(case):
    seeds = case.get("seeds", [0, 1, 2, 3, 7, 4242])
    res = run_batch([case["source"]], seeds, with_text=True)
    return judge(case["source"], {s: res[s][0] for s in seeds})


def shrink(case, same, budget):
    return case


def shard(ctx):
    from hypothesis import strategies as st

    seeds = [0, 1, 2] if ctx.quick else [0, 1, 2, 3, 7, 4242]
    batch = []

    @st.composite
    def tmpl(draw):
        return template(draw)

    def add_t(t):
        src, big = t
        batch.append((src, big >= 3, "template"))

    def add_p(t):
        prog, mode = t
        batch.append((P.wrap_source(prog, mode), False, "engine-a"))

    ctx.hyp(tmpl(), add_t, ctx.per_shard(700, 16000), "templates")
    ctx.hyp(st.tuples(G.program(budget=40, depth=4), st.sampled_from(["module", "function"])), add_p, ctx.per_shard(300, 8000), "engine-a")

    # Engine C scoping programs (several-name declarations, lets, comprehensions, classes) and match forms
    from vf import scopes as S
    from vf.props import c08

    def add_s(prog):
        f = S.features(prog)
        batch.append((S.render(prog), bool(f & {"nonlocal-several-names", "global-several-names", "nonlocal+global-in-one-function", "comprehension-with-do"}), "engine-c"))

    def add_m(case):
        batch.append((c08.render(case)[0], False, "match"))

    ctx.hyp(S.program_strategy("decl"), add_s, ctx.per_shard(300, 8000), "engine-c-decl")
    ctx.hyp(S.program_strategy("let"), add_s, ctx.per_shard(150, 4000), "engine-c-let")
    ctx.hyp(c08.strategies(), add_m, ctx.per_shard(150, 4000), "match")
    for i in range(0, len(batch), 200):
        if ctx.out_of_time():
            return
        chunk = batch[i:i + 200]
        res = run_batch([b[0] for b in chunk], seeds)
        for j, (src, nt, kind) in enumerate(chunk):
            per = {s: res[s][j] for s in seeds}
            err = per[seeds[0]][0].startswith("error:")
            ctx.case(key=src, nontrivial=nt and not err, cls=[kind, "compile-error" if err else "compiled"], sample=src)
            r = judge(src, per)
            if r is not None:
                ctx.fail(dict(source=src, seeds=seeds), r[0], r[1])


MATCHERS = {}
