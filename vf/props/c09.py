"""C09 try/except/else/finally and with behave correctly at every raise point."""
import itertools
import json

from vf import progs as P
from vf import proggen as G

PROP = "C09"
LEVEL = "fault_enumeration"
RULE = (
    "Engine-A programs restricted to try (0..2 handlers of the forms [], [E], [[E1 E2]], [v E], [v [E1 E2]]; optional else/finally), "
    "with (1..2 managers, named and _, some suppressing), raise, and the forms that consume their value (setv, call arguments, "
    "and/or, if, let, fn), nesting depth <= 3. Each program is compiled once and run fault-free to count its N dynamic effect points "
    "(body, handler, else, finally forms, __enter__, __exit__); then it is re-run with an exception injected at EVERY point k <= N "
    "(exhaustive single faults, classes XA(Exception) and XC(BaseException), plus XB in thorough), and with pairs of faults (k1<k2) -- "
    "all pairs for N <= 10 in thorough, sampled in quick. Oracle: the reference interpreter, whose try/with clauses are Python's own "
    "try/except/else/finally on the same fault plan: clauses run, finally exactly once, escaping exception, value of try/with, except "
    "variable bound only in its handler without clobbering a same-named outer variable. A second generator wraps a with/try/if/or/let "
    "form in (setv keep FORM) under a catching try, with keep already assigned and read afterwards (an assignment abandoned by an "
    "exception must leave the old value). Non-trivial = the fault lands after at least "
    "one other effect inside a try/with (not the first event); distinct by (source, fault plan)"
)
ASSUMPTIONS = [
    "reference interpreter vf/progs.py; CPython's own try/with semantics define the expected behaviour",
    "every effect may raise, so at most one non-pure child is generated per unspecified-order context (argument lists)",
    "statement-producing forms as exception-type expressions are not generated (Hy hoists them; the docs do not define it)",
]
FORMS = ["try", "try", "with", "with", "withpre", "raise", "do2", "if", "setv", "setx", "callfn", "let", "and", "or", "when"]


def check_case(case):
    prog = case["prog"]
    if not P.valid(prog):
        return None
    try:
        c = P.Compiled(prog, case.get("mode", "module"))
    except SyntaxError as e:
        return ("compile-error", dict(source=P.wrap_source(prog, case.get("mode", "module")), error=str(e)[:200]))
    # Compiled.check decides whether a disagreement is exactly the recorded finding (bucket suffix P.KNOWN_WITH_TAG):
    # it re-runs the reference with that one defect modelled and requires full agreement in value, exception and trace
    return c.check(case.get("fault"))


def has_trywith(prog):
    s = json.dumps(prog)
    return '"try"' in s or '"with"' in s


def shard(ctx):
    from hypothesis import strategies as st

    depth = 3
    strat = st.tuples(G.program(budget=30 if ctx.quick else 45, depth=depth, forms=FORMS, faults=True),
                      st.sampled_from(["module", "function"]), st.randoms(use_true_random=False))

    def one(t):
        prog, mode, rnd = t
        if not has_trywith(prog):
            ctx.count("skipped:no-try-or-with")
            return
        src = P.wrap_source(prog, mode)
        try:
            c = P.Compiled(prog, mode)
        except SyntaxError as e:
            ctx.fail(dict(prog=prog, mode=mode), "compile-error", dict(source=src, error=str(e)[:200]))
            return
        ref0 = P.interpret(prog, mode)
        n = ref0["nevents"]
        r = c.check(None)
        shape = ["fault-free"]
        withs = [x for x in P._walk(prog) if x[0] == "with"]
        if any(len(w[1]) > 1 for w in withs):
            shape.append("program:with-of-several-managers")
        pres = {P.mgr_pre(m) for w in withs for m in w[1]} - {None}
        if pres:
            shape.append("program:manager-expression-needs-statements")
        ctx.case(key=(src, None), nontrivial=False, cls=shape, sample=src)
        if r is not None:
            ctx.fail(dict(prog=prog, mode=mode), r[0], r[1])
            return
        classes = ["XA", "XC"] if ctx.quick else ["XA", "XB", "XC"]
        seen = set()
        log0 = c.run(None)["log"] if r is None else []

        def where(k):
            if not 0 < k <= len(log0):
                return "fault-at:?"
            e = log0[k - 1]
            if e >= 1000:
                return "fault-at:__enter__" if e % 10 == 1 else "fault-at:__exit__"
            return "fault-at:manager-expression" if e in pres else "fault-at:body/handler/else/finally form"

        def report(plan, r):
            if r is None:
                return
            if r[0].endswith(P.KNOWN_WITH_TAG):
                ctx.excluded_known += 1
            if r[0] not in seen:
                seen.add(r[0])
                ctx.fail(dict(prog=prog, mode=mode, fault=plan), r[0], r[1])

        # exhaustive single faults
        for k in range(1, n + 1):
            for cls in classes:
                plan = [[k, cls]]
                r = c.check(plan)
                ctx.case(key=(src, k, cls), nontrivial=k > 1, cls=["single-fault", "exc:" + cls, where(k)], sample="%s  ;; fault %s at effect point %d of %d" % (src, cls, k, n))
                report(plan, r)
        # pairs: the second index counts events of the run that already had the first fault
        pairs = []
        if n >= 1:
            if not ctx.quick and n <= 10:
                pairs = [(k1, k2) for k1 in range(1, n + 1) for k2 in range(k1 + 1, n + 4)]
            else:
                for _ in range(min(6, n)):
                    k1 = rnd.randint(1, n)
                    pairs.append((k1, rnd.randint(k1 + 1, n + 3)))
        for k1, k2 in pairs:
            c1, c2 = rnd.choice(classes), rnd.choice(classes)
            plan = [[k1, c1], [k2, c2]]
            ref = P.interpret(prog, mode, plan)
            hit_second = ref["nevents"] >= k2
            r = c.check(plan)
            ctx.case(key=(src, k1, c1, k2, c2), nontrivial=hit_second, cls=["fault-pair", "second-fault-" + ("hit" if hit_second else "not-reached")],
                     sample="%s  ;; faults %s@%d %s@%d" % (src, c1, k1, c2, k2))
            report(plan, r)

    ctx.hyp(strat, one, ctx.per_shard(4000, 60000), "programs")

    # a variable that already holds a value is re-assigned from a statement-lifted construct (with / try / if / and-or) that does
    # not mention it, under a handler that catches what escapes; afterwards the variable is read: when the construct is left by
    # an exception, the assignment never happened and the variable must still hold the old value
    @st.composite
    def guarded(draw):
        g = G.Gen(draw, budget=18 if ctx.quick else 30, forms=FORMS, faults=True)
        env = G.Env()
        inner = env.child()
        kind = draw(st.sampled_from(["with", "with", "try", "if", "or", "let"]))
        node, _info = getattr(g, "g_" + kind)("any", depth - 1, inner)
        a, b = next(g.ids), next(g.ids)
        prog = [["setv", [["keep", ["lit", 77]]]],
                ["try", [["setv", [["keep", node]]], ["eff", a, 0]], [[None, ["XA", "XB", "XC"], [["eff", b, 0]]]], None, None],
                ["var", "keep"]]
        return prog

    ctx.hyp(st.tuples(guarded(), st.sampled_from(["module", "function"]), st.randoms(use_true_random=False)), one, ctx.per_shard(1200, 20000), "guarded-assignment")


MATCHERS = {
    "exit_raises_after_body": lambda case, bucket, detail: bucket.endswith(P.KNOWN_WITH_TAG),
}
