"""C25 hy.repr of any readable model reads back to the same model."""
from vf import textgen as T

PROP = "C25"
RULE = (
    "models obtained by reading Engine-B texts (every syntax form: symbols, dotted identifiers, keywords, numbers incl. NaN/Inf-free "
    "floats and complex, strings under every prefix, bracket strings with leading newlines and ']' runs, f-strings and t-strings plain "
    "and bracketed with conversions, = and nested multi-part format specs, all sequence kinds, sugar in sugar and long form, nested "
    "to depth 3-4), each top-level model taken separately; plus enumerated bracket f-/t-strings whose format-spec text, up to three "
    "fields deep, holds quotes, backslashes and newlines (characters a plain f-string would have to escape). Oracle (round trip): m2 = hy.eval(hy.read(hy.repr(m))) has the same model "
    "type at every node, equal values (NaN == NaN), the same brackets / conversion / is_tstring attributes, and hy.repr(m2) == "
    "hy.repr(m). Non-trivial = the model contains an FString/FComponent, a bracket string, or a sugar-shaped expression; distinct by repr text"
)
ASSUMPTIONS = ["FComponent.expression is not compared (the property does not list it)", "models come from the reader, so they are readable by construction"]
ATTRS = ("brackets", "conversion", "is_tstring")


def models_of(items):
    import hy

    rd = T.render(items)
    return rd, list(hy.read_many(rd.text))


KNOWN_TAG = "|format-spec-literal-with-close-brace"


def spec_literal_with_close_brace(m):
    """root cause of the recorded finding: somewhere in m a format spec has a literal part containing '}' (the reader makes
    one only from the = syntax in a nested field whose source text contains '}'); a spec has no way to write that character"""
    import hy.models as M

    if isinstance(m, M.FComponent):
        for part in m[1:]:
            if isinstance(part, M.String) and "}" in part:
                return True
    if isinstance(m, M.Sequence):
        return any(spec_literal_with_close_brace(x) for x in m)
    return False


def check_model(m, src):
    r = check_model_(m, src)
    if r is not None and spec_literal_with_close_brace(m):
        return (r[0].split(":")[0] + KNOWN_TAG, r[1])
    return r


def check_model_(m, src):
    import hy

    try:
        text = hy.repr(m)
    except Exception as e:  # noqa
        return ("repr-raised:" + type(e).__name__, dict(source=src, error=repr(e)[:200]))
    try:
        back = hy.read(text)
    except Exception as e:  # noqa
        return ("repr-unreadable:" + type(e).__name__, dict(source=src, repr=text, error=str(getattr(e, "msg", e))[:200]))
    try:
        m2 = hy.eval(back, {})
    except Exception as e:  # noqa
        return ("repr-not-evaluable:" + type(e).__name__, dict(source=src, repr=text, error=str(e)[:200]))
    d = T.model_diff(m2, m, attrs=ATTRS)
    if d:
        return ("round-trip-differs:" + _where(m, d), dict(source=src, repr=text, diff=d))
    try:
        text2 = hy.repr(m2)
    except Exception as e:  # noqa
        return ("second-repr-raised:" + type(e).__name__, dict(source=src, repr=text))
    if text2 != text:
        return ("second-repr-differs", dict(source=src, repr=text, second=text2))
    return None


def _where(m, d):
    """coarse location class of the first difference: the model type at the differing path"""
    import re

    path = [int(x) for x in re.findall(r"\[(\d+)\]", d.split(":")[0])]
    t = m
    kinds = [type(t).__name__]
    for i in path:
        try:
            t = t[i]
            kinds.append(type(t).__name__)
        except Exception:
            break
    what = d.split(":", 1)[1].strip().split(" ")[0]
    return kinds[-1] + ("<" + kinds[-2] if len(kinds) > 1 else "") + ":" + what


SPEC_TEXTS = ['"', "\\", 'a"b', "\\n", "\n>", ">5", "é\"", "\\\"", "'", "x\ty"]
SPEC_TEMPLATES = ["#[f[{x :%s}]f]", "#[f[{x :{w :%s}}]f]", "#[f-x[a{x !r :{w :{p :%s}}}b]f-x]", "#[f[{x :>{w :%s}<}]f]", "#[t[{x :{w :%s}}]t]",
                  "#[f[{x :{w = :%s}}]f]"]


def check_text(case):
    """bracket f-strings whose (nested) format-spec text holds characters that a plain f-string would have to escape"""
    import hy

    try:
        ms = list(hy.read_many(case["text"]))
    except Exception:
        return None  # not readable: not in the domain
    for m in ms:
        r = check_model(m, case["text"])
        if r:
            return r
    return None


def check_case(case):
    if "text" in case:
        return check_text(case)
    try:
        rd, ms = models_of(case["items"])
    except ValueError:
        return None
    except Exception:
        return None  # C20's business
    for m in ms:
        r = check_model(m, rd.text)
        if r:
            return r
    return None


def shard(ctx):
    S = T.strategies(max_depth=3 if ctx.quick else 4, allow_t=True)

    def one(items):
        try:
            rd = T.render(items)
        except ValueError:
            ctx.count("skipped:model-constructor-rejects")
            return
        nt = bool(rd.features & {"fstring", "bracket-string", "sugar", "bracket-fstring"})
        ctx.case(key=rd.text, nontrivial=nt, cls=sorted(rd.features) or ["plain"], sample=rd.text[:300])
        r = check_case(dict(items=items))
        if r is not None:
            if r[0].endswith(KNOWN_TAG):
                ctx.excluded_known += 1
            ctx.fail(dict(items=items), r[0], r[1])

    ctx.hyp(S["program"], one, ctx.per_shard(5000, 300000), "programs")
    if ctx.k == 0:
        for tmpl in SPEC_TEMPLATES:
            for t in SPEC_TEXTS:
                case = dict(text=tmpl % t)
                ctx.case(key=case["text"], nontrivial=True, cls=["bracket-fstring-spec-text"], sample=case["text"])
                r = check_case(case)
                if r is not None:
                    ctx.fail(case, r[0], r[1])


def _known_spec_brace(case, bucket, detail):
    return bucket.endswith(KNOWN_TAG)


MATCHERS = {"spec_literal_with_close_brace": _known_spec_brace}
