"""C31 quasiquote substitutes unquotes at the right nesting level."""
import json

from vf import c31_ref as R

PROP = "C31"
RULE = (
    "templates are JSON trees turned into models by constructors (never by the reader): atoms (symbols incl. the words unquote, "
    "unquote-splice, quasiquote, quote in non-head positions, keywords, ints, floats, strings and bracket strings, bytes), every "
    "sequence kind (Expression, List, Tuple, Set, Dict, FString with brackets/is_tstring, FComponent with conversion/expression/"
    "is_tstring), quasiquote nested to level 2, unquote and unquote-splice at every level (reaching level 0 through 0, 1 or 2 nested "
    "quasiquotes, or staying literal), and inside a level-0 unquote a small code subset: a variable, a literal, a list display, "
    "(quote T), a nested quasiquote evaluated afresh. The environment binds variables to ints, floats (incl. nan), strings, bytes, "
    "None, booleans, lists, tuples, dicts, sets (<= 1 element), models, generators (used once) and ranges; splice values include every "
    "false value. Three sources: fixed documentation examples, two enumerated grids (sequence kind x splice value x position; "
    "quasiquote/unquote chains by depth), and Hypothesis-drawn templates. Oracle: a reference expander written from docs/api.rst "
    "(level-0 unquote -> value, level-0 unquote-splice -> elements of (or value []), quasiquote level+1, unquote at level>0 -> literal "
    "with level-1, all else literal) is compared with hy.eval of (quasiquote TEMPLATE): type-, value- and attribute-exact "
    "(brackets, conversion, expression, is_tstring). The result must equal the reference with every substituted value promoted "
    "(hy.as-model) or the reference with every substituted value inserted as it is; literal positions are exact in both. "
    "Non-trivial = a live splice whose parent is not an Expression, or a quasiquote inside the template (nesting >= 1); distinct by "
    "the case JSON"
)
ASSUMPTIONS = [
    "hy.eval evaluates (quasiquote T) with the variables taken from the globals dict it is given",
    "docs/api.rst does not say when a substituted value becomes a model; docs/syntax.rst and docs/macros.rst place promotion at "
    "compile/eval time and tests/native_tests/quote.hy compares (hy.as-model result): a result holding the substituted values "
    "themselves counts as 'the promoted value' once promoted (STRICT_PROMOTION=True reports it instead)",
    "a generator is unquote-spliced at most once per template (evaluation order of collection elements is unspecified)",
    "templates whose whole body is ~@x, wrong-arity unquotes, and code "
    "inside live unquotes beyond the listed subset are outside the domain",
]

# Flip to True to report a result that holds un-promoted substituted values (what Hy does today) as a failure with the
# root-cause tag below; MATCHERS["raw_unquote_value"] recognises exactly that tag.
STRICT_PROMOTION = False
RAW_TAG = "C31-raw-unquote"
BUDGET_QUICK = 900  # bounded by case counts; the time budget only guards against a badly loaded machine
BUDGET_THOROUGH = 3000


def judge(case):
    """-> (None | (bucket, detail), features | None).  features is None when the case is outside the domain."""
    import hy
    import hy.models as M

    if not R.wf_case(case):
        return None, None
    t, env = case["t"], case["env"]
    try:
        rp = R.Ref(env, True)
        exp_p = rp.expand_top(t)
        rr = R.Ref(env, False)
        exp_r = rr.expand_top(t)
        form = M.Expression([M.Symbol("quasiquote"), R.Ref(env, True).literal(t)])
        glob = dict(R.Ref(env, False).env)
    except R.OutOfDomain:
        return None, None
    feats = set(rp.feat)
    src = R.show_case(case)
    try:
        got = hy.eval(form, glob)
    except Exception as e:  # noqa: any exception on an in-domain template is a finding
        return ("qq-raised:" + type(e).__name__, dict(source=src, error=str(e)[:300])), feats
    dp = R.tree_diff(got, exp_p)
    dr = R.tree_diff(got, exp_r)
    distinguishable = R.tree_diff(exp_r, exp_p) is not None
    if dp is None or dr is None:
        feats.add("flavour:" + ("no-plain-value-substituted" if not distinguishable else "promoted" if dp is None else "raw"))
        if STRICT_PROMOTION and dp is not None:
            return ("unquote-value-not-promoted|" + RAW_TAG, dict(source=src, diff_vs_promoted=dp[2], got=repr(got)[:600])), feats
        return None, feats
    d = dr if R.has_raw(got) else dp
    # root-cause proxy: the kind of disagreement; the container kind only says where a splice happened to sit, so it is
    # kept for attribute mismatches alone (there it names the model class that lost the attribute)
    return ("qq-differs:" + (d[0] + "-in-" + d[1] if d[0].startswith("attribute") else d[0]),
            dict(source=src, diff_vs_promoted=dp[2], diff_vs_raw=dr[2], got=repr(got)[:600], expected_promoted=repr(exp_p)[:600])), feats


def check_case(case):
    return judge(case)[0]


# -- enumerated sub-domains ------------------------------------------------------------------------------------

A, B = ["sym", "a"], ["sym", "b"]
V0, V1, V2 = ["sym", "v0"], ["sym", "v1"], ["sym", "v2"]


def U(x):
    return ["unquote", x]


def S(x):
    return ["splice", x]


def Q(x):
    return ["quasi", x]


def seqnode(kind, kids):
    if kind == "fstring":
        return ["fstring", kids, None, False]
    if kind == "fcomp":
        return ["fcomp", kids, None, None, False]
    return [kind, kids]


FIXED = [
    # docs/api.rst: (quasiquote (+ 1 (unquote x))) => '(+ 1 2)
    dict(t=["expr", [["sym", "+"], ["int", 1], U(V0)]], env=[["int", 2]]),
    # `[a b ~X c d ~@X e f] => '[a b [1 2 3] c d 1 2 3 e f]
    dict(t=["list", [A, B, U(V0), ["sym", "c"], ["sym", "d"], S(V0), ["sym", "e"], ["sym", "f"]]], env=[["list", [["int", 1], ["int", 2], ["int", 3]]]]),
    # "any sort of false value (such as None) ... treated as an empty list"
    dict(t=["expr", [A, S(V0), B]], env=[["none"]]),
    # tests/native_tests/quote.hy shapes
    dict(t=["expr", [["int", 1], Q(U(["expr", [["sym", "+"], ["int", 1], U(V0), S(V1)]])), ["int", 4]]], env=[["int", 5], ["none"]]),
    dict(t=Q(Q(["list", [U(V0), U(U(V1)), U(U(U(V2)))]])), env=[["int", 1], ["int", 2], ["int", 3]]),
    dict(t=["expr", [["sym", "defmacro"], U(V0), ["list", []], Q(["expr", [U(["expr", [["sym", "quote"], U(V1)]]), S(V2)]])]],
         env=[["model", ["sym", "m"]], ["model", ["sym", "proc"]], ["list", [["int", 1]]]]),
    # `~x and the value of a nested evaluated quasiquote
    dict(t=U(V0), env=[["list", [["int", 1], ["str", "s"]]]]),
    dict(t=["list", [S(Q(["tuple", [A, U(V0)]])), U(Q(["set", [S(V1)]]))]], env=[["int", 3], ["str", "xy"]]),
    # heads that only look like unquotes
    dict(t=["list", [["sym", "unquote"], V0]], env=[["int", 1]]),
    dict(t=["expr", [A, ["sym", "unquote"], V0]], env=[["int", 1]]),
    dict(t=["expr", [["expr", [["sym", "quote"], U(V0)]], ["tuple", [["sym", "unquote-splice"], V0]]]], env=[["list", [["int", 1]]]]),
    # attributes next to a substitution
    dict(t=["fstring", [["str", "a", None], ["fcomp", [U(V0), ["str", ">", None], S(V1)], "r", "~x", True], ["str", "b", None]], "x", True],
         env=[["int", 3], ["list", [["str", "5"]]]]),
    dict(t=["fstring", [["str", "a", None], S(V0), ["str", "b", None]], None, False], env=[["list", [["str", "p"], ["str", "q"]]]]),
    dict(t=["dict", [S(V0), ["kw", "k"], U(V1)]], env=[["dict", [[["str", "p"], ["int", 1]], [["str", "q"], ["int", 2]]]], ["none"]]),
    dict(t=["list", [["str", "s", "=="], S(V0), ["bytes", "b"], ["float", "nan"], ["kw", ""]]], env=[["gen", [["int", 1], ["float", "nan"]]]]),
]

SPLICE_VALUES = [
    ["none"], ["int", 0], ["bool", False], ["float", "0.0"], ["str", ""], ["bytes", ""], ["list", []], ["tuple", []], ["dict", []],
    ["set", []], ["range", 0], ["gen", []], ["model", ["list", []]], ["model", ["str", "", None]], ["model", ["int", 0]], ["model", ["kw", ""]],
    ["list", [["int", 1]]], ["list", [["int", 1], ["list", [["int", 2]]], ["none"]]], ["tuple", [["str", "s"], ["bool", True]]],
    ["str", "xy"], ["bytes", "AB"], ["dict", [[["str", "k"], ["int", 1]]]], ["set", [["int", 5]]], ["range", 3],
    ["gen", [["int", 1], ["str", "g"]]], ["model", ["expr", [A, ["int", 1]]]], ["model", ["sym", "ab"]], ["model", ["str", "pq", None]],
    ["model", ["fstring", [["str", "z", None], ["fcomp", [A], None, "a", False]], None, False]], ["model", ["dict", [["kw", "k"], ["int", 1]]]],
    ["list", [["model", U(A)], ["model", S(B)]]],
]


def grid_splice():
    """every sequence kind x every splice value x position (only / first / middle / last / twice-adjacent)."""
    for kind in R.SEQ:
        for val in SPLICE_VALUES:
            twice = val[0] != "gen"
            for pos in range(5):
                if pos == 4 and not twice:
                    continue
                kids = [[S(V0)], [S(V0), A, B], [A, S(V0), B], [A, B, S(V0)], [A, S(V0), S(V0), B]][pos]
                yield dict(t=seqnode(kind, kids), env=[val])


def grid_chain():
    """~x / ~@x under every valid interleaving of n quasiquotes (n <= 2) and m-1 literal unquotes; the leaf is the m-th unquote.
    m == n + 1: the leaf is at level 0 (substituted); m <= n: it stays literal.  With no wrapper or with a sequence of
    each kind wrapped around every step."""
    from itertools import permutations

    for n in range(0, 3):
        for m in range(1, n + 2):
            for steps in sorted(set(permutations("q" * n + "u" * (m - 1)))):
                lvl, ok = 0, True
                for s in steps:
                    lvl += 1 if s == "q" else -1
                    ok = ok and lvl >= 0 and not (s == "u" and lvl < 0)
                    if s == "u" and lvl + 1 < 1:  # an unquote met at level 0 would make its content code, not a template
                        ok = False
                if not ok:
                    continue
                for leaf in ("unquote", "splice"):
                    for wrap in (None,) + R.SEQ:
                        node = [leaf, V0]
                        if wrap:
                            node = seqnode(wrap, [A, node, ["int", 1]])
                        for s in reversed(steps):
                            node = Q(node) if s == "q" else U(node)
                            if wrap:
                                node = seqnode(wrap, [node, B])
                        yield dict(t=["list", [node, ["sym", "end"]]], env=[["list", [["int", 1], ["str", "s"]]]])


# -- Hypothesis strategy -----------------------------------------------------------------------------------------

SYMS = ["a", "b", "f", "x", "foo-bar", "foo_bar", "v0", "v1", "None", "True", "unquote", "unquote-splice", "unquote_splice", "quasiquote",
        "quote", "hy", "+", "a.b", "...", "hyx_XaX", "unpack-iterable", "or"]
KWS = ["a", "foo-bar", "", "k?"]
STRS = ["", "a", "b c", "~x", "`", "{x}", "é"]
BRACKETS = [None, None, None, "", "x", "=="]


def case_strategy(max_depth):
    from hypothesis import strategies as st

    import hy
    from hy.errors import HyWrapperError

    helper = R.Ref([], True)

    def promotable(val):
        try:
            hy.as_model(helper.value(val))
            return True
        except (HyWrapperError, R.OutOfDomain):
            return False

    def spliceable(val):
        try:
            v = helper.value(val) or []
            for x in iter(v):
                hy.as_model(x)
            return True
        except (TypeError, HyWrapperError, R.OutOfDomain):
            return False

    @st.composite
    def case(draw):
        env = []
        kinds = []  # per variable: (promotable, spliceable, single_use)
        pick = lambda xs: draw(st.sampled_from(xs))
        small = lambda lo, hi: draw(st.integers(lo, hi))

        def atom():
            k = pick(["sym", "sym", "sym", "kw", "int", "float", "str", "str", "bytes"])
            if k == "sym":
                return ["sym", pick(SYMS)]
            if k == "kw":
                return ["kw", pick(KWS)]
            if k == "int":
                return ["int", pick([0, 1, 2, -3, 42, 2 ** 70])]
            if k == "float":
                return ["float", pick(["1.5", "inf", "nan", "1e+100", "0.0"])]
            if k == "str":
                return ["str", pick(STRS), pick(BRACKETS)]
            return ["bytes", pick(["", "ab", "\xff"])]

        def scalar():
            k = pick(["int", "int", "float", "str", "str", "bytes", "none", "bool"])
            if k == "int":
                return ["int", pick([0, 1, -1, 7, 2 ** 70])]
            if k == "float":
                return ["float", pick(["0.0", "1.5", "nan", "inf"])]
            if k == "str":
                return ["str", pick(["", "ab", "x", "~y"])]
            if k == "bytes":
                return ["bytes", pick(["", "AB"])]
            if k == "none":
                return ["none"]
            return ["bool", pick([False, True])]

        def pvalue(d):
            """a value hy.as-model accepts"""
            k = pick(["scalar"] * 3 + (["list", "list", "tuple", "dict", "set", "model", "model"] if d > 0 else []))
            if k == "scalar":
                return scalar()
            if k in ("list", "tuple"):
                return [k, [pvalue(d - 1) for _ in range(small(0, 3))]]
            if k == "dict":
                keys = draw(st.lists(st.sampled_from([["int", 1], ["int", 2], ["str", "k"], ["str", ""], ["none"], ["model", ["kw", "k"]]]), max_size=2, unique_by=json.dumps))
                return ["dict", [[key, pvalue(d - 1)] for key in keys]]
            if k == "set":
                return ["set", [pick([["int", 1], ["str", "e"], ["none"]])] if small(0, 1) else []]
            return ["model", tmpl(min(d, 2), R.INF, False, 0)]

        def svalue(d):
            """a false value or an iterable of promotable values"""
            k = pick(["falsy", "falsy", "list", "list", "tuple", "str", "bytes", "dict", "set", "gen", "gen", "range", "model", "model", "model-atom"])
            if k == "falsy":
                return pick([["none"], ["int", 0], ["bool", False], ["float", "0.0"], ["str", ""], ["bytes", ""], ["list", []], ["tuple", []],
                             ["dict", []], ["set", []], ["range", 0], ["model", ["expr", []]], ["model", ["str", "", None]], ["model", ["int", 0]]])
            if k in ("list", "tuple", "gen"):
                return [k, [pvalue(d - 1) for _ in range(small(0, 3))]]
            if k == "str":
                return ["str", pick(["ab", "x"])]
            if k == "bytes":
                return ["bytes", "AB"]
            if k == "range":
                return ["range", small(0, 3)]
            if k in ("dict", "set"):
                v = pvalue(1)
                while v[0] not in ("dict", "set"):
                    v = ["dict", [[["str", "k"], v]]] if k == "dict" else ["set", []]
                return v
            if k == "model":
                return ["model", seq(max(d, 1), R.INF, 0)]
            return ["model", pick([["sym", "ab"], ["str", "pq", None], ["str", "", "x"]])]

        def new_var(val, single=False):
            env.append(val)
            kinds.append((promotable(val), spliceable(val), single or val[0] == "gen"))
            return ["sym", "v%d" % (len(env) - 1)]

        def form(fd, want):
            """code for a live unquote (want 'p': promotable value) or splice (want 's')."""
            old = [i for i, (p, s, single) in enumerate(kinds) if not single and (p if want == "p" else s)]
            k = pick((["old"] * 4 if old else []) + ["new"] * 4 + (["quote", "quasi", "listform", "tupleform", "dictform", "setform"] if fd > 0 else []) + ["literal"])
            if k == "old":
                return ["sym", "v%d" % pick(old)]
            if k == "new":
                return new_var(pvalue(2) if want == "p" else svalue(2))
            if k == "literal":
                return pick([["int", 5], ["str", "lit", None], ["float", "2.5"]]) if want == "p" else pick([["str", "lit", None], ["str", "", None], ["int", 0], ["bytes", "xy"]])
            if k == "quote":
                return ["expr", [["sym", "quote"], tmpl(fd, R.INF, False, 0) if want == "p" else seq(fd, R.INF, 0)]]
            if k == "quasi":
                return Q(tmpl(fd, 0, False, 0) if want == "p" else seq(fd, 0, 0))
            if k == "tupleform":
                return ["tuple", [form(fd - 1, "p") for _ in range(small(0, 3))]]
            if k == "dictform":  # a dict display: spliced, it gives its keys; unquoted, a Dict model of keys and values
                keys = [["str", "k", None], ["int", 7], ["str", "", None]][: small(0, 3)]
                return ["dict", [x for key in keys for x in (key, form(fd - 1, "p"))]]
            if k == "setform":  # one distinct element, possibly written twice
                e = pick([["int", 3], ["str", "e", None], ["float", "2.5"]])
                return ["set", [e] * small(0, 2)]
            return ["list", [form(fd - 1, "p") for _ in range(small(0, 3))]]

        def seq(d, level, qn):
            k = pick(list(R.SEQ) + ["expr", "list"])
            n = small(0, 4 if d > 1 else 3)
            if k == "fstring":
                kids = [pick([["str", pick(STRS), None], None, None]) or tmpl(d - 1, level, True, qn) for _ in range(n)]
                return ["fstring", kids, pick(BRACKETS), pick([False, False, True])]
            kids = [tmpl(d - 1, level, True, qn) for _ in range(n)]
            if k == "fcomp":
                return ["fcomp", kids, pick([None, None, "r", "s", "a"]), pick([None, "x", "~v0", " a "]), pick([False, False, True])]
            if k == "expr" and kids and kids[0][0] == "sym" and R.is_op_name(kids[0][1]):
                kids[0] = ["sym", "f"]
            return [k, kids]

        def tmpl(d, level, in_seq, qn):
            live = level == 0
            opts = ["atom"] * (3 if d > 0 else 6)
            if d > 0:
                opts += ["seq"] * 6
                if qn < 2:
                    opts += ["quasi"] * (2 if level == R.INF else 3)
                if not live:
                    opts += ["unquote"] * (5 if level != R.INF else 1) + ["splice"] * (3 if level != R.INF else 1)
            if live:
                opts += ["unquote"] * 3 + (["splice"] * 4 if in_seq else [])
            k = pick(opts)
            if k == "atom":
                return atom()
            if k == "seq":
                return seq(d, level, qn)
            if k == "quasi":
                return Q(tmpl(d - 1, level + 1, False, qn + 1))
            spelled = ["unquote_splice"] if k == "splice" and pick([0, 0, 0, 1]) else []
            if live:
                return [k, form(min(d, 2), "p" if k == "unquote" else "s")] + spelled
            return [k, tmpl(d - 1, level - 1, True, qn)] + spelled

        root = pick(["seq"] * 6 + ["any"] * 2 + ["quasi"])
        t = seq(max_depth, 0, 0) if root == "seq" else tmpl(max_depth, 0, False, 0) if root == "any" else Q(tmpl(max_depth - 1, 1, False, 1))
        return dict(t=t, env=env)

    return case()


# -- driver ------------------------------------------------------------------------------------------------------


def nontrivial(feats):
    return any(f.startswith("splice-in:") and f != "splice-in:expr" for f in feats) or any(
        f.startswith("quasi-nesting:") or f == "form:quasiquote" for f in feats)


def shard(ctx):
    def one(case, origin):
        res, feats = judge(case)
        if feats is None:
            ctx.count("skipped:outside-domain:" + origin)
            if origin != "generated":
                raise RuntimeError("an enumerated C31 case is outside the domain: %s" % json.dumps(case))
            return
        cls = sorted(feats) + ["source:" + origin]
        if not any(f.startswith(("unquote-in:", "splice-in:")) for f in feats):
            cls.append("nothing-substituted")
        ctx.case(key=json.dumps(case, sort_keys=True), nontrivial=nontrivial(feats), cls=cls, sample=R.show_case(case)[:400])
        if res is not None:
            ctx.fail(case, res[0], res[1])

    enumerated = [("fixed", c) for c in FIXED] + [("grid-splice", c) for c in grid_splice()] + [("grid-chain", c) for c in grid_chain()]
    for i, (origin, c) in enumerate(enumerated):
        if i % ctx.n == ctx.k:
            one(c, origin)

    ctx.hyp(case_strategy(5 if ctx.quick else 6), lambda c: one(c, "generated"), ctx.per_shard(12000, 300000), "templates")


# -- shrinking: template-aware (replace a subtree by a child template / an atom, drop children, simplify values) ----


def _subnodes(nd, path=()):
    yield path, nd
    k = nd[0]
    if k in R.SEQ:
        for i, c in enumerate(nd[1]):
            yield from _subnodes(c, path + (1, i))
    elif k in ("quasi", "unquote", "splice"):
        yield from _subnodes(nd[1], path + (1,))


def _replace(nd, path, new):
    if not path:
        return new
    nd = list(nd)
    nd[path[0]] = _replace(nd[path[0]], path[1:], new)
    return nd


def shrink(case, same, budget):
    calls = 0
    best = case
    size = lambda c: len(json.dumps(c))
    improved = True
    while improved and calls < budget:
        improved = False
        cands = []
        for path, nd in _subnodes(best["t"]):
            k = nd[0]
            if k in R.SEQ:
                for i, c in enumerate(nd[1]):
                    cands.append(_replace(best["t"], path, c))
                    cands.append(_replace(best["t"], path, nd[:1] + [nd[1][:i] + nd[1][i + 1:]] + nd[2:]))
                if k in ("fstring", "fcomp"):
                    cands.append(_replace(best["t"], path, ["list", nd[1]]))
            elif k in ("quasi", "unquote", "splice"):
                cands.append(_replace(best["t"], path, nd[1]))
            if k not in ("sym", "int"):
                cands.append(_replace(best["t"], path, ["sym", "a"]))
        cands = [dict(t=t, env=best["env"]) for t in cands]
        for i, v in enumerate(best["env"]):
            for simple in (["int", 1], ["list", [["int", 1]]], ["none"]):
                if v != simple:
                    cands.append(dict(t=best["t"], env=best["env"][:i] + [simple] + best["env"][i + 1:]))
            if v[0] in ("list", "tuple", "gen") and len(v[1]) > 1:
                cands.append(dict(t=best["t"], env=best["env"][:i] + [[v[0], v[1][:1]]] + best["env"][i + 1:]))
        if best["env"] and ("v%d" % (len(best["env"]) - 1)) not in json.dumps(best["t"]):
            cands.append(dict(t=best["t"], env=best["env"][:-1]))
        for cand in sorted(cands, key=size):
            if calls >= budget:
                break
            if size(cand) >= size(best):
                continue
            calls += 1
            try:
                ok = same(cand)
            except Exception:
                ok = False
            if ok:
                best, improved = cand, True
                break
    return best


MATCHERS = {
    "raw_unquote_value": lambda case, bucket, detail: bucket.endswith("|" + RAW_TAG),
}
