"""C28 hy.repr output does not depend on earlier failed or nested calls."""
import gc
import json
import os
import subprocess
import sys

PROP = "C28"
RULE = (
    "a case is a JSON history {classes, values, ops}. classes: 1..4 fresh classes per case (plain, or subclasses of hy.models.Object), "
    "each with a printer written as a small program of steps literal / hy.repr(child i) / hy.repr(self) / try hy.repr(child) and swallow "
    "the test exceptions; the printer is registered with hy.repr_register (with or without a placeholder) or reached through __repr__. "
    "values: 2..5 values built from models (Symbol Integer String Keyword List Expression Tuple Set Dict), plain int/str/None/list/"
    "tuple/dict and test objects, with shared sub-values, references to children of earlier values, and cycles through plain lists, "
    "dicts and test objects (also cycles that pass through models). ops: 3..24 of repr value i / arm or disarm test object j (raise an "
    "Exception or a BaseException subclass before printer step k) / re-register a printer / repr under a recursion limit of current "
    "depth + n (RecursionError at an arbitrary frame inside hy.repr); a 2-element Expression with an unhashable head makes hy's own "
    "Expression printer raise TypeError. Every drawn history gets an epilogue (disarm everything, repr every value) and a crash-point "
    "sweep: for up to 8 (object, step) pairs the history repr-all, arm, repr-all, disarm, repr-all. Draws are flat Hypothesis lists of "
    "integer tuples decoded by decode_case. Oracle: a pure reference printer in which the quoting flag and the in-progress set are "
    "parameters of the recursion (nothing can outlive a call) predicts text or exception of every top-level call; after every operation "
    "the canaries '[a] and [[]] must print as \"'[a]\" and \"[[]]\". A disagreement is reported only after the same single call has "
    "been made in a new interpreter process (same registrations and arming, no earlier hy.repr call): differs from the history => "
    "violation; equal to the history => kept as a suspect, and if nothing later in the history differs from a fresh interpreter it is a "
    "violation 'within one call' when the call swallowed a nested failure and the reference is right about the disarmed call, else a "
    "harness error (reference out of date). 3 (quick) / 24 (thorough) histories per shard also have their last successful call after a "
    "failure compared with a fresh interpreter directly. Non-trivial = a call that raised is followed by a successful call on a value "
    "that contains a model or an object that was in progress when the earlier call raised; distinct by history"
)
ASSUMPTIONS = [
    "a new Python process that has imported hy and registered the case's printers but has not called hy.repr stands for 'a fresh interpreter'",
    "test printers are deterministic functions of the object graph and of the explicit arming state, so 'the same call' is reproducible",
    "cases share a process: before each case the module globals hy.core.hy_repr._quoting/_seen are put back to False/empty when they exist "
    "(isolation between cases only, never part of a verdict); if the canaries are wrong before a case starts, the shard stops and "
    "replay/shrinking judge the case in a new process",
    "single-threaded use only; StopIteration raised by a printer (swallowed by map/join inside hy's printers) is not generated",
    "CPython 3.12: RecursionError arises only when a Python frame is pushed, so crash points inside hy.repr are its calls of Python functions",
]
BUDGET_QUICK = 600  # bounded by case counts (about 15 s on 16 idle cores); the clock only guards against a loaded machine
BUDGET_THOROUGH = 3000
LEVEL = "exploration"

SYMS = ["a", "b", "c", "foo", "x1"]
MODEL_SEQ = {"L": "List", "E": "Expression", "T": "Tuple", "S": "Set", "D": "Dict"}
PLACEHOLDER = {"L": "[...]", "l": "[...]", "D": "{...}", "d": "{...}", "S": "#{...}", "T": "...", "t": "...", "E": "..."}
MAX_VISITS = 4000


class BoomE(Exception):
    kind = "E"


class BoomB(BaseException):
    kind = "B"


EXC = {"E": BoomE, "B": BoomB}


class Malformed(Exception):
    """The JSON is not a history (only possible for hand-made or over-shrunk cases)."""


class TooBig(Exception):
    pass


class StaleModel(Exception):
    """The reference printer disagrees with a fresh interpreter on a single call: harness problem."""


class MRaise(Exception):
    def __init__(self, kind, q, path):
        self.kind, self.q, self.path = kind, q, path


class Node:
    __slots__ = ("nid", "kind", "val", "kids", "real", "model", "ci", "boom")

    def __init__(self, nid, kind, real, model=False, val=None):
        self.nid, self.kind, self.real, self.model, self.val = nid, kind, real, model, val
        self.kids = []
        self.ci = None
        self.boom = None


def _need(cond):
    if not cond:
        raise Malformed()


def _boom_ok(b):
    return b is None or (isinstance(b, list) and len(b) == 2 and type(b[0]) is int and 0 <= b[0] <= 50 and b[1] in EXC)


def _prog_ok(prog):
    if not isinstance(prog, list):
        return False
    for s in prog:
        if not (isinstance(s, list) and len(s) == 2):
            return False
        if s[0] == "lit":
            if not isinstance(s[1], str):
                return False
        elif s[0] in ("rep", "try"):
            if type(s[1]) is not int or s[1] < 0:
                return False
        else:
            return False
    return True


def _ph_ok(ph):
    return ph is None or isinstance(ph, str)


class Fixture:
    """The real objects of one case and their shadow graph; the reference printer."""

    def __init__(self, case):
        import hy

        self.hy = hy
        _need(isinstance(case, dict))
        cls_specs, val_specs, ops = case.get("classes"), case.get("values"), case.get("ops")
        _need(isinstance(cls_specs, list) and isinstance(val_specs, list) and isinstance(ops, list))
        _need(len(val_specs) >= 1)
        self.ops = ops
        self.nid = 0
        self.objs = []
        self.tops = []
        self.classes = []
        self.cprog = []  # the program behind __repr__ (class not registered)
        self.reg = []  # reference registry: None | (prog, placeholder)
        for ci, cs in enumerate(cls_specs):
            _need(isinstance(cs, dict) and _prog_ok(cs.get("prog")) and _ph_ok(cs.get("ph")))
            self._make_class(ci, bool(cs.get("model")), bool(cs.get("reg")) or bool(cs.get("model")), cs.get("ph"), cs["prog"])
        for vs in val_specs:
            self.tops.append(self._build(vs, []))
        self.canary_model = hy.models.List([hy.models.Symbol("a")])
        # reference bookkeeping for classification
        self.visited = set()
        self.flags = set()
        self.visits = 0

    # -- classes and printers ------------------------------------------------
    def _make_class(self, ci, model, reg, ph, prog):
        hy = self.hy
        fx = self
        base = (hy.models.Object,) if model else (object,)
        ns = {}
        if not reg:
            ns["__repr__"] = lambda x, prog=prog: fx.exec_real(prog, x)
        cls = type("C%d" % ci, base, ns)
        self.classes.append(cls)
        self.cprog.append(prog)
        if reg:
            hy.repr_register(cls, self._printer(prog), placeholder=ph)
            self.reg.append((prog, ph))
        else:
            self.reg.append(None)

    def _printer(self, prog):
        fx = self
        return lambda x: fx.exec_real(prog, x)

    def exec_real(self, prog, x):
        hy = self.hy
        out = []
        boom = x._boom
        kids = x._kids
        for i, st in enumerate(prog):
            if boom is not None and boom[0] == i:
                raise EXC[boom[1]]()
            if st[0] == "lit":
                out.append(st[1])
            else:
                tgt = kids[st[1]] if st[1] < len(kids) else x
                if st[0] == "rep":
                    out.append(hy.repr(tgt))
                else:
                    try:
                        out.append(hy.repr(tgt))
                    except (BoomE, BoomB) as e:
                        out.append("<caught %s>" % e.kind)
        if boom is not None and boom[0] >= len(prog):
            raise EXC[boom[1]]()
        return "".join(out)

    # -- values ----------------------------------------------------------------
    def _node(self, kind, real, model=False, val=None):
        self.nid += 1
        return Node(self.nid, kind, real, model, val)

    def _leaf(self, spec):
        M = self.hy.models
        _need(isinstance(spec, list) and len(spec) >= 1 and isinstance(spec[0], str))
        k = spec[0]
        if k == "none":
            return self._node("none", None)
        _need(len(spec) == 2)
        v = spec[1]
        if k == "sym":
            _need(v in SYMS)
            return self._node("sym", M.Symbol(v), True, v)
        if k == "kw":
            _need(v in ("k", "kw"))
            return self._node("kw", M.Keyword(v), True, v)
        if k in ("int", "pi"):
            _need(type(v) is int and abs(v) < 10 ** 6)
            return self._node(k, M.Integer(v) if k == "int" else v, k == "int", v)
        if k in ("str", "ps"):
            _need(isinstance(v, str) and len(v) <= 3 and all(c in "abc" for c in v))
            return self._node(k, M.String(v) if k == "str" else v, k == "str", v)
        raise Malformed()

    def _build(self, spec, path):
        M = self.hy.models
        _need(isinstance(spec, list) and len(spec) >= 1 and isinstance(spec[0], str))
        k = spec[0]
        if k in MODEL_SEQ:
            _need(len(spec) == 2 and isinstance(spec[1], list))
            kids = [self._build(s, path) for s in spec[1]]
            node = self._node(k, getattr(M, MODEL_SEQ[k])([n.real for n in kids]), True)
            node.kids = kids
            return node
        if k == "t":
            _need(len(spec) == 2 and isinstance(spec[1], list))
            kids = [self._build(s, path) for s in spec[1]]
            node = self._node("t", tuple(n.real for n in kids))
            node.kids = kids
            return node
        if k == "l":
            _need(len(spec) == 2 and isinstance(spec[1], list))
            node = self._node("l", [])
            path.append(node)
            for s in spec[1]:
                kid = self._build(s, path)
                node.kids.append(kid)
                node.real.append(kid.real)
            path.pop()
            return node
        if k == "d":
            _need(len(spec) == 2 and isinstance(spec[1], list))
            node = self._node("d", {})
            path.append(node)
            for pair in spec[1]:
                _need(isinstance(pair, list) and len(pair) == 2)
                kn = self._leaf(pair[0])
                _need(kn.kind != "none")
                vn = self._build(pair[1], path)
                if kn.real in node.real:
                    continue
                node.real[kn.real] = vn.real
                node.kids.extend([kn, vn])
            path.pop()
            return node
        if k == "o":
            _need(len(spec) == 4 and type(spec[1]) is int and spec[1] >= 0 and isinstance(spec[2], list) and _boom_ok(spec[3]))
            if not self.classes:
                return self._node("none", None)
            ci = spec[1] % len(self.classes)
            inst = self.classes[ci]()
            inst._kids = []
            inst._boom = spec[3]
            node = self._node("o", inst, issubclass(self.classes[ci], M.Object))
            node.ci, node.boom = ci, spec[3]
            self.objs.append(node)
            path.append(node)
            for s in spec[2]:
                kid = self._build(s, path)
                node.kids.append(kid)
                inst._kids.append(kid.real)
            path.pop()
            return node
        if k == "up":
            _need(len(spec) == 2 and type(spec[1]) is int and spec[1] >= 0)
            return path[-1 - (spec[1] % len(path))] if path else self._node("none", None)
        if k == "use":
            _need(len(spec) == 2 and type(spec[1]) is int and spec[1] >= 0)
            return self.tops[spec[1] % len(self.tops)] if self.tops else self._node("none", None)
        if k == "kid":
            _need(len(spec) == 3 and type(spec[1]) is int and type(spec[2]) is int and spec[1] >= 0 and spec[2] >= 0)
            if not self.tops:
                return self._node("none", None)
            t = self.tops[spec[1] % len(self.tops)]
            return t.kids[spec[2] % len(t.kids)] if t.kids else t
        return self._leaf(spec)

    # -- operations on the fixture state (arming, registry) -------------------
    def arm(self, oi, boom):
        if self.objs:
            n = self.objs[oi % len(self.objs)]
            n.boom = boom
            n.real._boom = boom

    def rereg(self, ci, ph, prog):
        if self.classes:
            ci %= len(self.classes)
            self.hy.repr_register(self.classes[ci], self._printer(prog), placeholder=ph)
            self.reg[ci] = (prog, ph)

    def apply_setup_op(self, op):
        if op[0] == "arm":
            self.arm(op[1], op[2])
        elif op[0] == "rereg":
            self.rereg(op[1], op[2], op[3])

    def target(self, op):
        return self.tops[op[1] % len(self.tops)]

    # -- the reference printer: quoting and in-progress set are parameters -----
    def hashable(self, n):
        if n.kind in ("l", "d"):
            return False
        if n.kind in MODEL_SEQ or n.kind == "t":
            return all(self.hashable(k) for k in n.kids)
        return True

    def placeholder(self, n):
        if n.kind == "o":
            r = self.reg[n.ci]
            return "..." if r is None or r[1] is None else r[1]
        return PLACEHOLDER[n.kind]

    def ref(self, n, q, path):
        self.visits += 1
        if self.visits > MAX_VISITS:
            raise TooBig()
        started = (not q) and n.model and n.kind != "kw"
        if n.nid in path:
            self.flags.add("placeholder:" + ("object" if n.kind == "o" else "container"))
            return self.placeholder(n)
        q2 = q or started
        path2 = path + (n.nid,)
        self.visited.add(n.nid)
        return ("'" if started else "") + self.body(n, q2, path2)

    def body(self, n, q, path):
        k = n.kind
        if k == "sym":
            return n.val
        if k == "kw":
            return ":" + n.val
        if k in ("int", "pi"):
            return str(n.val)
        if k in ("str", "ps"):
            return '"%s"' % n.val
        if k == "none":
            return "None"
        if k in ("L", "l"):
            return "[" + " ".join(self.ref(c, q, path) for c in n.kids) + "]"
        if k in ("T", "t"):
            return "#(" + " ".join(self.ref(c, q, path) for c in n.kids) + ")"
        if k == "S":
            return "#{" + " ".join(self.ref(c, q, path) for c in n.kids) + "}"
        if k == "E":
            if len(n.kids) == 2 and not self.hashable(n.kids[0]):
                raise MRaise("T", q, path)  # `(in x0 syntax)` hashes the head
            return "(" + " ".join(self.ref(c, q, path) for c in n.kids) + ")"
        if k == "D":
            return "{" + " ".join((" " if i and i % 2 == 0 else "") + self.ref(c, q, path) for i, c in enumerate(n.kids)) + "}"
        if k == "d":
            parts = []
            for i in range(0, len(n.kids), 2):
                a = self.ref(n.kids[i], q, path)
                parts.append(a + " " + self.ref(n.kids[i + 1], q, path))
            return "{" + "  ".join(parts) + "}"
        if k == "o":
            r = self.reg[n.ci]
            prog = self.cprog[n.ci] if r is None else r[0]
            out = []
            boom = n.boom
            for i, st in enumerate(prog):
                if boom is not None and boom[0] == i:
                    raise MRaise(boom[1], q, path)
                if st[0] == "lit":
                    out.append(st[1])
                else:
                    tgt = n.kids[st[1]] if st[1] < len(n.kids) else n
                    if st[0] == "rep":
                        out.append(self.ref(tgt, q, path))
                    else:
                        try:
                            out.append(self.ref(tgt, q, path))
                        except MRaise as e:
                            if e.kind not in EXC:
                                raise
                            self.flags.add("caught")
                            out.append("<caught %s>" % e.kind)
            if boom is not None and boom[0] >= len(prog):
                raise MRaise(boom[1], q, path)
            return "".join(out)
        raise AssertionError(k)

    def expect(self, n):
        """-> (outcome, info) for a top-level call on node n in a fresh state."""
        self.visited = set()
        self.flags = set()
        self.visits = 0
        try:
            return ["ok", self.ref(n, False, ())], None
        except MRaise as e:
            return ["exc", e.kind], e

    def has_model(self, n, seen=None):
        seen = set() if seen is None else seen
        if n.nid in seen:
            return False
        seen.add(n.nid)
        return (n.model and n.kind != "kw") or any(self.has_model(c, seen) for c in n.kids)

    # -- the real call -----------------------------------------------------------
    def call(self, obj, budget=None):
        """hy.repr(obj) -> outcome. With a budget, under a recursion limit of current depth + budget."""
        hy = self.hy
        old = sys.getrecursionlimit()
        gc_on = gc.isenabled()
        try:
            if budget is not None:
                gc.disable()  # no gc callbacks (Hypothesis installs one) under the lowered limit
                f, d = sys._getframe(), 0
                while f is not None:
                    d += 1
                    f = f.f_back
                sys.setrecursionlimit(d + 2 + budget)
            try:
                return ["ok", hy.repr(obj)]
            finally:
                sys.setrecursionlimit(old)
                if budget is not None and gc_on:
                    gc.enable()
        except BoomE:
            return ["exc", "E"]
        except BoomB:
            return ["exc", "B"]
        except RecursionError:
            return ["exc", "R"]
        except TypeError:
            return ["exc", "T"]
        except Exception as e:  # compared with the expected outcome, never ignored
            return ["exc", "other:" + type(e).__name__]


def _op_ok(op):
    if not (isinstance(op, list) and op and isinstance(op[0], str)):
        return False
    if op[0] == "repr":
        return len(op) == 2 and type(op[1]) is int and op[1] >= 0
    if op[0] == "lim":
        return len(op) == 3 and type(op[1]) is int and op[1] >= 0 and type(op[2]) is int and 0 <= op[2] <= 500
    if op[0] == "arm":
        return len(op) == 3 and type(op[1]) is int and op[1] >= 0 and _boom_ok(op[2])
    if op[0] == "rereg":
        return len(op) == 4 and type(op[1]) is int and op[1] >= 0 and _ph_ok(op[2]) and _prog_ok(op[3])
    return False


# ---------------------------------------------------------------------------------
# a fresh interpreter per call (vf/c28_fresh.py): used to confirm every disagreement
# with the reference printer and for a sample of successful calls


def fresh_outcome_here(case, k, what):
    """Executed in a process that has never called hy.repr: the single call of operation k (or a canary after it)."""
    fx = Fixture(case)
    last = k if what in ("op", "op-disarmed") else k + 1
    for op in fx.ops[:last]:
        fx.apply_setup_op(op)
    if what == "op":
        return fx.call(fx.target(fx.ops[k]).real)
    if what == "op-disarmed":
        for i in range(len(fx.objs)):
            fx.arm(i, None)
        return fx.call(fx.target(fx.ops[k]).real)
    if what == "canary-model":
        return fx.call(fx.canary_model)
    return fx.call([[]])


def whole_history_in_new_process(case):
    from vf import core

    r = subprocess.run([sys.executable, "-m", "vf.c28_fresh", "--history"], input=json.dumps(case), capture_output=True,
                       text=True, cwd=core.ROOT)
    if r.returncode != 0:
        raise RuntimeError("history in a new process failed: " + r.stderr[-800:])
    res = json.loads(r.stdout)
    return None if res is None else tuple(res)


def fresh_outcome(case, k, what="op"):
    from vf import core

    r = subprocess.run([sys.executable, "-m", "vf.c28_fresh"], input=json.dumps([case, k, what]), capture_output=True,
                       text=True, cwd=core.ROOT)
    if r.returncode != 0:
        raise RuntimeError("fresh interpreter failed: " + r.stderr[-800:])
    return json.loads(r.stdout)


# ---------------------------------------------------------------------------------


def kind_of_mismatch(exp, act):
    if exp[0] != act[0]:
        return "raised-instead-of-text" if act[0] == "exc" else "text-instead-of-raise"
    if exp[0] == "exc":
        return "other-exception"
    e, a = exp[1], act[1]
    if e.replace("'", "") == a.replace("'", ""):
        return "quote-missing" if a.count("'") < e.count("'") else ("quote-extra" if a.count("'") > e.count("'") else "quote-moved")
    if a.count("...") > e.count("..."):
        return "placeholder-instead-of-content"
    if a.count("...") < e.count("..."):
        return "content-instead-of-placeholder"
    return "text-differs"


class Contaminated(Exception):
    """hy.repr is already in a wrong state before the case starts (left there by an earlier failing case in this process)."""


def isolate(fx):
    """Cases share a process. On a tree that leaks, the leak of one case would make every later case in the process fail
    for a reason that is not in that case (and a shrunk case would not replay). So before a case: put the two module
    globals the property names back to their initial values if they exist, then require the canaries to be right.
    Nothing here takes part in a verdict."""
    m = sys.modules.get("hy.core.hy_repr")
    if m is not None:
        if isinstance(getattr(m, "_quoting", None), bool):
            m._quoting = False
        if isinstance(getattr(m, "_seen", None), set):
            m._seen.clear()
    if fx.call(fx.canary_model) != ["ok", "'[a]"] or fx.call([[]]) != ["ok", "[[]]"]:
        raise Contaminated()


CONFIRM = [True]  # False only while the shrinker explores candidates (every accepted result is confirmed again)


def run_history(case, stats=None, compare_fresh=False):
    """-> None | (bucket, detail). Raises Malformed / TooBig for cases that are no histories, StaleModel for a wrong reference."""
    fx = Fixture(case)
    for op in fx.ops:
        _need(_op_ok(op))
    isolate(fx)
    last_fail = "none"
    in_progress = set()  # shadow nodes that were being printed when an earlier call raised
    log = []
    nontrivial = False
    cls = set()
    candidate = None  # (k, outcome) of the last successful call after a failed one

    suspects = []  # reference != history == fresh interpreter: a leak inside one top-level call, or a wrong reference

    def judge(k, what, exp, act, accept_r=False, caught=False):
        """exp: reference outcome (None: compare with the fresh interpreter only), act: outcome in the history."""
        if exp is not None and (exp == act or (accept_r and act == ["exc", "R"])):
            return None
        if CONFIRM[0]:
            fresh = fresh_outcome(case, k, what)
            if fresh == act:
                if exp is not None:
                    suspects.append((k, what, exp, act, caught))
                    if len(suspects) >= 3:
                        return resolve_suspect()
                return None
        else:
            fresh = exp
        bucket = "%s:%s|after:%s" % (what, kind_of_mismatch(fresh, act), last_fail)
        return (bucket, dict(step=k, op=fx.ops[k], fresh_interpreter=fresh if CONFIRM[0] else "(not consulted)", in_history=act,
                             reference=exp, history=log[-12:]))

    def resolve_suspect():
        """The history and a fresh interpreter agree with each other but not with the reference printer, and nothing later in
        the history differed from a fresh interpreter. If the call caught a nested failure and the reference is right about
        the same call with every object disarmed, the difference comes from the failed nested call: state leaked from one
        nested call into later ones of the same top-level call. Otherwise the reference printer is wrong about hy (exit 2)."""
        k, what, exp, act, caught = suspects[0]
        if caught and what == "op":
            if fresh_outcome(case, k, "op-disarmed") == exp0_at(k):
                return ("op:within-one-call:%s|after:caught-nested-failure" % kind_of_mismatch(exp, act),
                        dict(step=k, op=fx.ops[k], reference=exp, in_history=act, fresh_interpreter=act,
                             note="a fresh interpreter gives the same text: the state leaks from a failed nested call into later nested "
                                  "calls of the same top-level call; with every object disarmed the reference printer and hy agree",
                             history=log[-12:]))
        raise StaleModel("reference printer says %r, hy.repr says %r both in the history and in a fresh interpreter; "
                         "step %d (%s) of %s" % (exp, act, k, what, json.dumps(case)))

    def exp0_at(k):
        """Reference outcome of the call of step k with the registrations of that moment and every object disarmed."""
        fx2 = Fixture(case)
        for op in fx2.ops[:k]:
            fx2.apply_setup_op(op)
        for o in fx2.objs:
            o.boom = None
        return fx2.expect(fx2.target(fx2.ops[k]))[0]

    for k, op in enumerate(fx.ops):
        if op[0] in ("arm", "rereg"):
            fx.apply_setup_op(op)
            cls.add(op[0])
            log.append("%s %s" % (op[0], json.dumps(op[1:])))
        else:
            n = fx.target(op)
            exp, raised = fx.expect(n)
            visited, flags = fx.visited, fx.flags
            act = fx.call(n.real, op[2] if op[0] == "lim" else None)
            log.append("%s v%d -> %s" % (op[0], op[1] % len(fx.tops), act[1] if act[0] == "ok" else "!" + act[1]))
            r = judge(k, "op", exp, act, accept_r=op[0] == "lim", caught="caught" in flags)
            if r is not None:
                return r
            if act[0] == "ok":
                revisit = bool(visited & in_progress)
                if last_fail != "none":
                    cls.add("ok-after-fail")
                    if revisit:
                        cls.add("ok-after-fail:revisits-in-progress-object")
                    if fx.has_model(n):
                        cls.add("ok-after-fail:has-model")
                    if revisit or fx.has_model(n):
                        nontrivial = True
                        candidate = (k, act)
                cls.update(flags)
                if op[0] == "lim":
                    cls.add("limit:survived")
            else:
                last_fail = act[1]
                cls.add("fail:" + {"E": "Exception-in-printer", "B": "BaseException-in-printer", "T": "TypeError-in-hy-printer",
                                   "R": "RecursionError"}.get(act[1], act[1]))
                if act[1] == "R":
                    in_progress |= visited  # the crash point is unknown: anything that would be visited
                elif raised is not None:
                    in_progress |= set(raised.path)
                    cls.add("raise:inside-model" if raised.q else "raise:outside-model")
                    cls.add("raise:depth-%s" % min(len(raised.path), 4))
        r = judge(k, "canary-model", ["ok", "'[a]"], fx.call(fx.canary_model))
        if r is not None:
            return r
        r = judge(k, "canary-list", ["ok", "[[]]"], fx.call([[]]))
        if r is not None:
            return r
    if compare_fresh and candidate is not None:
        r = judge(candidate[0], "op", None, candidate[1])
        if r is not None:
            return r
        cls.add("compared-with-fresh-interpreter")
    if suspects:
        return resolve_suspect()
    if stats is not None:
        stats.update(nontrivial=nontrivial, cls=sorted(cls), log=log)
    return None


def check_case(case):
    try:
        return run_history(case)
    except (Malformed, TooBig):
        return None
    except Contaminated:
        # only after an earlier failing case in this process, on a tree whose state is not where the property says it is:
        # judge this case where nothing ran before it
        return whole_history_in_new_process(case)


def shrink(case, same, budget):
    """A candidate is first run with the reference printer standing in for the fresh interpreter (no process); only one that
    still disagrees somewhere is judged for real (`same`: check_case, with fresh interpreters). At most `budget` real judgements."""
    from vf import core

    spent = [0]

    def pred(c):
        CONFIRM[0] = False
        try:
            if run_history(c) is None:
                return False
        except (Malformed, TooBig, StaleModel):
            return False
        except Contaminated:
            pass  # no cheap filter in this process any more; `same` judges the candidate in a new process
        finally:
            CONFIRM[0] = True
        if spent[0] >= min(budget, 30):
            return False
        spent[0] += 1
        try:
            return same(c)
        except StaleModel:
            return False

    best = case
    changed = True
    while changed:
        changed = False
        i = len(best["ops"]) - 1
        while i >= 0:
            cand = dict(best, ops=best["ops"][:i] + best["ops"][i + 1:])
            if pred(cand):
                best = cand
                changed = True
            i -= 1
    return core.shrink_json(best, pred, budget * 4)


# ---------------------------------------------------------------------------------


LITS = ["(C", " ", ")", "<", ">", "obj:", ""]
PHS = [None, None, "<P>", "(C ...)", "'"]
WORDS = ["", "a", "ab", "abc", "c", "cb", "bca"]


def strategies(quick):
    """Flat draws only (lists of small integer tuples), decoded by decode_case: nested Hypothesis strategies cost 100 ms per
    history here (deep draw recursion), flat ones 15 ms."""
    from hypothesis import strategies as st

    tok = st.tuples(st.integers(0, 23), st.integers(0, 63))
    prog = st.lists(st.tuples(st.integers(0, 5), st.integers(0, 6)), max_size=5)
    klass = st.tuples(st.integers(0, 1), st.integers(0, 2), st.integers(0, 4))
    op = st.tuples(st.integers(0, 7), st.integers(0, 9), st.integers(0, 30), st.integers(0, 3))
    return st.fixed_dictionaries(dict(
        classes=st.lists(klass, min_size=1, max_size=4),
        progs=st.lists(prog, min_size=6, max_size=6),
        values=st.lists(st.lists(tok, min_size=5, max_size=12 if quick else 18), min_size=2, max_size=5),
        ops=st.lists(op, min_size=3, max_size=24),
    ))


def decode_prog(raw):
    out = []
    for c, i in raw:
        out.append(["lit", LITS[i]] if c == 0 else (["rep", i % 4] if c in (1, 2) else ["try", i % 4]))
    return out


def decode_boom(sel, k):
    return None if sel % 4 < 2 else [k % 5, "E" if sel % 4 == 2 else "B"]


def decode_value(tokens, top):
    """Prefix code: each token (k, a) is a leaf, a reference, or a container that takes the following tokens as children."""
    pos = [0]

    def leaf(k, a):
        k %= 8
        if k <= 1:
            return ["sym", SYMS[a % len(SYMS)]]
        if k == 2:
            return ["int", a % 24 - 3]
        if k == 3:
            return ["str", WORDS[a % len(WORDS)]]
        if k == 4:
            return ["kw", "k" if a % 2 else "kw"]
        if k == 5:
            return ["pi", a % 24 - 3]
        if k == 6:
            return ["ps", WORDS[a % len(WORDS)]]
        return ["none"]

    def node(depth, force_container=False):
        if pos[0] >= len(tokens):
            return None
        k, a = tokens[pos[0]]
        pos[0] += 1
        if force_container and k < 11:
            k = 11 + (k + a) % 13
        if depth >= 5 and k >= 11:
            k = a % 11
        if k <= 7:
            return leaf(k, a)
        if k == 8:
            return ["up", a % 4]
        if k == 9:
            return ["use", a % 6]
        if k == 10:
            return ["kid", a % 6, (a // 6) % 4]
        if k <= 19:
            kind = {11: "L", 12: "E", 13: "E", 14: "T", 15: "S", 16: "D", 17: "l", 18: "l", 19: "t"}[k]
            kids = []
            for _ in range(2 if k == 13 else (0 if a % 16 == 0 else 1 + a % 4)):
                c = node(depth + 1)
                if c is None:
                    break
                kids.append(c)
            return [kind, kids]
        if k == 20:
            pairs = []
            for _ in range(1 + a % 3):
                if pos[0] >= len(tokens):
                    break
                kk, ka = tokens[pos[0]]
                pos[0] += 1
                key = leaf(kk % 7, ka)
                v = node(depth + 1)
                pairs.append([key, v if v is not None else ["none"]])
            return ["d", pairs]
        kids = []
        for _ in range(0 if a % 16 == 3 else 1 + (a >> 2) % 3):
            c = node(depth + 1)
            if c is None:
                break
            kids.append(c)
        return ["o", a % 4, kids, decode_boom(a >> 4, a // 3)]

    return node(0, force_container=top) or ["none"]


def decode_case(raw):
    progs = [decode_prog(p) for p in raw["progs"]]
    classes = []
    for i, (m, r, ph) in enumerate(raw["classes"]):
        reg = bool(m) or r != 2
        classes.append(dict(model=bool(m), reg=reg, ph=PHS[ph] if reg else None, prog=progs[i]))
    values = [decode_value(toks, top=i % 3 != 2) for i, toks in enumerate(raw["values"])]
    ops = []
    for c, a, b, d in raw["ops"]:
        if c <= 3:
            ops.append(["repr", a % 6])
        elif c <= 5:
            ops.append(["arm", a, decode_boom(d, b)])
        elif c == 6:
            ops.append(["rereg", a % 4, PHS[b % len(PHS)], progs[4 + d % 2]])
        else:
            ops.append(["lim", a % 6, b])
    return dict(classes=classes, values=values, ops=ops)


def count_objs(spec):
    if not isinstance(spec, list):
        return 0
    n = 1 if spec and spec[0] == "o" else 0
    return n + sum(count_objs(s) for s in spec[1:] if isinstance(s, list))


def with_epilogue(case):
    """Disarm every test object, then repr every value once more (explicit operations, so the case stays plain JSON)."""
    nobj = sum(count_objs(v) for v in case["values"])
    ops = list(case["ops"])
    ops += [["arm", i, None] for i in range(nobj)]
    ops += [["repr", i] for i in range(len(case["values"]))]
    return dict(case, ops=ops)


def crash_point_sweep(case, limit=8):
    """For (up to `limit`, evenly spread) pairs of test object and printer step: the history
    repr all; arm that object at that step; repr all; disarm; repr all."""
    fx_classes = case["classes"]
    objs = []  # (index in build order, class index) -- build order is the pre-order of "o" specs

    def walk(spec):
        if isinstance(spec, list) and spec:
            if spec[0] == "o":
                objs.append(spec[1] % len(fx_classes))
                for s in spec[2]:
                    walk(s)
            elif spec[0] == "d":
                for pair in spec[1]:
                    walk(pair[1])
            elif spec[0] in MODEL_SEQ or spec[0] in ("l", "t"):
                for s in spec[1]:
                    walk(s)

    for v in case["values"]:
        walk(v)
    points = [(oi, k) for oi, ci in enumerate(objs) for k in range(len(fx_classes[ci]["prog"]) + 1)]
    if len(points) > limit:
        points = [points[(i * len(points)) // limit] for i in range(limit)]
    every = [["repr", i] for i in range(len(case["values"]))]
    out = []
    for j, (oi, k) in enumerate(points):
        ops = every + [["arm", oi, [k, "EB"[j % 2]]]] + every + [["arm", oi, None]] + every
        out.append(dict(case, ops=ops))
    return out


CAP = 6


def shard(ctx):
    n_cases = ctx.per_shard(1600, 240000)
    n_fresh = 3 if ctx.quick else 24  # drawn histories per shard with a call compared with a real fresh interpreter (about 0.5 s each)
    every = max(1, n_cases // n_fresh)
    state = dict(drawn=0, failures=0, due=0)

    def run(case, origin, compare_fresh=False):
        stats = {}
        try:
            r = run_history(case, stats, compare_fresh=compare_fresh)
        except TooBig:
            ctx.count("skipped:text-too-big")
            return
        except Contaminated:
            ctx.count("not-run:process-left-in-wrong-state-by-a-failed-case")
            state["failures"] = CAP
            return
        if r is not None:
            ctx.case(key=None, cls=["failed"])
            ctx.fail(case, r[0], r[1])
            state["failures"] += 1
            return
        if "compared-with-fresh-interpreter" in stats["cls"]:
            state["due"] -= 1
        ctx.case(key=json.dumps(case, sort_keys=True), nontrivial=stats["nontrivial"], cls=[origin] + (stats["cls"] or ["plain"]),
                 sample=" ; ".join(stats["log"])[:400])

    def one(case):
        if state["failures"] >= CAP:  # a broken tree: enough evidence, every further failure costs a fresh interpreter
            ctx.count("not-run:shard-already-has-%d-failures" % CAP)
            return
        state["drawn"] += 1
        if state["drawn"] % every == 0:
            state["due"] += 1
        run(with_epilogue(case), "drawn-history", compare_fresh=state["due"] > 0)
        base = dict(case, values=[arm_none(v) for v in case["values"]])
        for v in crash_point_sweep(base):
            if state["failures"] >= CAP:
                break
            run(v, "crash-point-sweep")

    # draw first, run afterwards: inside Hypothesis' deep call stack every hy.repr call crosses a CPython frame-stack chunk
    # boundary (an mmap/munmap pair per call, 7x slower here). Chunks of 500 keep memory and Hypothesis' bookkeeping small.
    strat = strategies(ctx.quick)
    done = 0
    while done < n_cases and not ctx.out_of_time():
        drawn = []
        m = min(500, n_cases - done)
        ctx.hyp(strat, drawn.append, m, "histories-%d" % (done // 500))
        done += m
        for raw in drawn:
            if ctx.out_of_time():
                break
            one(decode_case(raw))


def arm_none(spec):
    if isinstance(spec, list):
        if spec and spec[0] == "o":
            return ["o", spec[1], [arm_none(s) for s in spec[2]], None]
        return [arm_none(s) for s in spec]
    return spec


MATCHERS = {}
