"""C36 hy.macroexpand-1 expands one step, hy.macroexpand reaches a fixpoint on the head."""
import json

from vf import c36_ref as R

PROP = "C36"
RULE = (
    "generated macro environments of 1..5 user macros defined by defmacro in a fresh module (types.ModuleType), in a second module "
    "reached through (require c36src :as P) and through hy.R.c36src.NAME, or passed in the macros= dictionary (also shadowing a module "
    "macro of the same name, and module macros shadowing the core macros when/cond/assert). Macro i expands into a call of a later macro "
    "(so chains m1 -> m2 -> ... terminate by construction), via a quasiquote template over its parameters (positional, optional, #*), by "
    "returning its argument object, by returning a plain Python value (int, str, None, True, list, tuple, dict), or by counting an Integer "
    "argument down (the doc example's shape); chains end in a non-macro call, a non-Expression model, (), a head that only looks like a macro "
    "(string / keyword / list / nested call naming one), the model-returning core macros when/cond, or one of 40 compiler-implemented core "
    "forms (if setv do fn quote while for try + and get cut with let defn . py ...) whose operands again contain user macro calls. Each "
    "environment is exercised with both APIs on the same form, the input model being read from text (reader positions), constructed without "
    "positions, with positions on the root only, or on a drawn subset of nodes; module= is the module object or its name. Oracle: a "
    "reference stepper over the known environment that never imports hy (vf/c36_ref.py): macroexpand-1 = exactly the first step or the "
    "model unchanged, macroexpand = steps until the head names no macro, a compiler-implemented macro leaves the form as it is; the result "
    "is compared node by node (type, value); when no expansion is due the result must also carry the input's attributes; a deep snapshot "
    "of the input (types, values, every instance attribute incl. positions, of every node) taken before the call must equal the one taken "
    "after. A call without macros= is preceded by a call on the same module that passes a macro named like the tested form's head (which must not apply afterwards). Every generated macro body counts its calls, so an expansion that does not end is a recorded failure (endless-expansion), not a "
    "hang. Enumerated besides: each of the 40 compiler-implemented forms in its smallest instance, directly and at the end of a 1- and a "
    "2-step chain. Non-trivial = the chain has >= 2 steps (the two APIs must differ), or ends in a compiler-implemented macro, or is an identity "
    "case whose form mentions a macro name; distinct by (environment, form, api, position mode)"
)
ASSUMPTIONS = [
    "the expansions of when and cond are the ones docs/api.rst states",
    "compiler-implemented core macros are called only on forms of shapes that compile (a form they reject raises; the property does not cover it)",
    "macro calls have matching arity; no macro expands into itself without progress (no endless chains)",
    "positions of the returned model are not compared (undocumented)",
]

MACRO_NAMES = ["m1", "m2", "m3", "m4", "m5", "m-6", "my_mac", "do-it"]
POS_MODES = ["read", "none", "outer", "mixed"]
TICK_LIMIT = 300  # macro calls per API call; the longest generated chain has 14 steps, operands add a few dozen nested calls


class Harness(Exception):
    pass


# ------------------------------------------------------------------ models <-> nodes


def build(n):
    import hy.models as M

    t = n[0]
    if t == "s":
        return M.Symbol(n[1])
    if t == "k":
        return M.Keyword(n[1])
    if t == "i":
        return M.Integer(n[1])
    if t == "f":
        return M.Float(n[1])
    if t == "str":
        return M.String(n[1])
    if t == "b":
        return M.Bytes(n[1].encode("latin1"))
    cls = {"(": M.Expression, "[": M.List, "{": M.Dict, "#(": M.Tuple, "#{": M.Set}[t]
    return cls([build(c) for c in n[1]])


def to_node(m):
    import hy.models as M

    t = type(m)
    if t is M.Symbol:
        return ["s", str(m)]
    if t is M.Keyword:
        return ["k", m.name]
    if t is M.Integer:
        return ["i", int(m)]
    if t is M.Float:
        return ["f", float(m)]
    if t is M.String:
        return ["str", str(m)] if m.brackets is None else ["str", str(m), m.brackets]
    if t is M.Bytes:
        return ["b", bytes(m).decode("latin1")]
    for k, cls in (("(", M.Expression), ("[", M.List), ("{", M.Dict), ("#(", M.Tuple), ("#{", M.Set)):
        if t is cls:
            return [k, [to_node(c) for c in m]]
    return ["?", t.__module__ + "." + t.__name__, repr(m)[:80]]


def nodes_preorder(m, out):
    out.append(m)
    if isinstance(m, tuple):
        for c in m:
            nodes_preorder(c, out)
    return out


def make_input(case):
    """The model handed to Hy, in the case's position mode."""
    import hy

    form, mode = case["form"], case["pos"]
    if mode == "read":
        m = hy.read(R.render(form))
        if to_node(m) != form:
            raise Harness("text %r does not read back as the intended model" % R.render(form))
        return m
    m = build(form)
    if to_node(m) != form:
        raise Harness("constructed model differs from the intended one")
    if mode == "none":
        return m
    ns = nodes_preorder(m, [])
    mask = int(case.get("mask", 0))
    for i, x in enumerate(ns):
        if (mode == "outer" and i == 0) or (mode == "mixed" and (mask >> (i % 24)) & 1):
            x.start_line, x.end_line = 3, 3
            x.start_column, x.end_column = 2 + i, 40 - min(i, 30)
    return m


def snapshot(m):
    """Everything observable about a model tree: types, values, instance attributes of every node."""
    attrs = sorted((k, repr(v)) for k, v in vars(m).items()) if hasattr(m, "__dict__") else []
    if isinstance(m, tuple):
        return [type(m).__name__, None, attrs, [snapshot(c) for c in m]]
    return [type(m).__name__, repr(m), attrs, []]


def snap_diff(a, b, path="root"):
    if a[0] != b[0]:
        return ("type", path, a[0], b[0])
    if a[1] != b[1]:
        return ("value", path, a[1], b[1])
    if a[2] != b[2]:
        ka, kb = dict(a[2]), dict(b[2])
        names = sorted(k for k in set(ka) | set(kb) if ka.get(k) != kb.get(k))
        return ("attributes", path + ":" + a[0], {k: ka.get(k) for k in names}, {k: kb.get(k) for k in names})
    if len(a[3]) != len(b[3]):
        return ("length", path, len(a[3]), len(b[3]))
    for i, (x, y) in enumerate(zip(a[3], b[3])):
        d = snap_diff(x, y, "%s[%d]" % (path, i))
        if d:
            return d
    return None


# ------------------------------------------------------------------ one case against Hy


def define_env(case):
    """Fresh modules with the case's macros -> (module, macros-dict or None)."""
    import sys
    import types
    import warnings

    import hy

    mod, src, ovr = types.ModuleType(R.MOD_NAME), types.ModuleType(R.SRC_MODULE), types.ModuleType("c36ovr")
    ticks = [0]

    def c36_tick():
        ticks[0] += 1
        if ticks[0] > TICK_LIMIT:
            raise RuntimeError("C36-FUEL: more than %d macro calls in one expansion" % TICK_LIMIT)

    for m in (mod, src, ovr):
        m.c36_tick = c36_tick
    mod.c36_ticks = ticks
    sys.modules[R.MOD_NAME], sys.modules[R.SRC_MODULE] = mod, src
    target = {"mod": mod, "src": src, "ovr": ovr}
    order = sorted(range(len(case["macros"])), key=lambda i: (case["macros"][i]["name"] in R.ALL_CORE, i))
    with warnings.catch_warnings():
        warnings.simplefilter("ignore")
        for i in order:
            d = case["macros"][i]
            if d["ns"] == "src":
                hy.eval(hy.read(R.render_defmacro(d)), module=src)
        if case.get("req"):
            hy.eval(hy.read("(require %s :as %s)" % (R.SRC_MODULE, R.PREFIX)), module=mod)
        for i in order:
            d = case["macros"][i]
            if d["ns"] != "src":
                hy.eval(hy.read(R.render_defmacro(d)), module=target[d["ns"]])
    want = {ns: sorted(R.mangle(d["name"]) for d in case["macros"] if d["ns"] == ns) for ns in target}
    if case.get("req"):
        want["mod"] = sorted(want["mod"] + [R.PREFIX + "." + k for k in want["src"]])
    for ns, m in target.items():
        have = sorted(getattr(m, "_hy_macros", {}))
        if have != want[ns]:
            raise Harness("macro table of %s is %r, wanted %r" % (ns, have, want[ns]))
    macros = None
    mod.c36_ovr = ovr
    if case.get("macros_arg") == "dict":
        macros = dict(ovr._hy_macros)
    elif case.get("macros_arg") == "empty":
        macros = {}
    return mod, macros


def inner_error(e):
    last = [ln for ln in str(e).strip().split("\n") if ln.strip()]
    last = last[-1].strip() if last else ""
    return last.split(":")[0][:40] if ":" in last else ""


def run(case, exp, env=None):
    """Execute the case on Hy and compare with the reference's expectation -> None | (bucket, detail).

    env: (module, macros) from define_env when the caller keeps one environment for several calls
    (the modules then stay registered in sys.modules until the caller removes them)."""
    import sys

    import hy

    saved = {k: sys.modules.get(k) for k in (R.MOD_NAME, R.SRC_MODULE)}
    try:
        mod, macros = env or define_env(case)
        model = make_input(case)
        before = snapshot(model)
        kwargs = dict(module=mod if case.get("module_as", "object") == "object" else R.MOD_NAME)
        if macros is not None:
            kwargs["macros"] = macros
        fn = hy.macroexpand_1 if case["api"] == "macroexpand-1" else hy.macroexpand
        base = dict(api=case["api"], form=R.render(case["form"]), pos=case["pos"],
                    macros=["%s: %s" % (d["ns"], R.render_defmacro(d)) for d in case["macros"]],
                    expected=R.render(exp["expect"]), expected_steps=exp["steps"])
        info = (exp["infos"] or ["none"])
        if "macros" not in kwargs or not kwargs["macros"]:
            # history: an earlier call on the same module that did pass macros= - a macro named like the head of the form
            # under test; the call under test passes none, so that macro must not apply to it
            M = hy.models
            head = model[0] if isinstance(model, M.Expression) and model and isinstance(model[0], M.Symbol) else None
            prior = {hy.mangle(str(head)) if head is not None and "." not in str(head) else "c36_prior": (lambda *a, **k: M.Expression([M.Symbol("c36-stale")]))}
            try:
                hy.macroexpand(make_input(case), module=kwargs["module"], macros=prior)
            except Exception:  # noqa: the earlier call is not the one being judged
                pass
        mod.c36_ticks[0] = 0
        try:
            got = fn(model, **kwargs)
        except Exception as e:  # noqa: a valid case must not raise
            after = snapshot(model)
            if "C36-FUEL" in str(e):
                return ("endless-expansion", dict(base, error=str(e)[-300:]))
            tag = info[-1] if info[-1].startswith("core:") or info[-1] == "none" else ":".join(info[-1].split(":")[:2])
            tag = "core:py/pys" if tag in ("core:py", "core:pys") else tag
            return ("raised:%s:%s:at-%s" % (type(e).__name__, inner_error(e), tag),
                    dict(base, error=str(e)[-400:], input_mutated=snap_diff(before, after)))
        after = snapshot(model)
        gotn = to_node(got)
        try:
            base["actual"] = R.render(gotn)
        except R.Invalid:
            base["actual"] = repr(gotn)
        d = snap_diff(before, after)
        if d:
            what = d[0]
            if d[0] == "attributes":
                gained = sorted(k for k in d[3] if d[2].get(k) is None)
                what = ("position-attributes-set-on-" if gained and all(k in ("_start_line", "_end_line", "_start_column", "_end_column") for k in gained) and len(gained) == len(d[3])
                        else "attributes-changed-on-") + ("sequence" if d[1].split(":")[-1] in ("Expression", "List", "Dict", "Tuple", "Set") else "atom")
            return ("input-mutated:" + what, dict(base, where=d[1], before=d[2], after=d[3]))
        if gotn != exp["expect"]:
            forms = exp["chain"]
            if exp["steps"] == 0:
                kind = "identity-form-changed" if exp["terminal"] == "identity" else "compiler-macro-form-changed:" + info[-1]
            elif gotn == case["form"]:
                kind = "no-expansion:" + info[0]
            elif case["api"] == "macroexpand-1":
                kind = "one-step-overshoot" if gotn in forms[2:] else "one-step-wrong:" + info[0]
            elif gotn in forms[:-1]:
                kind = "fixpoint-stopped-early:before-" + info[forms.index(gotn)]
            else:
                kind = "fixpoint-wrong:ns=" + "+".join(sorted(set(i.split(":")[0] for i in info))) + (":ending-in-compiler-macro" if exp["terminal"] == "result" else "")
            return (kind, base)
        if exp["steps"] == 0:
            d = snap_diff(before, snapshot(got))
            if d:
                return ("unchanged-result-lost-attributes:%s" % d[0], dict(base, where=d[1], input=d[2], result=d[3]))
        return None
    finally:
        for k, v in saved.items():
            if v is None:
                sys.modules.pop(k, None)
            else:
                sys.modules[k] = v


def check_case(case):
    try:
        exp = R.expected(case)
        if case.get("pos") not in POS_MODES or case.get("module_as", "object") not in ("object", "name") or case.get("macros_arg", "none") not in ("none", "dict", "empty"):
            return None
    except (R.Invalid, KeyError, IndexError, TypeError, ValueError, AttributeError, RecursionError):
        return None  # not a case of the domain (only the shrinker produces these)
    return run(case, exp)


# ------------------------------------------------------------------ generation


def alt_spelling(name):
    return name.replace("-", "\0").replace("_", "-").replace("\0", "_")


def strategy(quick):
    from hypothesis import strategies as st

    ints = st.integers(-3, 12)
    small_text = st.text(alphabet='ab "\\\n{}é', max_size=4)

    def safe_atom(draw):
        k = draw(st.integers(0, 9))
        if k < 4:
            return ["s", draw(st.sampled_from(R.VARS + R.CONSTS))]
        if k < 7:
            return ["i", draw(ints)]
        if k < 9:
            return ["str", draw(small_text)]
        return ["f", draw(st.sampled_from([0.5, -2.25, 1e10]))]

    def wild_atom(draw, names):
        k = draw(st.integers(0, 9))
        if k < 3:
            return safe_atom(draw)
        if k < 5:
            return ["k", draw(st.sampled_from(["k", "key-2", "", "m1"]))]
        if k < 7:
            return ["s", draw(st.sampled_from(names + R.FUNCS + ["+", "if", "..."]))]
        if k < 8:
            return ["b", draw(st.sampled_from(["", "xy"]))]
        return [draw(st.sampled_from(["(", "[", "{", "#(", "#{"])), []]

    def head_of(draw, d, env):
        if d["ns"] == "src":
            if env["req"] and draw(st.integers(0, 2)) > 0:
                return ["(", [["s", "."], ["s", R.PREFIX], ["s", d["name"]]]]
            return R.self_head(d)
        if draw(st.integers(0, 4)) == 0:
            return ["s", alt_spelling(d["name"])]
        return ["s", d["name"]]

    def call_to(draw, d, arg, env, splice=None):
        """A call of macro d with matching arity; `arg` draws one argument."""
        args = []
        for i, p in enumerate(d["pos"]):
            if i == 0 and d["body"]["k"] == "count":
                args.append(["i", draw(st.integers(0, 3))])
            elif i == 0 and "hp" in d:
                args.append(d["hp"])
            else:
                args.append(arg(draw))
        nopt = draw(st.integers(0, len(d["opt"])))
        args += [arg(draw) for _ in range(nopt)]
        if d.get("rest") and nopt == len(d["opt"]):
            args += [arg(draw) for _ in range(draw(st.integers(0, 2)))]
            if splice and draw(st.booleans()):
                args.append(["~@", splice])
        return ["(", [head_of(draw, d, env)] + args]

    def func_call(draw, arg, splice=None, dotted=True):
        if dotted and draw(st.integers(0, 5)) == 0:
            head = ["(", [["s", "."], ["s", "obj"], ["s", "meth"]]]
        else:
            head = ["s", draw(st.sampled_from(R.FUNCS[:4]))]
        args = [arg(draw) for _ in range(draw(st.integers(0, 3)))]
        if splice and draw(st.booleans()):
            args.append(["~@", splice])
        return ["(", [head] + args]

    def from_pattern(draw, pat, arg, names):
        k = pat[0]
        if k == "E":
            return arg(draw)
        if k == "N":
            return ["s", draw(st.sampled_from(R.VARS))]
        if k == "W":
            return wild_node(draw, names, 2)
        if k == "lit":
            return pat[1]
        if k == "PYSTR":
            return ["str", draw(st.sampled_from(R.PYSTR[pat[1]]))]
        items = [from_pattern(draw, p, arg, names) for p in pat[1]]
        if pat[2] is not None:
            items += [from_pattern(draw, pat[2], arg, names) for _ in range(draw(st.integers(0, 2)))]
        return [k, items]

    def wild_node(draw, names, depth):
        if depth <= 0 or draw(st.integers(0, 2)) == 0:
            return wild_atom(draw, names)
        kind = draw(st.sampled_from(["(", "(", "[", "{", "#(", "#{"]))
        items = [wild_node(draw, names, depth - 1) for _ in range(draw(st.integers(0, 3)))]
        if kind == "(" and items and items[0][0] == "s" and items[0][1].startswith("unquote"):
            items = items[1:]
        return [kind, items]

    def core_form(draw, arg, env, names):
        """A when/cond call or a form for a compiler-implemented macro, operands drawn by `arg`."""
        choices = [n for n in sorted(R.SHAPES) if n not in env["shadowed"]] + [n for n in ("when", "cond") * 6 if n not in env["shadowed"]]
        name = draw(st.sampled_from(choices))
        if name == "when":
            return ["(", [["s", "when"]] + [arg(draw) for _ in range(draw(st.integers(1, 3)))]]
        if name == "cond":
            return ["(", [["s", "cond"]] + [arg(draw) for _ in range(2 * draw(st.integers(0, 2)))]]
        return from_pattern(draw, draw(st.sampled_from(R.SHAPES[name])), arg, names)

    def gen_def(draw, name, ns, later, env):
        flavor = env["flavor"]
        pos = ["x", "y"][: draw(st.integers(0, 2))]
        opt = [["z", draw(st.sampled_from([["i", 5], ["s", "None"], ["str", "dflt"]]))]] if draw(st.integers(0, 3)) == 0 else []
        rest = "r" if draw(st.integers(0, 2)) == 0 else None
        kind = draw(st.sampled_from(["tmpl"] * 7 + ["arg", "py", "count", "count"]))
        d = dict(name=name, ns=ns, pos=pos, opt=opt, rest=rest, body=None)
        if kind == "count":
            d["pos"] = pos = ["n"] + pos
        if kind == "arg" and not (pos or opt or rest):
            d["pos"] = pos = ["x"]
        params = [p for p in pos if p != "n"] + [p for p, _ in opt]

        def targ(draw, depth=1):
            """One argument inside a template."""
            k = draw(st.integers(0, 11))
            if params and k < 6:
                return ["~", draw(st.sampled_from(params))]
            if rest and k == 6:
                return ["~", rest]
            if depth > 0 and k == 7:
                return ["[", [targ(draw, depth - 1) for _ in range(draw(st.integers(0, 2)))] + ([["~@", rest]] if rest and draw(st.booleans()) else [])]
            if depth > 0 and k == 8:
                return func_call(draw, lambda dr: targ(dr, depth - 1), dotted=False)
            if flavor == "wild" and k >= 10:
                return wild_node(draw, env["names"], 1)
            return safe_atom(draw)

        def terminal(draw):
            k = draw(st.integers(0, 11))
            if k < 4:
                return func_call(draw, targ, splice=rest)
            if k == 4:
                return safe_atom(draw)
            if k in (5, 11):
                seq = [draw(st.sampled_from(["[", "#(", "[", "#{"])), [targ(draw) for _ in range(draw(st.integers(0, 2)))]]
                if later and draw(st.booleans()):
                    seq[1].insert(0, call_to(draw, later[0], targ, env))
                elif later:  # a list that starts like a call of a macro
                    seq[1] = call_to(draw, later[0], targ, env)[1]
                return seq
            if k == 6 and params:
                return ["~", params[0]]
            if flavor == "wild":
                j = draw(st.integers(0, 6))
                macro_name = (later[0] if later else d)["name"]
                return [["(", []], ["(", [["i", 1], ["i", 2]]], ["(", [["str", macro_name], targ(draw)]], ["(", [["k", macro_name], targ(draw)]],
                        ["(", [["(", [["s", "foo"]]], targ(draw)]], ["(", [["[", [["s", macro_name]]], ["i", 1]]], wild_node(draw, env["names"], 2)][j]
            if k >= 7:
                return core_form(draw, lambda dr: targ(dr, 0), env, env["names"])
            return func_call(draw, targ, splice=rest)

        if kind == "arg":
            d["body"] = dict(k="arg", p=draw(st.sampled_from(pos + [p for p, _ in opt] + ([rest] if rest else []))))
            return d
        if kind == "py":
            def pyv(draw, depth=2):
                k = draw(st.integers(0, 9))
                if params and k < 3:
                    return ["~", draw(st.sampled_from(params))]
                if rest and k == 3:
                    return ["~", rest]
                if depth > 0 and k in (4, 5):
                    return [draw(st.sampled_from(["[", "#("])), [pyv(draw, depth - 1) for _ in range(draw(st.integers(0, 3)))]]
                if depth > 0 and k == 6:
                    return ["{", [["str", "k1"], pyv(draw, depth - 1), ["i", 7], pyv(draw, depth - 1)][: 2 * draw(st.integers(0, 2))]]
                return draw(st.sampled_from([["i", 5], ["i", -1], ["str", "s"], ["f", 1.5], ["s", "None"], ["s", "True"], ["s", "False"]]))

            d["body"] = dict(k="py", t=pyv(draw))
            return d
        # tmpl / count: where does the template lead?
        c = draw(st.integers(0, 9))
        if later and c < 7:
            t = later[0] if draw(st.integers(0, 2)) < 2 else draw(st.sampled_from(later))
            if kind == "tmpl" and c == 6 and "hp" not in t and t["body"]["k"] != "count":
                # the head is itself an argument of the macro
                call = call_to(draw, t, targ, env, splice=rest)
                d["pos"] = ["h"] + pos
                d["hp"] = call[1][0]
                call[1][0] = ["~", "h"]
                d["body"] = dict(k="tmpl", t=call)
                return d
            d["body"] = dict(k=kind, t=call_to(draw, t, targ, env, splice=rest))
            return d
        d["body"] = dict(k=kind, t=terminal(draw))
        return d

    @st.composite
    def bases(draw):
        flavor = draw(st.sampled_from(["safe", "safe", "wild"]))
        k = draw(st.integers(1, 5))
        names = list(draw(st.permutations(MACRO_NAMES)))[:k]
        nss = [draw(st.sampled_from(["mod"] * 5 + ["src"] * 3 + ["ovr"] * 2)) for _ in range(k)]
        shadowed = []
        if draw(st.integers(0, 5)) == 0:
            i = draw(st.integers(0, k - 1))
            names[i] = draw(st.sampled_from(["when", "cond", "assert"]))
            nss[i] = "mod"
            shadowed = [names[i]]
        env = dict(flavor=flavor, req=("src" in nss and draw(st.integers(0, 3)) > 0), shadowed=shadowed, names=names)
        defs = [None] * k
        for i in reversed(range(k)):
            defs[i] = gen_def(draw, names[i], nss[i], [x for x in defs[i + 1:]], env)
        # a module macro that the macros= dictionary shadows
        ovrs = [i for i, d in enumerate(defs) if d["ns"] == "ovr"]
        if ovrs and draw(st.booleans()):
            i = draw(st.sampled_from(ovrs))
            o = defs[i]
            defs.insert(i, dict(name=o["name"], ns="mod", pos=[], opt=[], rest="r", body=dict(k="tmpl", t=["(", [["s", "shadowed-WRONG"], ["~@", "r"]]])))

        def farg(draw, depth=2):
            """One argument inside the input form."""
            k = draw(st.integers(0, 11))
            if depth > 0 and k < 3:
                return call_to(draw, draw(st.sampled_from(defs)), lambda dr: farg(dr, depth - 1), env)
            if depth > 0 and k == 3:
                return func_call(draw, lambda dr: farg(dr, depth - 1))
            if depth > 0 and k == 4:
                return [draw(st.sampled_from(["[", "#("])), [farg(draw, depth - 1) for _ in range(draw(st.integers(0, 2)))]]
            if flavor == "wild" and k >= 9:
                return wild_node(draw, names, 2)
            return safe_atom(draw)

        fk = draw(st.integers(0, 19))
        if fk < 11:
            t = defs[0] if draw(st.booleans()) else draw(st.sampled_from(defs))
            form = call_to(draw, t, farg, env)
        elif fk < 15 and flavor == "safe":
            form = core_form(draw, farg, env, names)
        else:
            mname = draw(st.sampled_from(names))
            j = draw(st.integers(0, 9))
            form = [
                lambda: func_call(draw, farg),
                lambda: func_call(draw, farg),
                lambda: ["s", mname],
                lambda: [draw(st.sampled_from(["[", "#(", "{", "#{"])), [["s", mname], farg(draw)]],
                lambda: ["(", []],
                lambda: ["(", [["str", mname], farg(draw)]],
                lambda: ["(", [["k", mname], farg(draw)]],
                lambda: ["(", [call_to(draw, draw(st.sampled_from(defs)), farg, env), farg(draw)]],
                lambda: ["(", [["[", [["s", mname]]], farg(draw)]],
                lambda: wild_node(draw, names, 2),
            ][j]()
        modes = list(draw(st.permutations(POS_MODES)))[:2]
        return dict(
            macros=defs,
            req=env["req"],
            macros_arg="dict" if any(d["ns"] == "ovr" for d in defs) else draw(st.sampled_from(["none"] * 4 + ["empty"])),
            module_as=draw(st.sampled_from(["object", "object", "object", "name"])),
            form=form,
            modes=modes,
            mask=draw(st.integers(0, 2 ** 24 - 1)),
            flavor=flavor,
        )

    return bases()


def minimal_instance(pat):
    """The smallest form of a shape: a variable for every operand, one operand for a repeated one."""
    k = pat[0]
    if k == "E":
        return ["s", "a"]
    if k == "N":
        return ["s", "b"]
    if k == "W":
        return ["(", [["s", "m1"], ["k", "k"]]]
    if k == "lit":
        return pat[1]
    if k == "PYSTR":
        return ["str", R.PYSTR[pat[1]][0]]
    return [k, [minimal_instance(p) for p in pat[1]] + ([minimal_instance(pat[2])] if pat[2] is not None else [])]


def classes(case, exp):
    cl = ["api:" + case["api"], "pos:" + case["pos"], "chain-steps:%d" % (len(exp["chain"]) - 1), "terminal:%s" % exp["terminal"]]
    for i in exp["infos"]:
        cl.append("step:" + i if i.startswith(("core:", "core-shadow:")) else "via:" + i.split(":")[2])
        if not i.startswith("core:"):
            cl += ["ns:" + i.split(":")[0], "body:" + i.split(":")[1]]
    last = exp["chain"][-1]
    if exp["terminal"] == "identity" and last[0] in ("[", "#(", "{", "#{") and last[1] and last[1][0][0] == "s" and any(
            d["name"] == last[1][0][1] for d in case["macros"]):
        cl.append("end:non-expression-starting-with-macro-name")
    if exp["terminal"] == "identity":
        cl.append("end:" + ("call" if last[0] == "(" and last[1] and last[1][0][0] == "s" else
                            "empty-expression" if last == ["(", []] else
                            "odd-head" if last[0] == "(" else "non-expression:" + last[0]))
    if case.get("macros_arg") != "none":
        cl.append("macros=" + case["macros_arg"])
    if case.get("module_as") == "name":
        cl.append("module-by-name")
    if any(d["name"] in R.ALL_CORE for d in case["macros"]):
        cl.append("env:shadows-core")
    if len({d["name"] for d in case["macros"]}) < len(case["macros"]):
        cl.append("env:macros=-shadows-module")
    return sorted(set(cl))


def shard(ctx):
    import sys

    import hy  # noqa

    if set(R.FUNCS) & set(getattr(__import__("builtins"), "_hy_macros", {})):
        raise Harness("a name of the non-macro pool is a core macro on this tree")

    def one(base):
        base = dict(base)
        modes, flavor = base.pop("modes"), base.pop("flavor")
        mentions = any(d["name"] in json.dumps(base["form"]) for d in base["macros"])
        saved = {k: sys.modules.get(k) for k in (R.MOD_NAME, R.SRC_MODULE)}
        try:
            env = None  # one environment serves the (api, position mode) variants of a base; check_case always builds a fresh one
            for api in ("macroexpand-1", "macroexpand"):
                for mode in modes:
                    env = variant(base, api, mode, flavor, mentions, env)
        finally:
            for k, v in saved.items():
                if v is None:
                    sys.modules.pop(k, None)
                else:
                    sys.modules[k] = v

    def variant(base, api, mode, flavor, mentions, env):
        case = dict(base, api=api, pos=mode)
        if mode != "mixed":
            case.pop("mask")
        try:
            exp = R.expected(case)
        except R.Invalid as e:
            ctx.count("skipped:" + str(e)[:40])
            return env
        if env is None:
            env = define_env(case)
        nchain = len(exp["chain"]) - 1
        nt = nchain >= 2 or exp["terminal"] == "result" or (nchain == 0 and mentions)
        sample = "%s %s [%s] | %s" % (api, R.render(case["form"]), mode, " ; ".join("%s:%s" % (d["ns"], R.render_defmacro(d)) for d in case["macros"]))
        ctx.case(key=json.dumps(case, sort_keys=True), nontrivial=nt, cls=classes(case, exp) + ["flavor:" + flavor], sample=sample[:400])
        r = run(case, exp, env)
        if r is not None:
            ctx.fail(case, r[0], r[1])
        return env

    # enumerated part: every compiler-implemented form of the table, directly and at the end of a one- and a two-step chain
    shapes = sorted(R.SHAPES)
    for i, name in enumerate(shapes):
        if i % ctx.n != ctx.k:
            continue
        for pat in R.SHAPES[name]:
            form = minimal_instance(pat)
            chain1 = dict(name="m1", ns="mod", pos=[], opt=[], rest=None, body=dict(k="tmpl", t=form))
            chain2 = dict(name="m2", ns="mod", pos=["x"], opt=[], rest=None, body=dict(k="tmpl", t=["(", [["s", "m1"]]]))
            for macros, f in (([], form), ([chain1], ["(", [["s", "m1"]]]), ([chain2, chain1], ["(", [["s", "m2"], ["i", 0]]])):
                base = dict(macros=macros, req=False, macros_arg="none", module_as="object", form=f, modes=["read", "mixed"], mask=0b101010, flavor="enumerated")
                one(base)

    # operator macros with a #* argument: the documented fallback to the hy.pyops function is a macro-expansion step
    for i, op in enumerate(sorted(R.SHADOW_OPS)):
        if i % ctx.n != ctx.k:
            continue
        star = ["(", [["s", "unpack-iterable"], ["s", "xs"]]]
        for form in (["(", [["s", op], star, ["i", 1]]], ["(", [["s", op], ["i", 2], star]]):
            chain1 = dict(name="m1", ns="mod", pos=[], opt=[], rest=None, body=dict(k="tmpl", t=form))
            chain2 = dict(name="m2", ns="mod", pos=["x"], opt=[], rest=None, body=dict(k="tmpl", t=["(", [["s", "m1"]]]))
            for macros, f in (([], form), ([chain1], ["(", [["s", "m1"]]]), ([chain2, chain1], ["(", [["s", "m2"], ["i", 0]]])):
                one(dict(macros=macros, req=False, macros_arg="none", module_as="object", form=f, modes=["read", "mixed"], mask=0b101010, flavor="enumerated-shadow"))

    # Hy's compiler recurses ~100 frames deep and back for every form; started from the ~60 frames Hypothesis is already
    # deep, that keeps crossing a 16 KB boundary of CPython 3.12's frame stack, and every crossing is an mmap/munmap pair
    # (measured: 18 000 munmaps, 70 % of the run in the kernel). A worker thread starts from an empty frame stack.
    from concurrent.futures import ThreadPoolExecutor

    with ThreadPoolExecutor(max_workers=1) as pool:
        ctx.hyp(strategy(ctx.quick), lambda base: pool.submit(one, base).result(), ctx.per_shard(1000, 80000), "envs")


# ------------------------------------------------------------------ recognisers for the two defects found on the pinned tree
# (only used if they are recorded in known_findings.json instead of being repaired; see the report / DESIGN.md)

POS_ATTRS = ("_start_line", "_end_line", "_start_column", "_end_column")


def match_shared_atom_gets_positions(case, bucket, detail):
    """hy.models.Object.replace fills missing position attributes in place; atoms are shared between the input and every
    expansion, so an atom without positions below a node with positions receives that node's positions.
    Defect model: the changed node is an atom, it had none of the four attributes, it now has exactly the four of one of
    its ancestors in the input, and nothing else differs."""
    if bucket != "input-mutated:position-attributes-set-on-atom" or not isinstance(detail, dict):
        return False
    try:
        exp = R.expected(case)
    except R.Invalid:
        return False
    before, after = detail.get("before") or {}, detail.get("after") or {}
    if sorted(after) != sorted(POS_ATTRS) or any(before.get(k) is not None for k in POS_ATTRS):
        return False
    path = [int(x) for x in __import__("re").findall(r"\[(\d+)\]", detail.get("where", ""))]
    node = make_input(case)
    ancestors = []
    for i in path:
        ancestors.append(node)
        node = node[i]
    if isinstance(node, tuple) or any(hasattr(node, k) for k in POS_ATTRS):
        return False
    return any(all(hasattr(a, k) and repr(getattr(a, k)) == after[k] for k in POS_ATTRS) for a in ancestors)


def match_py_without_filename(case, bucket, detail):
    """(py ...) / (pys ...) hand compiler.filename to ast.parse; the compiler hy.macroexpand creates has filename None."""
    return (bucket == "raised:HyMacroExpansionError:TypeError:at-core:py/pys" and isinstance(detail, dict)
            and "expected str, bytes or os.PathLike object, not NoneType" in detail.get("error", ""))


MATCHERS = {
    "shared_atom_gets_positions": match_shared_atom_gets_positions,
    "py_without_filename": match_py_without_filename,
}
