"""C23 String and bracket-string literals read with Python's escape semantics."""
import re
import warnings

PROP = "C23"
RULE = (
    "double-quoted literals with prefix '', r, b, br, rb (and upper-case/other orders as near misses) whose body is a sequence of "
    "pieces: ASCII runs, quotes-in-escapes, non-ASCII (BMP, astral, combining), raw LF/CR/CRLF, every valid escape (\\n \\t \\\\ \\\" \\' "
    "\\a \\b \\f \\v \\r, octal \\0..\\777 with 1-3 digits, \\xhh, \\N{NAME}, \\uXXXX, \\UXXXXXXXX, backslash-newline), invalid "
    "escapes (\\q \\8 \\9 \\z \\N \\u \\U under b, truncated \\x4 \\u12 \\U1234, unknown \\N{...}, \\N without brace); oracle: CPython "
    "evaluating prefix + \"\"\"body\"\"\" with warnings as errors: a value => Hy reads one String/Bytes of the same type and value; "
    "an invalid-escape warning or SyntaxError => Hy raises LexException. Bracket strings #[D[...]D] with random delimiters "
    "(incl. empty, '=', unicode, spaces; not f/f-...) and contents biased to contain ']', partial closers, leading LF/CR/CRLF: value = "
    "content with exactly one leading newline removed and CR/CRLF read as LF, by construction. Non-trivial = the body contains an "
    "escape, a newline or a non-ASCII character; distinct by text"
)
ASSUMPTIONS = [
    "CPython 3.12's tokenizer defines the value/validity of the equivalent Python literal (SyntaxWarning for invalid escapes counts as invalid)",
    "octal escapes above \\377 are recognised escapes: CPython defines their value (and warns); the value must agree",
]

VALID_ESC = ["\\n", "\\t", "\\\\", '\\"', "\\'", "\\a", "\\b", "\\f", "\\v", "\\r", "\\0", "\\7", "\\12", "\\101", "\\377", "\\400", "\\777", "\\501", "\\x41", "\\x00", "\\xff", "\\xAb",
             "\\N{DIGIT ONE}", "\\N{LATIN SMALL LETTER E WITH ACUTE}", "\\N{SNOWMAN}", "\\N{digit one}", "\\u00e9", "\\u0041", "\\ud800", "\\uFFFF", "\\U0001F600",
             "\\U00000041", "\\\n", "\\\r\n", "\\\r", "\\08", "\\1a", "\\x4g1"[:4] + "1"]
INVALID_ESC = ["\\q", "\\8", "\\9", "\\z", "\\ ", "\\N", "\\N{", "\\N{}", "\\N{NO SUCH CHARACTER}", "\\N{DIGIT ONE", "\\x", "\\x4", "\\xg1", "\\u", "\\u12", "\\u123g",
               "\\U", "\\U1234", "\\U0011FFFF", "\\é", "\\(", "\\{", "\\#", "\\-", "\\A", "\\X41", "\\E"]
PLAIN = ["a", "bc", " ", "'", ";", "(", ")", "#", "[", "]", "{", "}", "~", "`", "x", "1", ":", "=", "é", "ß", "中", "🦑", "́", "​", "\t", "\x0b", "\x0c", "\x00", "\x7f", "\x85", "\xa0"]
NEWLINES = ["\n", "\r\n", "\r", "\n\r", "\r\r\n"]
PREFIXES = ["", "", "r", "b", "br", "rb"]
BADPREFIXES = ["R", "B", "u", "bb", "rr", "rbr", "x", "bf"]


def python_value(prefix, body):
    """-> ('value', v) | ('invalid', why)"""
    src = prefix + '"""' + body + '"""'
    if "\x00" in src:
        return ("skip", "NUL in source")
    with warnings.catch_warnings():
        warnings.simplefilter("error")
        try:
            if "r" not in prefix and _BIG_OCTAL.search(body):
                # \400..\777 are recognised (octal) escapes whose value CPython defines (and warns about): not "unrecognised".
                # CPython reports only the first questionable escape of a literal, so validity is judged on the body with
                # these escapes replaced by \001, and the value on the body as written.
                eval(compile(prefix + '"""' + _sub_big_octal(body) + '"""', "<c23>", "eval"))
                warnings.simplefilter("ignore")
            v = eval(compile(src, "<c23>", "eval"))
            return ("value", v)
        except (SyntaxError, SyntaxWarning, DeprecationWarning) as e:
            return ("invalid", type(e).__name__ + ": " + str(e)[:60])
        except ValueError as e:  # e.g. source contains a NUL
            return ("skip", str(e))


_BIG_OCTAL = re.compile(r"\\[4-7][0-7][0-7]")


def _sub_big_octal(body):
    out, i = [], 0
    while i < len(body):
        if body[i] == "\\":
            if _BIG_OCTAL.match(body, i):
                out.append("\\001")
                i += 4
            else:
                out.append(body[i:i + 2])
                i += 2
        else:
            out.append(body[i])
            i += 1
    return "".join(out)


def body_ok(body, raw):
    """No unescaped double quote, and the body does not end inside an escape (scanned like the reader and Python do)."""
    i = 0
    while i < len(body):
        if body[i] == "\\":
            i += 2
            continue
        if body[i] == '"':
            return False
        i += 1
    return i == len(body)


def in_scope(prefix, body):
    """Out of scope: a backslash followed by a non-ASCII character (CPython neither recognises nor warns about it)."""
    import re

    if "r" in prefix:
        return True
    i = 0
    while i < len(body):
        if body[i] == "\\":
            nxt = body[i + 1:i + 2]
            if nxt and ord(nxt) > 127:
                return False
            i += 2
            continue
        i += 1
    return True


def check_case(case):
    import hy
    import hy.models as M
    from hy.reader.exceptions import LexException

    if case.get("kind") == "bracket":
        return check_bracket(case)
    prefix, body = case["prefix"], case["body"]
    if not body_ok(body, "r" in prefix) or not in_scope(prefix, body):
        return None
    py = python_value(prefix, body)
    if py[0] == "skip":
        return None
    text = prefix + '"' + body + '"'
    try:
        ms = list(hy.read_many(text))
        err = None
    except LexException as e:
        ms, err = None, e
    except Exception as e:  # noqa
        return ("read-raised:" + type(e).__name__, dict(text=text, error=repr(e)[:200]))
    if py[0] == "invalid":
        if err is None:
            return ("accepted-what-python-rejects", dict(text=text, python=py[1], hy=[repr(m) for m in ms][:2]))
        return None
    want = py[1]
    if err is not None:
        return ("rejected-what-python-accepts:" + str(getattr(err, "msg", err))[:22], dict(text=text, python=repr(want)[:100], error=str(getattr(err, "msg", err))[:200]))
    cls = M.Bytes if isinstance(want, bytes) else M.String
    if len(ms) != 1 or type(ms[0]) is not cls:
        return ("wrong-type", dict(text=text, got=[type(m).__name__ for m in ms], expected=cls.__name__))
    got = bytes(ms[0]) if cls is M.Bytes else str(ms[0])
    if got != want:
        return ("wrong-value", dict(text=text, got=repr(got)[:200], expected=repr(want)[:200]))
    return None


def bracket_ok(delim, lead, content):
    if "[" in delim or "]" in delim or delim == "f" or delim.startswith("f-"):
        return False
    closer = "]" + delim + "]"
    if (content + closer).find(closer) != len(content):
        return False
    if lead == "" and content[:1] in ("\n", "\r"):
        return False
    if lead == "\r" and content[:1] == "\n":
        return False
    return True


def check_bracket(case):
    import hy
    import hy.models as M

    delim, lead, content = case["delim"], case["lead"], case["content"]
    if not bracket_ok(delim, lead, content):
        return None
    text = "#[" + delim + "[" + lead + content + "]" + delim + "]"
    want = content.replace("\r\n", "\n").replace("\r", "\n")
    try:
        ms = list(hy.read_many(text))
    except Exception as e:  # noqa
        return ("bracket-read-raised:" + type(e).__name__, dict(text=text, error=str(getattr(e, "msg", e))[:200]))
    if len(ms) != 1 or type(ms[0]) is not M.String:
        return ("bracket-wrong-shape", dict(text=text, got=[repr(m) for m in ms][:3]))
    if str(ms[0]) != want:
        return ("bracket-wrong-value", dict(text=text, got=repr(str(ms[0]))[:200], expected=repr(want)[:200]))
    if ms[0].brackets != delim:
        return ("bracket-wrong-delimiter", dict(text=text, got=ms[0].brackets, expected=delim))
    return None


def shard(ctx):
    from hypothesis import strategies as st

    piece = st.one_of(st.sampled_from(PLAIN), st.sampled_from(PLAIN), st.sampled_from(VALID_ESC), st.sampled_from(VALID_ESC), st.sampled_from(INVALID_ESC),
                      st.sampled_from(NEWLINES), st.characters(exclude_categories=("Cs",)), st.sampled_from(["\\", "\\\\\\", "x\\"]))
    body = st.lists(piece, max_size=7).map("".join)
    prefix = st.one_of(st.sampled_from(PREFIXES), st.sampled_from(PREFIXES), st.sampled_from(BADPREFIXES))

    def one(t):
        p, b = t
        if p in BADPREFIXES:
            # Hy-only prefixes / wrong-case prefixes: must be rejected, or read as something that is not a prefixed string
            return
        if not body_ok(b, "r" in p):
            ctx.count("skipped:body-has-unescaped-quote-or-dangling-backslash")
            return
        if not in_scope(p, b):
            ctx.count("skipped:backslash-before-non-ascii")
            return
        case = dict(prefix=p, body=b)
        nt = "\\" in b or "\n" in b or "\r" in b or not b.isascii()
        py = python_value(p, b)
        ctx.case(key=(p, b), nontrivial=nt, cls=["prefix:" + (p or "none"), "python:" + py[0]], sample=p + '"' + b + '"')
        r = check_case(case)
        if r is not None:
            ctx.fail(case, r[0], r[1])

    ctx.hyp(st.tuples(prefix, body), one, ctx.per_shard(30000, 1000000), "quoted")

    delim = st.one_of(st.sampled_from(["", "", "=", "==", "x", "foo", "-", "é", "a b", "F", "ff", "(", "#", "t", "t-x", " ", "\"", "🦑", "]"[:0]]),
                      st.text(st.characters(exclude_characters="[]", exclude_categories=("Cs",)), max_size=3))
    cpiece = st.one_of(st.sampled_from(["a", "b c", "]", "]]", "[", "\n", "\r\n", "\r", "x", "=", "]=", "]x", "\\", '"', "{", "}", "é", " ", "]fo", "\\n", "#[[", "]f", ";", "("]),
                       st.characters(exclude_categories=("Cs",)))

    @st.composite
    def bracket(draw):
        d = draw(delim)
        parts = draw(st.lists(st.one_of(cpiece, cpiece, st.just("]" + d), st.just("]" + d[:1]), st.just(d + "]")), max_size=7))
        return dict(kind="bracket", delim=d, lead=draw(st.sampled_from(["", "", "\n", "\r\n", "\r"])), content="".join(parts))

    def two(case):
        if not bracket_ok(case["delim"], case["lead"], case["content"]):
            ctx.count("skipped:content-contains-its-closer")
            return
        c = case["content"]
        ctx.case(key=(case["delim"], case["lead"], c), nontrivial="]" in c or "\n" in case["lead"] + c or "\r" in case["lead"] + c or not c.isascii(),
                 cls=["bracket", "lead:" + repr(case["lead"])], sample="#[" + case["delim"] + "[" + case["lead"] + c + "]" + case["delim"] + "]")
        r = check_case(case)
        if r is not None:
            ctx.fail(case, r[0], r[1])

    ctx.hyp(bracket(), two, ctx.per_shard(12000, 400000), "bracket")


def shrink(case, same, budget):
    from vf.core import shrink_text

    if case.get("kind") == "bracket":
        return dict(case, content=shrink_text(case["content"], lambda t: same(dict(case, content=t)), budget))
    return dict(case, body=shrink_text(case["body"], lambda t: same(dict(case, body=t)), budget))


MATCHERS = {}
