"""C38 hy.gensym returns distinct, valid, _hy_-prefixed symbols under any thread schedule.

The harness owns the thread schedule (vf/c38_sched.py): sys.monitoring
INSTRUCTION events park every worker before each bytecode instruction of
hy.gensym, a scheduler releases one thread per step, and the module-global
lock of hy/core/util.hy is swapped for a cooperative one so that a thread
waiting for it is "not runnable" instead of asleep.
"""
import json
import os

from vf import c38_sched as S

PROP = "C38"
RULE = (
    "a case is (calls, switches): 2-3 threads (thorough: also 4) with 1-2 hy.gensym calls each (thorough: up to 3) and a schedule given as "
    "switches [global step, thread] over the bytecode instructions of hy.gensym (one step = one instruction of gensym's own "
    "code; a thread that finds the gensym lock taken is not runnable until it is free). Part 1 enumerates EVERY schedule "
    "within a pre-emption bound (a pre-emption = taking the processor from a thread that could continue; switches where the "
    "running thread finished or is blocked, and the choice of the first thread, are free and all enumerated too): 2 threads "
    "with <=2 pre-emptions (1x1, 2x1, 1x2, 2x2 calls), 3 threads with <=1 (thorough: 1x1 <=4, 2x1 and 1x2 <=3, 2x2 and 3x3 <=2, "
    "1x1x1 <=2, 2x1x1 and 1x1x1x1 <=1), all calls with the same argument (the only situation in which a repeated "
    "counter value gives equal symbols). Part 2: Hypothesis-drawn cases with up to 10 switches and arguments drawn from a pool "
    "of 1-2 strings per case (collision-prone) over plain, hyphenated, non-ASCII, NFKC-changing, punctuation, 'hyx_' and "
    "dotted texts, or no argument. Oracle: gensym returns in every thread (no deadlock; no exception that the same call does "
    "not raise when made alone), every returned value is a hy.models.Symbol, starts with '_hy_', hy.mangle(s) == str(s), and "
    "all symbols returned in the run are pairwise distinct. Non-trivial = another thread executed at least one step strictly "
    "between a call's first and last executed access to the global that gensym's code writes (the counter; located by "
    "disassembly at run time); distinct by the executed thread-per-step sequence (enumeration) or by the case JSON (random)."
)
ASSUMPTIONS = [
    "threads interleave at bytecode-instruction granularity of hy.gensym's own code (and of functions of hy/core/util.hy it reaches by name); "
    "code it calls elsewhere (hy.mangle, Symbol(), str methods) runs inside one step",
    "the lock(s) found as threading.Lock/RLock module globals of hy.core.util are replaced by a cooperative lock with the same "
    "acquire/release/with semantics for the duration of the run; a lock created elsewhere would block for real and end the run "
    "as a harness error (timeout), never as a verdict",
    "a call that raises the same exception type when made alone in one thread (e.g. ValueError for an argument containing '.') "
    "returns no symbol and is therefore outside the statement; it is counted in class 'argument-rejected-even-alone'",
    "hy.mangle(s) is compared with str(s): hy.models.Symbol.__eq__ is type-strict, so mangle(s) == s is False for every Symbol",
]
LEVEL = "exploration"
BUDGET_QUICK = 300
BUDGET_THOROUGH = 1500


def EXHAUSTIVE(tier):
    return False  # part 1 is exhaustive within its pre-emption bound, part 2 is sampled


# (calls per thread, pre-emption bound); all arguments equal
ENUM_QUICK = [((1, 1), 2), ((2, 1), 2), ((1, 2), 2), ((2, 2), 2), ((1, 1, 1), 1)]
ENUM_THOROUGH = [((1, 1), 4), ((2, 1), 3), ((1, 2), 3), ((2, 2), 2), ((3, 3), 2), ((1, 1, 1), 2), ((2, 1, 1), 1), ((1, 1, 1, 1), 1)]
ENUM_ARG = ""


# -- one case -------------------------------------------------------------------


def valid_case(case):
    if not isinstance(case, dict):
        return False
    calls, sw = case.get("calls"), case.get("switches")
    if not isinstance(calls, list) or not 1 <= len(calls) <= 4:
        return False
    for th in calls:
        if not isinstance(th, list) or not 1 <= len(th) <= 4:
            return False
        if not all(a is None or isinstance(a, str) for a in th):
            return False
    if not isinstance(sw, list) or len(sw) > 64:
        return False
    for e in sw:
        if not (isinstance(e, list) and len(e) == 2 and all(type(x) is int for x in e) and e[0] >= 0):
            return False
    return True


def judge(h, case, res):
    """-> (None | (bucket, detail), set of classes)"""
    import hy
    from hy.models import Symbol

    calls = case["calls"]
    cls = S.classify(h, res)
    picture = S.render(res)

    def detail(**kw):
        d = dict(schedule=picture, preemptions=res["preemptions"], steps=res["steps"],
                 results=[[(r[1] if r[0] == "exc" else str(r[1])) for r in rs] for rs in res["results"]])
        d.update(kw)
        return d

    if res["outcome"] == "deadlock":
        return ("deadlock", detail(blocked_threads=res["blocked_left"])), cls
    seen = {}
    dup = None
    bad = None
    for t, rs in enumerate(res["results"]):
        if len(rs) != len(calls[t]):
            raise S.SchedHarnessError("thread %d recorded %d results for %d calls" % (t, len(rs), len(calls[t])))
        for j, r in enumerate(rs):
            arg = calls[t][j]
            if r[0] == "exc":
                if h.baseline(arg) == r[1]:
                    cls.add("argument-rejected-even-alone")
                    continue
                bad = bad or ("raised-under-schedule:" + r[1], detail(thread=t, call=j, arg=arg, error=r[2], alone=h.baseline(arg)))
                continue
            v = r[1]
            if not isinstance(v, Symbol):
                bad = bad or ("not-a-symbol:" + type(v).__name__, detail(thread=t, call=j, arg=arg, value=repr(v)[:200]))
                continue
            s = str(v)
            if s in seen and dup is None:
                dup = ("duplicate-symbol", detail(symbol=s, first=list(seen[s]), second=[t, j], arg=arg))
            seen.setdefault(s, (t, j))
            if not s.startswith("_hy_"):
                bad = bad or ("prefix-not-_hy_", detail(thread=t, call=j, arg=arg, symbol=s))
                continue
            try:
                m = hy.mangle(v)
            except Exception as e:  # noqa
                bad = bad or ("mangle-raises:" + type(e).__name__, detail(thread=t, call=j, arg=arg, symbol=s, error=str(e)[:200]))
                continue
            if m != s:
                bad = bad or ("not-already-mangled", detail(thread=t, call=j, arg=arg, symbol=s, mangled=m))
            elif arg and hy.mangle(arg) != arg:
                cls.add("argument-needed-mangling")
    return (dup or bad), cls


def run_case(h, case):
    res = h.execute(case["calls"], case["switches"])
    verdict, cls = judge(h, case, res)
    return verdict, cls, res


def check_case(case):
    if not valid_case(case):
        return None
    with S.Harness.get() as h:
        verdict, _, _ = run_case(h, case)
    return verdict


# -- part 1: exhaustive enumeration within a pre-emption bound ----------------------


def children(switches, res, bound):
    last = switches[-1][0] if switches else -1
    base = res["preemptions"]
    for s in range(last + 1, res["steps"]):
        d = res["default"][s]
        cost = base + (1 if res["cur_runnable"][s] else 0)
        if cost > bound:
            continue
        for t in res["enabled"][s]:
            if t != d:
                yield switches + [[s, t]]


def enumerate_config(ctx, h, shape, bound, split_depth=2):
    """All schedules of `shape` with <= bound pre-emptions. Levels < split_depth are run by every shard
    (needed to generate the next level) but counted by one; deeper subtrees are owned by one shard each."""
    calls = [[ENUM_ARG] * k for k in shape]
    name = "enum:%s:<=%d" % ("x".join(str(k) for k in shape), bound)
    traces = set()
    stats = dict(ev=0, nt=0)
    counter = [0]
    complete = [True]

    def visit(switches, depth, owned):
        if ctx.out_of_time():
            complete[0] = False
            return
        case = dict(calls=calls, switches=switches)
        verdict, cls, res = run_case(h, case)
        if res["ignored"]:
            raise S.SchedHarnessError("enumerated schedule has an ignored switch: %r" % (case,))
        if res["preemptions"] > bound:
            raise S.SchedHarnessError("enumerated schedule exceeds the bound: %r" % (case,))
        if verdict is not None:
            ctx.fail(case, verdict[0], verdict[1])
        if owned:
            key = bytes(res["thread"])
            if key in traces:
                raise S.SchedHarnessError("two enumerated schedules gave the same interleaving: %r" % (case,))
            traces.add(key)
            stats["ev"] += 1
            nt = "switch-inside-counter-window" in cls
            stats["nt"] += nt
            for c in cls:
                if not c.startswith("preemptions="):
                    ctx.count(name + ":" + c)
            ctx.count("%s:preemptions=%d" % (name, res["preemptions"]))
            if nt and len(ctx.samples.setdefault(name, [])) < 2:
                ctx.samples[name].append("%s switches=%s -> %s" % (json.dumps(calls), json.dumps(switches), S.render(res)))
        for ch in children(switches, res, bound):
            if depth + 1 < split_depth:
                idx = counter[0]
                counter[0] += 1
                visit(ch, depth + 1, idx % ctx.n == ctx.k)
            elif depth + 1 == split_depth:
                idx = counter[0]
                counter[0] += 1
                if idx % ctx.n == ctx.k:
                    visit(ch, depth + 1, True)
            elif owned:
                visit(ch, depth + 1, True)

    visit([], 0, ctx.k == 0)
    ctx.bulk(stats["ev"], stats["nt"], cls=name)
    if not complete[0]:
        ctx.notes.append("shard %d: %s stopped by the time budget" % (ctx.k, name))


# -- part 2: random cases -----------------------------------------------------------

ARGS = ["", None, "a", "x-y", "x_y", "é", "１", "1", "a b", "(", "hyx_", "_hyx_", "🦑", "X", "_", "-", "ﬁ", "́",
        "a.b", ".", "is-not?", "*e*", "G!", "\n", "\x00", ":k", "#", "a/b", "Ω", "︳"]


def case_strategy(max_calls):
    from hypothesis import strategies as st

    arg = st.one_of(st.sampled_from(ARGS), st.sampled_from(ARGS[:8]),
                    st.text(st.characters(exclude_categories=("Cs",)), max_size=5))
    gaps = st.one_of(st.integers(1, 4), st.integers(1, 25), st.integers(1, 60))

    @st.composite
    def build(draw):
        pool = draw(st.lists(arg, min_size=1, max_size=2))
        nthreads = draw(st.sampled_from([2, 2, 3]))
        calls = [[draw(st.sampled_from(pool)) for _ in range(draw(st.integers(1, max_calls)))] for _ in range(nthreads)]
        nsw = draw(st.integers(0, 10))
        g = draw(gaps.flatmap(lambda hi: st.lists(st.integers(1, hi), min_size=nsw, max_size=nsw)))
        step = draw(st.integers(0, 3)) - 1
        switches = []
        for d in g:
            step += d
            switches.append([step, draw(st.integers(0, nthreads - 1))])
        return dict(calls=calls, switches=switches)

    return build()


def shard(ctx):
    with S.Harness.get() as h:
        if ctx.k == 0:
            ctx.notes.append("instrumented: %s" % json.dumps(h.describe()))
        if not h.replaced:
            ctx.count("no-module-lock-found")
        for shape, bound in (ENUM_QUICK if ctx.quick else ENUM_THOROUGH):
            enumerate_config(ctx, h, shape, bound)

        def one(case):
            verdict, cls, res = run_case(h, case)
            nt = "switch-inside-counter-window" in cls
            names = ["random:threads=%d" % len(case["calls"])] + ["random:" + c for c in sorted(cls)]
            if len({repr(a) for th in case["calls"] for a in th}) == 1:
                names.append("random:all-arguments-equal")
            ctx.case(key=json.dumps(case, sort_keys=True), nontrivial=nt, cls=names,
                     sample="%s switches=%s -> %s" % (json.dumps(case["calls"]), json.dumps(case["switches"]), S.render(res, 16)))
            if verdict is not None:
                ctx.fail(case, verdict[0], verdict[1])

        ctx.hyp(case_strategy(2 if ctx.quick else 3), one, ctx.per_shard(8000, 300000), "random")


MATCHERS = {}
