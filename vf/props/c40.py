"""C40 The REPL evaluates incremental input like a script and tracks *1 *2 *3 *e."""
import json

from vf import c40_sessions as S

PROP = "C40"
RULE = (
    "hy.REPL is driven in-process: every line is passed to runsource accumulated with the lines before it, as "
    "code.InteractiveConsole.push does; stdout/stderr are captured per call and the REPL's namespace is read after each call. "
    "Three generators. (1) ENUMERATED histories: every sequence of input kinds {value, None-valued, blank, read error, compile "
    "error, macro-expansion error, run-time error} up to length 4 (quick) / 5 (thorough), shapes and layouts rotating; plus two inputs that each define a function inside a top-level let binding the same name, an input of every "
    "kind and shape between and after them, then calls of both functions (a closure over one input's let variable must keep its value). (2) RANDOM "
    "histories of 1..12 inputs drawn from a catalogue of ~85 input shapes (literals, calls, strings and bracket strings containing "
    "newlines/delimiters, collections, quoted data, definitions used by later inputs, multi-form inputs, print side effects, caught "
    "exceptions, inputs that fail after a side effect), each laid out over several lines by breaking only inside an open delimiter, "
    "after a prefix character or inside a string, optionally behind a comment containing delimiters. (3) Engine-B PROGRAMS (vf/textgen.py, "
    "top-level forms quoted) split at EVERY line break; the generator's own record of open constructs is the ground truth for "
    "'incomplete'. Oracle: runsource is truthy exactly on the lines after which the text is incomplete, prints nothing and changes no "
    "special variable there; on completion stdout == the input's own prints + hy.repr text of the last form's value (expected value "
    "known by construction, computed in Python; for programs: hy.repr of the constructor-built model) and nothing for None / failed "
    "inputs; later inputs see earlier definitions and the side effects that ran before a failure. History model: a successful input "
    "shifts its result (None included) into *1; a failed or blank input either takes no slot or takes one with None (either is "
    "accepted, per input); slots not yet determined by an input are unconstrained; so two slots can never hold one input's result "
    "(results are distinct by construction). *e: unchanged (same object) by successful/blank/incomplete input, also when the input "
    "caught an exception itself; after a failed input a new exception object, of the raised type/message where the catalogue knows "
    "it, and the very object the REPL reported through sys.excepthook. Non-trivial = the history has a failed input or an input spanning several lines; "
    "distinct by the concrete line lists"
)
ASSUMPTIONS = [
    "the result of an input with several forms is the value of its last form (docs/repl.rst 'the return value of each REPL input'; tests/native_tests/repl.hy test-assignment)",
    "an input consisting only of whitespace, comments or discarded forms may or may not count as an input with result None",
    "a successful None-valued input is an input whose result is None: *1 becomes None (docs/repl.rst '*1 holds the result of the most recent input')",
    "expected hy.repr texts are produced by calling hy.repr on Python values built by the generator",
    "the uncaught exception of a failed input is the object the REPL hands to sys.excepthook; during a session sys.excepthook is replaced by one that prints only the final 'Type: message' part (CPython's built-in hook re-reads every source file per frame)",
    "truthiness of runsource's return value is what is checked (code.InteractiveConsole.push only tests truth)",
]
BUDGET_QUICK = 240
BUDGET_THOROUGH = 1500

KIND_CODES = list(S.KINDS)


def check_case(case):
    if "items" in case:
        inputs, rd = S.inputs_from_items(case["items"])
        if inputs is None:
            return None
        return S.run_session(inputs, distinct=False)
    if "steps" in case:
        return S.run_session(S.build_session(case["steps"]))
    inputs = case["inputs"]
    for i in inputs:
        if i.get("kind") not in S.KINDS or not isinstance(i.get("lines"), list) or not i["lines"]:
            raise ValueError("malformed C40 case: %r" % (i,))
        if i["kind"] == "value" and not isinstance(i.get("expect"), str):
            raise ValueError("malformed C40 case (value input without expect): %r" % (i,))
    return S.run_session(inputs)


def self_contained(inputs):
    """No input refers to a variable/function/macro whose defining input is missing (builder-made inputs carry
    'uses'/'defs'; hand-written ones carry neither and are not restricted)."""
    defined = set()
    for i in inputs:
        if any(u not in defined for u in i.get("uses", [])):
            return False
        defined.update(i.get("defs", []))
    return True


def shrink(case, same, budget):
    """Drop whole inputs (never edit a line: expectations are tied to the text)."""
    from vf import core

    if "items" in case:
        return core.shrink_json(case, same, budget)
    if "steps" in case:
        case = dict(inputs=S.build_session(case["steps"]))
        if not same(case):
            return case
    calls = 0
    best = case
    improved = True
    while improved and calls < budget:
        improved = False
        n = len(best["inputs"])
        for i in list(range(n - 1, -1, -1)):
            cand = dict(inputs=best["inputs"][:i] + best["inputs"][i + 1:])
            if not cand["inputs"] or not self_contained(cand["inputs"]):
                continue
            calls += 1
            if same(cand):
                best = cand
                improved = True
                break
            if calls >= budget:
                break
    return best


def session_classes(inputs):
    cls = set()
    kinds = [i["kind"] for i in inputs]
    fails = [k in S.FAIL_KINDS for k in kinds]
    for a, b in zip(kinds, kinds[1:]):
        if b in S.FAIL_KINDS:
            cls.add("pattern:%s-then-failed" % ("failed" if a in S.FAIL_KINDS else a))
        elif a in S.FAIL_KINDS:
            cls.add("pattern:failed-then-%s" % b)
    if kinds and fails[0]:
        cls.add("pattern:first-input-fails")
    run = best = 0
    for f in fails:
        run = run + 1 if f else 0
        best = max(best, run)
    if best >= 3:
        cls.add("pattern:three-or-more-failures-in-a-row")
    for i, f in enumerate(fails):
        if f and sum(1 for k in kinds[i + 1:] if k == "value") >= 3:
            cls.add("pattern:failure-then-three-results")
            break
    if any(len(i["lines"]) > 1 for i in inputs):
        cls.add("layout:multi-line-input")
    if any(len(i["lines"]) > 1 and i["kind"] in S.FAIL_KINDS for i in inputs):
        cls.add("layout:multi-line-failing-input")
    if any(len(i["lines"]) > 3 for i in inputs):
        cls.add("layout:input-over-4+-lines")
    return cls


def shard(ctx):
    from hypothesis import strategies as st

    def run_inputs(case, inputs, origin, extra_cls=()):
        nt = any(i["kind"] in S.FAIL_KINDS for i in inputs) or any(len(i["lines"]) > 1 for i in inputs)
        key = json.dumps([i["lines"] for i in inputs])
        cls = [origin] + sorted(session_classes(inputs)) + list(extra_cls)
        ctx.case(key=key, nontrivial=nt, cls=cls, sample=" ⏎⏎ ".join(" ⏎ ".join(i["lines"]) for i in inputs)[:600])
        for i in inputs:
            ctx.count("input:%s:%s" % (i["kind"], i.get("sub", "")))
            ctx.count("lines-fed", len(i["lines"]))
            if len(i["lines"]) > 1:
                ctx.count("incomplete-prefixes-fed", len(i["lines"]) - 1)
        r = S.run_session(inputs, distinct="items" not in case)
        if r is not None:
            ctx.fail(case, r[0], r[1])

    # (1) enumerated kind sequences
    maxlen = 4 if ctx.quick else 5
    nk = len(KIND_CODES)
    n = 0
    for length in range(1, maxlen + 1):
        for code in range(nk ** length):
            n += 1
            if n % ctx.n != ctx.k:
                continue
            if ctx.out_of_time():
                break
            seq, x = [], code
            for _ in range(length):
                seq.append(KIND_CODES[x % nk])
                x //= nk
            multi = (code // 3) % 2 == 1
            steps = [[k, code * 5 + pos * 3 + length, ([0, 6, 1, 7, 2] if multi else []), 0, (code + pos) % 2] for pos, k in enumerate(seq)]
            inputs = S.build_session(steps)
            run_inputs(dict(inputs=inputs), inputs, "enumerated-kind-sequence")

    # (1b) enumerated: two inputs that each define a function inside a top-level let binding the same name, an input of
    # every kind and shape between and after them, then calls of both functions (temporaries of one input outlive it)
    SH = S.shapes()
    idx_of = lambda kind, label: [i for i, (l, _) in enumerate(SH[kind]) if l == label][0]  # noqa: E731
    d_none, d_call = idx_of("none", "let-closure"), idx_of("value", "let-closure-call")
    n = 0
    for kind in KIND_CODES:
        for shape in range(len(SH[kind])):
            for first in ("none", "value"):
                n += 1
                if n % ctx.n != ctx.k or ctx.out_of_time():
                    continue
                d1 = ["none", d_none, [], 0, 0] if first == "none" else ["value", d_call, [], 0, 0]
                mid = [kind, shape, [], 0, 0]
                steps = [d1, mid, ["none", d_none, [], 0, 0], mid] + [["value", d_call, [], 0, 0]] * 3
                inputs = S.build_session(steps)
                run_inputs(dict(inputs=inputs), inputs, "enumerated-let-closures")

    # (2) random histories
    kind = st.sampled_from(["value"] * 7 + ["none"] * 3 + ["blank"] + ["read"] * 2 + ["compile"] * 2 + ["macro"] + ["run"] * 4)
    step = st.builds(lambda k, s, ch, lead, trail: [k, s, ch, lead, trail], kind, st.integers(0, 199),
                     st.lists(st.integers(0, 11), max_size=6), st.sampled_from([0, 0, 0, 1, 2]), st.integers(0, 5))
    hist = st.lists(step, min_size=1, max_size=12)

    # Generated cases are only collected inside Hypothesis and executed after it has returned: hy walks the whole
    # Python stack (inspect.stack) on REPL creation and macro definition, which is slow under Hypothesis' deep stack.
    drawn = []
    ctx.hyp(hist, drawn.append, ctx.per_shard(2000, 60000), "histories")
    for steps in drawn:
        if ctx.out_of_time():
            break
        inputs = S.build_session(steps)
        run_inputs(dict(inputs=inputs), inputs, "random-history")

    # (3) Engine-B programs split at every line break
    from vf import textgen as T

    SB = T.strategies(max_depth=2 if ctx.quick else 3, fields_compile_safe=True)

    def two(items):
        items = S.quote_all(items)
        inputs, rd = S.inputs_from_items(items)
        if inputs is None:
            ctx.count("skipped-program:" + rd)
            return
        if len(rd.text) > 300:
            ctx.count("skipped-program:text-longer-than-300")
            return
        extra = ["program-feature:" + f for f in sorted(rd.features)]
        for i in inputs:
            for o in i.get("opens", []):
                ctx.count("line-ends-inside:" + o)
        run_inputs(dict(items=items), inputs, "engine-B-program", extra)

    drawn = []
    ctx.hyp(SB["program"], drawn.append, ctx.per_shard(1000, 30000), "programs")
    for items in drawn:
        if ctx.out_of_time():
            break
        two(items)


MATCHERS = {}
