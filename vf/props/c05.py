"""C05 fn/defn bind arguments exactly like the equivalent Python def; implicit return; docstring rule."""

PROP = "C05"
RULE = (
    "(A) lambda lists of up to 6 parameters over {positional-only block + '/', plain, defaulted, #* args, bare *, keyword-only with and "
    "without default, #** kwargs}, legal shapes by construction plus illegal mutations (non-default after default, '/' first, bare * "
    "last, duplicate names, keyword-only default order), each rendered once as a Hy lambda list (defn, fn -> lambda, fn with a "
    "statement body -> def, :async) and once as a Python def; up to 8 calls per signature of up to 6 arguments over {positional, "
    "keyword mingled anywhere, #* list, #** dict}, derived from a call that fits the signature and then mutated (dropped / extra / "
    "duplicated / unknown / re-ordered arguments), rendered as a Hy call and as the Python call with the keywords moved back "
    "(docs/syntax.rst). Oracle: CPython - same mapping parameter -> bound value, or TypeError in the same cases; definitions and calls "
    "are rejected at compile time (a SyntaxError subclass) on the Hy side iff CPython rejects its rendering. (B) function bodies of 1..4 "
    "forms over string literals (plain, raw, bracket), f-strings, bytes, integers, variables, yield / yield :from forms, nested generator lambdas; sync/async; defn and fn: "
    "__doc__, the returned value / yielded values / generator return value equal those of the Python def whose last statement returns "
    "the last form (no return for async generators). Non-trivial = (A) signature with >= 2 parameter kinds and call with >= 2 argument "
    "kinds, (B) >= 2 body forms; distinct by rendered Hy text"
)
ASSUMPTIONS = [
    "CPython 3.12 is the reference for argument binding, for which first statements are docstrings, and for generator/coroutine protocol",
    "keyword arguments are equivalent to the same keywords moved behind the positional arguments in order (docs/syntax.rst)",
    "the order of a **kwargs dictionary is not compared (dict equality)",
]

NAMES = ["a", "b", "c", "d", "e", "g"]


# ---------------------------------------------------------------- rendering: signatures
def hy_param(p):
    return p[0] if p[1] is None else "[%s %d]" % (p[0], p[1])


def py_param(p):
    return p[0] if p[1] is None else "%s=%d" % (p[0], p[1])


def hy_sig(s):
    parts = [hy_param(p) for p in s["posonly"]]
    if s["slash"]:
        parts.append("/")
    parts += [hy_param(p) for p in s["args"]]
    if s["rest"] == "*":
        parts.append("*")
    elif s["rest"]:
        parts.append("#* " + s["rest"])
    parts += [hy_param(p) for p in s["kwonly"]]
    if s["kwargs"]:
        parts.append("#** " + s["kwargs"])
    return "[" + " ".join(parts) + "]"


def py_sig(s):
    parts = [py_param(p) for p in s["posonly"]]
    if s["slash"]:
        parts.append("/")
    parts += [py_param(p) for p in s["args"]]
    if s["rest"] == "*":
        parts.append("*")
    elif s["rest"]:
        parts.append("*" + s["rest"])
    parts += [py_param(p) for p in s["kwonly"]]
    if s["kwargs"]:
        parts.append("**" + s["kwargs"])
    return ", ".join(parts)


# ---------------------------------------------------------------- rendering: calls
def hy_val(v):
    if isinstance(v, list):
        return "[" + " ".join(hy_val(x) for x in v) + "]"
    if isinstance(v, dict):
        return "{" + " ".join('"%s" %s' % (k, hy_val(x)) for k, x in v.items()) + "}"
    return str(v)


def py_val(v):
    if isinstance(v, list):
        return "[" + ", ".join(py_val(x) for x in v) + "]"
    if isinstance(v, dict):
        return "{" + ", ".join("'%s': %s" % (k, py_val(x)) for k, x in v.items()) + "}"
    return str(v)


def hy_call(call):
    out = []
    for a in call:
        if a[0] == "p":
            out.append(hy_val(a[1]))
        elif a[0] == "k":
            out.append(":%s %s" % (a[1], hy_val(a[2])))
        elif a[0] == "s":
            out.append("#* " + hy_val(a[1]))
        else:
            out.append("#** " + hy_val(a[1]))
    return "(F " + " ".join(out) + ")" if out else "(F)"


def py_call(call):
    pos = [py_val(a[1]) if a[0] == "p" else "*" + py_val(a[1]) for a in call if a[0] in "ps"]
    kws = ["%s=%s" % (a[1], py_val(a[2])) if a[0] == "k" else "**" + py_val(a[1]) for a in call if a[0] in "kd"]
    return "F(" + ", ".join(pos + kws) + ")"


# ---------------------------------------------------------------- execution
_cache = {}


def hy_obj(src):
    import hy

    r = _cache.get(src)
    if r is None:
        try:
            r = ("ok", hy.eval(hy.read_many(src), {"__name__": "c05mod", "hy": hy}))
        except SyntaxError as e:  # includes HySyntaxError and friends
            r = ("SyntaxError", "%s: %s" % (type(e).__name__, str(getattr(e, "msg", e))[:160]))
        except Exception as e:  # noqa
            r = ("crash:" + type(e).__name__, str(e)[:200])
        if len(_cache) > 20000:
            _cache.clear()
        _cache[src] = r
    return r


def py_obj(src, name):
    r = _cache.get("py:" + src)
    if r is None:
        try:
            ns = {}
            exec(compile(src, "<c05-ref>", "exec"), ns)  # noqa: S102
            r = ("ok", ns[name])
        except SyntaxError as e:
            r = ("SyntaxError", str(e)[:160])
        _cache["py:" + src] = r
    return r


def snapshot(d):
    return sorted((k, repr(v)) for k, v in d.items())


def call_outcome(f, *a):
    try:
        return "ok:%r" % (snapshot(f(*a)),)
    except TypeError:
        return "TypeError"
    except RecursionError:
        raise
    except Exception as e:  # noqa
        return "raise:" + type(e).__name__


def hy_def(sig, via):
    s = hy_sig(sig)
    if via == "defn":
        return "(defn F %s (locals))\nF" % s
    if via == "fn":  # compiles to a lambda
        return "(fn %s (locals))" % s
    if via == "fn-def":  # statement in the body: compiles to a def
        return "(fn %s (setv _hidden None) (del _hidden) (locals))" % s
    if via == "defn-async":
        return "(defn :async F %s (locals))\nF" % s
    if via in ("defn-let", "fn-let"):
        # the function is defined inside a let that binds every pooled name: its parameters shadow the let's names, so the
        # body, which reads each parameter by name, must see the arguments (Python: return locals())
        names = [p[0] for p in sig["posonly"] + sig["args"] + sig["kwonly"]] + [n for n in (sig["rest"], sig["kwargs"]) if n and n != "*"]
        body = "{%s}" % " ".join('"%s" %s' % (n, n) for n in dict.fromkeys(names))
        binds = " ".join('%s "LET"' % n for n in NAMES + ["r", "k", "args", "kwargs", "rest"])
        if via == "defn-let":
            return "(let [%s] (defn F %s %s))\nF" % (binds, s, body)
        return "(let [%s] (fn %s %s))" % (binds, s, body)
    raise ValueError(via)


def check_binding(case):
    sig, via, calls = case["sig"], case["via"], case["calls"]
    hsrc = hy_def(sig, via)
    psrc = "%sdef F(%s):\n    return locals()\n" % ("async " if via == "defn-async" else "", py_sig(sig))
    h = hy_obj(hsrc)
    p = py_obj(psrc, "F")
    detail = dict(hy=hsrc, python=psrc)
    if h[0].startswith("crash"):
        detail["error"] = h
        return ("definition-crashes-compiler:" + h[0], detail)
    if (h[0] == "SyntaxError") != (p[0] == "SyntaxError"):
        detail.update(hy_outcome=h[0] + ":" + str(h[1])[:160] if h[0] != "ok" else "accepted", python_outcome=p[0] + (":" + p[1] if p[0] != "ok" else ""))
        return ("definition-%s-by-hy-but-%s-by-python" % (("rejected", "accepted") if h[0] == "SyntaxError" else ("accepted", "rejected")), detail)
    if h[0] == "SyntaxError":
        return None
    hf, pf = h[1], p[1]
    if via == "defn-async":
        hf, pf = drive_coro_fn(hf), drive_coro_fn(pf)
    for call in calls:
        hc = hy_obj("(fn [F] %s)" % hy_call(call))
        pc = py_obj("def C(F):\n    return %s\n" % py_call(call), "C")
        d = dict(detail, hy_call=hy_call(call), python_call=py_call(call))
        if hc[0].startswith("crash"):
            d["error"] = hc
            return ("call-crashes-compiler:" + hc[0], d)
        ho = "SyntaxError" if hc[0] == "SyntaxError" else call_outcome(hc[1], hf)
        po = "SyntaxError" if pc[0] == "SyntaxError" else call_outcome(pc[1], pf)
        if ho != po:
            d.update(hy_outcome=ho, python_outcome=po)
            kind = "bound-values-differ" if ho.startswith("ok") and po.startswith("ok") else "hy-%s-python-%s" % (ho.split(":")[0], po.split(":")[0])
            return ("binding:%s:%s" % (kind, via), d)
    return None


def drive_coro_fn(f):
    def g(*a, **k):
        c = f(*a, **k)
        try:
            c.send(None)
        except StopIteration as e:
            return e.value
        raise RuntimeError("coroutine suspended")

    return g


# ---------------------------------------------------------------- (B) bodies
def hy_form(f):
    k = f[0]
    if k == "str":
        return '"%s"' % f[1]
    if k == "rstr":
        return 'r"%s"' % f[1]
    if k == "bstr":
        return "#[[%s]]" % f[1]
    if k == "bstr2":
        return "#[doc[%s]doc]" % f[1]
    if k == "fstr":
        return 'f"%s"' % f[1]
    if k == "ffield":
        return 'f"%s{V}"' % f[1]
    if k == "bytes":
        return 'b"%s"' % f[1]
    if k == "int":
        return str(f[1])
    if k == "var":
        return "V"
    if k == "cat":
        return '(+ "%s" "x")' % f[1]
    if k == "yield":
        return "(yield %d)" % f[1]
    if k == "yieldfrom":
        return "(yield :from [%d %d])" % (f[1], f[1] + 1)
    if k == "lamgen":  # a nested generator lambda: its yield belongs to the lambda, not to the enclosing function
        return "(fn [] (yield %d))" % f[1]
    if k == "lamgenfrom":
        return "(fn [] (yield :from [%d]))" % f[1]
    if k == "none":
        return "None"
    raise ValueError(k)


def py_form(f):
    k = f[0]
    if k in ("str", "bstr", "bstr2"):
        return repr(f[1])
    if k == "rstr":
        return "r" + repr(f[1])
    if k == "fstr":
        return "f" + repr(f[1])
    if k == "ffield":
        return "f" + repr(f[1] + "{V}")
    if k == "bytes":
        return "b" + repr(f[1])
    if k == "int":
        return str(f[1])
    if k == "var":
        return "V"
    if k == "cat":
        return "(%r + 'x')" % f[1]
    if k == "yield":
        return "(yield %d)" % f[1]
    if k == "yieldfrom":
        return "(yield from [%d, %d])" % (f[1], f[1] + 1)
    if k == "lamgen":
        return "(lambda: (yield %d))" % f[1]
    if k == "lamgenfrom":
        return "(lambda: (yield from [%d]))" % f[1]
    if k == "none":
        return "None"
    raise ValueError(k)


def cv(v):
    """canonical text of a returned value; a returned nested generator function is called and drained"""
    if callable(v):
        return "function yielding %r" % (list(v()),)
    return repr(v)


def run_body_fn(f, is_async, has_yield):
    """-> (doc, observation) for a zero-argument function"""
    doc = getattr(f, "__doc__", None)
    try:
        if not is_async and not has_yield:
            return doc, "returns %s" % cv(f())
        if not is_async:
            g, out = f(), []
            while True:
                try:
                    out.append(next(g))
                except StopIteration as e:
                    return doc, "yields %r returns %s" % (out, cv(e.value))
        if not has_yield:
            c = f()
            try:
                c.send(None)
            except StopIteration as e:
                return doc, "awaits to %s" % cv(e.value)
            return doc, "suspended"
        ag, out = f(), []
        while True:
            try:
                ag.__anext__().send(None)
            except StopIteration as e:
                out.append(e.value)
            except StopAsyncIteration:
                return doc, "async-yields %r" % (out,)
    except RecursionError:
        raise
    except Exception as e:  # noqa
        return doc, "raise:" + type(e).__name__


def check_body(case):
    body, via, is_async = case["body"], case["via"], case["async"]
    if not body:
        return None
    has_yield = any(f[0] in ("yield", "yieldfrom") for f in body)
    if is_async and any(f[0] == "yieldfrom" for f in body):
        return None  # 'yield from' is not allowed in an async function
    hforms = " ".join(hy_form(f) for f in body)
    a = ":async " if is_async else ""
    hsrc = "(setv V 7)\n" + ("(defn %sF [] %s)\nF" % (a, hforms) if via == "defn" else "(fn %s[] %s)" % (a, hforms))
    lines = ["    " + py_form(f) for f in body[:-1]]
    last = py_form(body[-1])
    lines.append("    " + (last if (is_async and has_yield) else "return " + last))
    psrc = "V = 7\n%sdef F():\n%s\n" % ("async " if is_async else "", "\n".join(lines))
    h = hy_obj(hsrc)
    p = py_obj(psrc, "F")
    detail = dict(hy=hsrc, python=psrc)
    if p[0] != "ok":
        raise AssertionError("reference body does not compile: " + psrc)
    if h[0] != "ok":
        detail["error"] = h
        return ("body-not-compiled:" + h[0], detail)
    hd, ho = run_body_fn(h[1], is_async, has_yield)
    pd, po = run_body_fn(p[1], is_async, has_yield)
    detail.update(hy_doc=hd, python_doc=pd, hy_outcome=ho, python_outcome=po)
    if ho != po:
        return ("implicit-return-differs:%s%s%s" % ("async-" if is_async else "", "generator" if has_yield else "function", ":" + via), detail)
    lam = via == "fn" and len(body) == 1 and not is_async and not has_yield
    if hd != pd and not (lam and hd is None and pd is None):
        return ("docstring-differs:first-form-" + body[0][0] + (":single" if len(body) == 1 else ":more"), detail)
    return None


def check_case(case):
    if case.get("kind") == "body":
        return check_body(case)
    return check_binding(case)


# ---------------------------------------------------------------- generation
def strategies():
    from hypothesis import strategies as st

    @st.composite
    def sig(draw):
        n = draw(st.integers(0, 6))
        names = list(NAMES[:n])
        cut = sorted(draw(st.lists(st.integers(0, n), min_size=2, max_size=2)))
        po, ar, ko = names[: cut[0]], names[cut[0] : cut[1]], names[cut[1] :]
        if draw(st.integers(0, 2)) == 0:
            ar, po = po + ar, []
        # defaults: a suffix of posonly+args (legal), any subset of kwonly
        pa = po + ar
        nd = draw(st.integers(0, len(pa)))
        defaults = {x: 100 + i for i, x in enumerate(pa) if i >= len(pa) - nd}
        for i, x in enumerate(ko):
            if draw(st.booleans()):
                defaults[x] = 200 + i
        rest = draw(st.sampled_from([None, None, "rest", "rest"])) if not ko else draw(st.sampled_from(["*", "*", "rest"]))
        kwargs = draw(st.sampled_from([None, "kw"]))
        s = dict(
            posonly=[[x, defaults.get(x)] for x in po],
            slash=bool(po),
            args=[[x, defaults.get(x)] for x in ar],
            rest=rest,
            kwonly=[[x, defaults.get(x)] for x in ko],
            kwargs=kwargs,
        )
        # illegal / edge mutations
        m = draw(st.integers(0, 35))
        allp = s["posonly"] + s["args"]
        if m == 11 and len(allp) >= 2:  # non-default after default
            i = draw(st.integers(0, len(allp) - 2))
            allp[i][1] = 9
        elif m == 14:
            s["slash"] = True  # '/' possibly with nothing before it
        elif m == 17:
            s["rest"] = "*"  # bare * possibly with nothing after it
        elif m == 20 and n >= 2:  # duplicate name
            everything = s["posonly"] + s["args"] + s["kwonly"]
            i = draw(st.integers(1, len(everything) - 1))
            everything[i][0] = everything[0][0]
        elif m == 23 and s["rest"] not in (None, "*") and n:
            s["rest"] = names[0]  # *args named like a parameter
        elif m == 26 and s["kwargs"] and n:
            s["kwargs"] = names[-1]
        return s

    def fitting_call(draw, s):
        """a call that binds every parameter legally, before mutation"""
        from hypothesis import strategies as st

        call = []
        val = iter(range(1, 50))
        kw_only_mode = False
        pos_items, kw_items = [], []
        for x, d in s["posonly"]:
            if d is not None and draw(st.integers(0, 2)) == 0:
                kw_only_mode = True  # stop passing positionals
                continue
            if kw_only_mode:
                continue
            pos_items.append(next(val))
        for x, d in s["args"]:
            if d is not None and draw(st.integers(0, 2)) == 0:
                kw_only_mode = True
                continue
            if kw_only_mode or draw(st.integers(0, 2)) == 0:
                kw_only_mode = True
                kw_items.append((x, next(val)))
            else:
                pos_items.append(next(val))
        if s["rest"] not in (None, "*") and not kw_only_mode and draw(st.booleans()):
            pos_items += [next(val) for _ in range(draw(st.integers(1, 2)))]
        for x, d in s["kwonly"]:
            if d is not None and draw(st.booleans()):
                continue
            kw_items.append((x, next(val)))
        if s["kwargs"] and draw(st.booleans()):
            kw_items.append(("z" + str(len(kw_items)), next(val)))
        # group positionals into plain / #* chunks
        i = 0
        pos_args = []
        while i < len(pos_items):
            if draw(st.integers(0, 3)) == 0:
                k = draw(st.integers(0, len(pos_items) - i))
                pos_args.append(["s", pos_items[i : i + k]])
                i += k
            else:
                pos_args.append(["p", pos_items[i]])
                i += 1
        kw_args = []
        i = 0
        while i < len(kw_items):
            if draw(st.integers(0, 3)) == 0:
                k = draw(st.integers(0, len(kw_items) - i))
                kw_args.append(["d", dict(kw_items[i : i + k])])
                i += k
            else:
                kw_args.append(["k", kw_items[i][0], kw_items[i][1]])
                i += 1
        # mingle: insert each keyword item at a random position among the positionals (relative orders kept)
        call = list(pos_args)
        at = sorted(draw(st.integers(0, len(call))) for _ in kw_args)
        for off, (pos, item) in enumerate(zip(at, kw_args)):
            call.insert(pos + off, item)
        return call

    @st.composite
    def binding(draw):
        s = draw(sig())
        calls = []
        allnames = [p[0] for p in s["posonly"] + s["args"] + s["kwonly"]]
        for _ in range(draw(st.integers(1, 8))):
            c = fitting_call(draw, s)
            m = draw(st.integers(0, 9))
            if m == 0 and c:
                del c[draw(st.integers(0, len(c) - 1))]
            elif m == 1:
                c.insert(draw(st.integers(0, len(c))), ["p", 77])
            elif m == 2 and allnames:
                c.insert(draw(st.integers(0, len(c))), ["k", draw(st.sampled_from(allnames)), 88])
            elif m == 3:
                c.insert(draw(st.integers(0, len(c))), ["k", "nope", 66])
            elif m == 4 and allnames:
                c.insert(draw(st.integers(0, len(c))), ["d", {draw(st.sampled_from(allnames)): 55}])
            elif m == 5:
                c.insert(draw(st.integers(0, len(c))), ["s", [draw(st.integers(40, 49)) for _ in range(draw(st.integers(0, 2)))]])
            elif m == 6 and len(c) >= 2:
                i = draw(st.integers(0, len(c) - 2))
                c[i], c[i + 1] = c[i + 1], c[i]
            calls.append(c[:7])
        via = draw(st.sampled_from(["defn", "defn", "fn", "fn", "fn-def", "defn-async", "defn-let", "fn-let"]))
        return dict(kind="binding", sig=s, via=via, calls=calls)

    text = st.sampled_from(["doc", "a b", "", "x", "two words"])
    form = st.one_of(
        st.tuples(st.sampled_from(["str", "str", "rstr", "bstr", "bstr2", "fstr", "ffield", "bytes", "cat"]), text).map(list),
        st.tuples(st.just("int"), st.integers(0, 9)).map(list),
        st.tuples(st.sampled_from(["yield", "yield", "yieldfrom", "lamgen", "lamgen", "lamgenfrom"]), st.integers(0, 9)).map(list),
        st.just(["var"]),
        st.just(["none"]),
    )
    body = st.builds(
        lambda b, via, a: dict(kind="body", body=b, via=via, **{"async": a}),
        st.lists(form, min_size=1, max_size=4),
        st.sampled_from(["defn", "fn"]),
        st.booleans(),
    )
    return binding(), body


def sig_kinds(s):
    k = set()
    for name, grp in (("posonly", s["posonly"]), ("plain", s["args"]), ("kwonly", s["kwonly"])):
        for p in grp:
            k.add(name + ("-default" if p[1] is not None else ""))
    if s["rest"] == "*":
        k.add("bare-star")
    elif s["rest"]:
        k.add("varargs")
    if s["kwargs"]:
        k.add("kwargs")
    return k


def shard(ctx):
    binding, body = strategies()

    def one_binding(case):
        r = check_case(case)
        sk = sig_kinds(case["sig"])
        ck = set()
        mingled = False
        for c in case["calls"]:
            ck |= {a[0] for a in c}
            seen_kw = False
            for a in c:
                if a[0] in "kd":
                    seen_kw = True
                elif seen_kw:
                    mingled = True
        cls = ["sig:" + x for x in sorted(sk)] + ["call:" + {"p": "positional", "k": "keyword", "s": "unpack-iterable", "d": "unpack-mapping"}[x] for x in sorted(ck)]
        cls.append("via:" + case["via"])
        if mingled:
            cls.append("call:keyword-before-positional")
        hs = hy_sig(case["sig"])
        cls.append("definition:" + hy_obj(hy_def(case["sig"], case["via"]))[0].split(":")[0])
        oks = 0
        h = hy_obj(hy_def(case["sig"], case["via"]))
        if h[0] == "ok" and r is None:
            f = drive_coro_fn(h[1]) if case["via"] == "defn-async" else h[1]
            for c in case["calls"]:
                hc = hy_obj("(fn [F] %s)" % hy_call(c))
                o = "SyntaxError" if hc[0] != "ok" else call_outcome(hc[1], f).split(":")[0]
                cls.append("outcome:" + o)
        ctx.case(key=(hs, case["via"], tuple(hy_call(c) for c in case["calls"])), nontrivial=len(sk) >= 2 and len(ck) >= 2, cls=cls,
                 sample="%s  %s" % (hy_def(case["sig"], case["via"]).replace("\n", " "), " ".join(hy_call(c) for c in case["calls"][:3])))
        if r is not None:
            ctx.fail(case, r[0], r[1])

    def one_body(case):
        r = check_case(case)
        b = case["body"]
        cls = ["body:first-" + b[0][0], "body:len-%d" % len(b), "body:" + ("async-" if case["async"] else "") + ("generator" if any(f[0] in ("yield", "yieldfrom") for f in b) else "function"), "via:" + case["via"]]
        if any(f[0].startswith("lamgen") for f in b):
            cls.append("body:nested-generator-lambda")
        ctx.case(key=("body", case["via"], case["async"], tuple(map(tuple, b))), nontrivial=len(b) >= 2, cls=cls, sample=" ".join(hy_form(f) for f in b))
        if r is not None:
            ctx.fail(case, r[0], r[1])

    from hypothesis import strategies as st

    both = st.one_of(binding, binding, body)
    ctx.hyp(both, lambda c: one_body(c) if c["kind"] == "body" else one_binding(c), ctx.per_shard(9000, 600000), "cases")


MATCHERS = {}
