"""C10 Compilation yields a valid Python AST or a user-facing Hy error."""
import builtins
import json
import os

from vf import c10_gen as G
from vf import c10_trees as T

PROP = "C10"
RULE = (
    "model trees as JSON (expr/list/dict/tuple/set/fstr over symbols, keywords, numbers, strings, bytes), nesting depth 0-6 (mostly 2-5), 1..3 top-level forms. "
    "70% of the cases feature one core macro head, drawn uniformly from builtins._hy_macros read at run time (so every head, including "
    "ones this module has no template for, is exercised equally), in a context where it can be legal (break in a loop, return/yield in a "
    "function, except inside try, unquote inside quasiquote, ...) and wrapped half of the time in an expression position (setv value, call "
    "argument, if test, f-string field, with manager ...); 30% are free random trees. Arguments come from per-head templates of the "
    "documented shape (lambda lists, loop clauses, match patterns, import/require entries, type parameters, try clauses, f-strings, "
    "unpacking, annotations, dotted names, constants' names as identifiers); then 0-3 random mutations (drop/duplicate/swap/insert/truncate "
    "an argument, another atom or wrapper type in a slot, (unpack-mapping) with 0 or 2 arguments, change of bracket kind, None/True/__debug__/"
    "_/* as a name) make 60% of the trees sloppy. Heads that evaluate code while compiling (eval-and-compile, eval-when-compile, do-mac, "
    "defmacro, defreader, require, pragma) and bodies of macros defined in the case only get side-effect-free terminating code and are never "
    "mutated; trees such code quotes or returns are themselves generated trees. 35% of the cases are rendered to text and compiled from "
    "hy.read_many's lazy stream (models with positions, source and filename), the rest are compiled from bare models. Oracle: hy_compile on a "
    "fresh module, then compile(ast, 'exec'), then marshal.dumps/loads; allowed: all succeed, or hy_compile raises a HyLanguageError subclass "
    "or SyntaxError, or compile() raises SyntaxError; anything else (HyCompileError and other HyInternalError, any other exception type from "
    "Hy, ValueError/TypeError/SystemError/RecursionError from compile(), a marshal failure, no outcome within 20 s of CPU time) is a failure, bucketed by "
    "(stage, exception type, innermost hy frame, normalised message). When the error is a HyMacroExpansionError/HyEvalError that merely wraps an "
    "internal exception, the case passes (only counted), but every subtree is then compiled on its own as a further case. "
    "Non-trivial = depth >= 2 and at least one core macro head; distinct by the JSON of the tree and the route (models/text)"
)
ASSUMPTIONS = [
    "trees are restricted to what Hy's reader can produce (checked constructors; in text mode the rendered text must read back as the same tree)",
    "compile-time evaluated code is drawn from a terminating, side-effect-free whitelist, so divergence or I/O at compile time is not explored",
    "a SyntaxError raised by CPython's compile() on Hy's AST counts as the user-facing error the property allows",
    "HyMacroExpansionError / HyEvalError wrapping an internal exception is accepted by the property's letter (it is a HyLanguageError); such outcomes are only counted (classes wrapped:*)",
    "CPython 3.12's compile() and marshal are the reference for AST validity",
]
BUDGET_QUICK = 600
BUDGET_THOROUGH = 1500


def heads():
    import hy

    return sorted(hy.unmangle(k) for k in getattr(builtins, "_hy_macros", {}))


def check_case(case):
    """None when the case satisfies the property (or denotes nothing a user can write), else (bucket, detail)."""
    try:
        o = T.observe(case)
    except T.Invalid:
        return None
    if o["status"] == "violation":
        d = dict(o["detail"])
        try:
            d["hy"] = "  ".join(T.to_text(f) for f in case["forms"])[:500]
        except Exception:
            pass
        d["expected"] = "success of hy_compile, compile() and marshal, or a HyLanguageError subclass / SyntaxError"
        return (o["bucket"], d)
    return None


def subtrees(forms):
    "proper sub-expressions (sequence nodes) of the forms, outermost first; never the inside of a compile-time zone"
    out = []

    def walk(n, top):
        if not isinstance(n, list) or len(n) < 2:
            return
        if n[0] in T.SEQ:
            if not top and n[1]:
                out.append(n)
            if G.is_zone(n):
                return
            for c in n[1]:
                walk(c, False)
        elif n[0] == "fstr":
            for p in n[1]:
                if p[0] == "fcomp":
                    walk(p[1][0], False)

    for f in forms:
        walk(f, len(forms) == 1)
    return out


def shard(ctx):
    from hypothesis import strategies as st

    hs = heads()
    if len(hs) < 50:
        raise RuntimeError("builtins._hy_macros has only %d entries: hy's core macros did not load" % len(hs))
    health = {}

    def run(case, cls, mutations, root):
        try:
            o = T.observe(case)
        except T.Invalid as e:
            if case.get("via") == "text":  # my renderer cannot express this tree as text: compile the models instead
                ctx.count("text-route-unavailable")
                case = dict(case, via="models")
                o = T.observe(case)  # Invalid here is a generator bug: let it surface as a harness error
            else:
                raise
        depth, hset, size = G.tree_stats(case["forms"])
        core = sorted(h for h in hset if h in hs_set)
        text = "  ".join(T.to_text(f) for f in case["forms"])
        status = o["status"]
        out = "ok" if status == "ok" else "violation" if status == "violation" else ("rejected-by-" + o["kind"])
        cls = list(cls) + ["outcome:" + out, "via:" + case["via"], "mutations:%d" % mutations, "depth:%d" % min(depth, 6)]
        if status == "rejected":
            cls.append("rejected:%s:%s" % (o["kind"], o["exc"]))
            if o.get("wrapped"):
                cls.append("wrapped:%s" % o["wrapped"])
                if o["wrapped"] == "HyCompileError" and len(ctx.notes) < 3:
                    ctx.notes.append("internal compiler error reported wrapped in %s (accepted by the letter of the property): %s" % (o["exc"], text[:300]))
        if T.case_noise[0]:
            cls.append("diagnostic:clobbered-expr-printed")
        if root is not None:
            cls.append("head:%s:%s" % (root, out))
            h = health.setdefault(root, [0, 0, 0])
            h[0 if status == "ok" else 1 if status == "rejected" else 2] += 1
        ctx.case(key=(json.dumps(case["forms"]), case["via"]), nontrivial=depth >= 2 and bool(core), cls=cls, sample=text[:300] + "   => " + (out if status != "rejected" else o["exc"] + ": " + o["msg"]))
        if status == "violation":
            d = dict(o["detail"], hy=text[:500])
            ctx.fail(case, o["bucket"], d)
        return o

    hs_set = set(hs)

    def one(rnd):
        g = G.Gen(rnd, hs)
        i = rnd.randrange(10 * len(hs))
        root = hs[i // 10] if i % 10 < 7 else None
        case, k = g.case(root, depth=2 + (i * 7 + 3) % 20 // 8 + (1 if i % 5 == 0 else 0))  # form depth 2-5 (tree depth up to 6), mostly 3-4
        o = run(case, ["kind:featured-head" if root else "kind:free-tree"], k, root)
        if o["status"] == "rejected" and o.get("wrapped") and o["wrapped"] != "ValueError":
            # the error only wraps an internal exception of a macro further in: every subtree is a model tree
            # of the domain too, so compile each on its own, where nothing wraps what goes wrong
            for sub in subtrees(case["forms"])[:12]:
                run(dict(forms=[sub], via="models"), ["kind:subtree-of-wrapped-error"], 0, None)

    # the Random object is seeded by a Hypothesis draw, so the run is a function of VERIF_SEED
    total = int(os.environ.get("VF_C10_TOTAL", "0"))  # smaller runs while developing / for mutation trials on a busy machine
    n = max(1, total // ctx.n) if total else ctx.per_shard(16000, 400000)
    ctx.hyp(st.randoms(use_true_random=True), one, n, "trees")
    # generator health: a featured head that is never accepted or never rejected means a mis-tuned template
    if not ctx.timed_out:
        for h, (ok, rej, viol) in sorted(health.items()):
            if ok + rej + viol >= 12 and (ok == 0 or rej + viol == 0):
                ctx.notes.append("shard %d: head %s: accepted %d, rejected %d, violation %d" % (ctx.k, h, ok, rej, viol))


# ------------------------------------------------------------------ shrinking
def _paths(node, path, zone, out):
    """(path, kind) for every node: kind 'free' may be edited freely, 'zone' is an expression that evaluates its
    arguments at compile time (only whole arguments may be deleted), nodes strictly inside a zone are not listed
    unless they sit under a (quote X) there."""
    if not isinstance(node, list) or len(node) < 2:
        return
    if node[0] in T.SEQ:
        if zone:
            quoted = node[0] == "expr" and len(node[1]) == 2 and node[1][0] == ["sym", "quote"]
            if quoted:
                _paths(node[1][1], path + (1, 1), False, out)
            else:
                for i, c in enumerate(node[1]):
                    _paths(c, path + (1, i), True, out)
            return
        if G.is_zone(node):
            out.append((path, "zone"))
            for i, c in enumerate(node[1]):
                _paths(c, path + (1, i), True, out)
            return
        out.append((path, "free"))
        for i, c in enumerate(node[1]):
            _paths(c, path + (1, i), False, out)
    elif node[0] == "fstr" and not zone:
        out.append((path, "fstr"))
        for i, p in enumerate(node[1]):
            if isinstance(p, list) and p and p[0] == "fcomp":
                out.append((path + (1, i), "fcomp"))
                _paths(p[1][0], path + (1, i, 1, 0), False, out)
    elif not zone:
        out.append((path, "atom"))


def _get(x, path):
    for p in path:
        x = x[p]
    return x


def _set(x, path, v):
    import copy

    if not path:
        return v
    x = copy.deepcopy(x)
    t = x
    for p in path[:-1]:
        t = t[p]
    t[path[-1]] = v
    return x


def _candidates(forms, path, kind):
    node = _get(forms, path)
    if kind == "zone":
        items = node[1]
        for i in range(1, len(items)):
            yield _set(forms, path + (1,), items[:i] + items[i + 1:])
        return
    if kind == "free":
        items = node[1]
        for c in items:  # hoist a child
            if isinstance(c, list) and c and c[0] in T.SEQ + ("fstr",):
                yield _set(forms, path, c)
        if len(items) > 3:
            yield _set(forms, path + (1,), items[: len(items) // 2])
        for i in range(len(items)):
            yield _set(forms, path + (1,), items[:i] + items[i + 1:])
        for i, c in enumerate(items):  # simplify a child to a plain symbol
            if isinstance(c, list) and c and c[0] != "sym":
                yield _set(forms, path + (1, i), ["sym", "x"])
        return
    if kind == "fstr":
        parts = node[1]
        for i in range(len(parts)):
            yield _set(forms, path + (1,), parts[:i] + parts[i + 1:])
        for p in parts:
            if p[0] == "fcomp":
                yield _set(forms, path, p[1][0])
        return
    if kind == "fcomp":
        items = node[1]
        if len(items) > 1:
            yield _set(forms, path + (1,), items[:1])
        if len(node) > 2 and node[2] is not None:
            yield _set(forms, path + (2,), None)
        return
    if kind == "atom":
        if node[0] == "sym" and node[1] not in ("x", "a"):
            yield _set(forms, path, ["sym", "x"])
        elif node[0] in ("str", "bytes") and node[1]:
            yield _set(forms, path, [node[0], ""])
        elif node[0] == "int" and node[1] not in (0, 1):
            yield _set(forms, path, ["int", 1])
        elif node[0] in ("float", "complex", "kw"):
            yield _set(forms, path, ["int", 1])


def shrink(case, same, budget):
    """Greedy reduction that respects the compile-time zones: code that Hy evaluates while compiling is only ever
    removed as a whole argument, never rearranged, so a shrunk case cannot start to diverge or misbehave."""
    best = dict(case)
    calls = 0
    if best.get("via") == "text" and calls < budget:
        cand = dict(best, via="models")
        calls += 1
        if same(cand):
            best = cand
    improved = True
    while improved and calls < budget:
        improved = False
        forms = best["forms"]
        if len(forms) > 1:
            for i in range(len(forms)):
                cand = dict(best, forms=forms[:i] + forms[i + 1:])
                calls += 1
                if same(cand):
                    best, improved = cand, True
                    break
            if improved:
                continue
        paths = []
        for i, f in enumerate(forms):
            _paths(f, (i,), False, paths)
        paths.sort(key=lambda pk: len(pk[0]))
        size = len(json.dumps(forms))
        for path, kind in paths:
            for cand_forms in _candidates(forms, path, kind):
                if calls >= budget:
                    break
                if len(json.dumps(cand_forms)) >= size:
                    continue
                cand = dict(best, forms=cand_forms)
                calls += 1
                try:
                    ok = same(cand)
                except Exception:
                    ok = False
                if ok:
                    best, improved = cand, True
                    break
            if improved or calls >= budget:
                break
    return best


MATCHERS = {}
