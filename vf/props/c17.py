"""C17 Runtime tracebacks point at the line of the failing form."""
import copy
import json
import traceback

from vf import progs as P
from vf import proggen as G

PROP = "C17"
RULE = (
    "Engine-A programs printed with every subform on its own line; exactly one evaluated leaf is replaced by a raising form: "
    "(BOOM) itself, (wrap (BOOM)) where wrap is a user macro passing its argument through, or (mboom), a macro whose template "
    "contains the raising call, or (mshared), a macro that splices one Symbol object (built once at compile time, naming an "
    "undefined variable) into every expansion - placed at one position, and at pairs of positions of which the reference says exactly "
    "one is evaluated (the shared atom must carry each expansion site's own line); one variant per leaf position (all positions of "
    "each program are tried). The reference interpreter "
    "tells whether control reaches the form and whether the exception escapes; then the innermost traceback frame belonging to the "
    "program's file must report the line of the raising form (a single-line form, so its span is one line; for the template case "
    "the line of the macro call). Covers forms nested in statement-lifted constructs, function bodies, lambdas, both comprehension "
    "strategies, try/with/loops, at module level and inside a function. Also enumerated: (op= x a b) for every augmented "
    "operator, where combining a and b raises (the synthesized aggregation form), after 0/1/4 lines, plain / in when / in defn / in let, "
    "on one line or three: the reported line must lie within the form. Likewise enumerated: destructuring targets (let, setv, for, "
    "lfor, with; list, tuple, starred; first or later binding) whose value evaluates but cannot be unpacked (too short, too long, not iterable). "
    "Variants passthru-op / passthru-get: the raising form is a core operator / subscript form spanning two lines, handed as the last argument to a macro that returns "
    "that argument unchanged, the macro call starting one or two lines earlier (the reported line must lie in the raising form's own two lines). "
    "Variant py-twice: the raising form is inline Python (py \"BOOM()\") placed at two positions of which exactly one is evaluated. Non-trivial = the raising form is nested >= 2 levels below a "
    "statement-producing construct or inside a function/comprehension; distinct by (source)"
)
ASSUMPTIONS = ["reference interpreter decides reachability; only cases where it says the BOOM exception escapes are judged"]
PRELUDE = ("(defmacro wrap [x] `(do 1 ~x))\n(defmacro mboom [] '(BOOM))\n"
           # a macro whose expansion is one of its argument forms, returned as it is (the raising form is a core operator form that
           # starts on a later line than the macro call)
           "(defmacro passthru [#* args] (get args -1))\n"
           # one Symbol object, built once, spliced into every expansion of mshared: the raising form is that shared atom
           "(eval-and-compile (setv _SHARED (hy.models.Symbol \"UNDEFINED_SHARED_NAME\")))\n(defmacro mshared [] `(do 1 ~_SHARED))\n")
NAME = "vfprog17"


def leaf_paths(x, path=()):
    """paths of evaluated leaves (lit / var / eff nodes)"""
    if isinstance(x, list):
        if x and isinstance(x[0], str):
            k = x[0]
            if k in ("lit", "var", "eff"):
                yield path
                return
            if k in ("raise", "break", "continue", "boom"):
                return
            if k == "with":
                yield from leaf_paths(x[2], path + (2,))
                return
            if k == "try":
                yield from leaf_paths(x[1], path + (1,))
                for i, h in enumerate(x[2]):
                    yield from leaf_paths(h[2], path + (2, i, 2))
                for j in (3, 4):
                    if x[j] is not None:
                        yield from leaf_paths(x[j], path + (j,))
                return
            if k in ("setv", "let"):
                for i, pair in enumerate(x[1]):
                    yield from leaf_paths(pair[1], path + (1, i, 1))
                if k == "let":
                    yield from leaf_paths(x[2], path + (2,))
                return
            if k == "fn":
                yield from leaf_paths(x[2], path + (2,))
                return
            if k == "setx":
                yield from leaf_paths(x[2], path + (2,))
                return
            if k in ("for", "lfor"):
                for j in range(2, len(x)):
                    if x[j] is not None:
                        yield from leaf_paths(x[j], path + (j,))
                return
            for i, y in enumerate(x[1:], 1):
                yield from leaf_paths(y, path + (i,))
        else:
            for i, y in enumerate(x):
                yield from leaf_paths(y, path + (i,))


def catches_exception(x):
    if isinstance(x, list):
        if x and x[0] == "try":
            if any((not h[1]) or "Exception" in h[1] for h in x[2]):
                return True
        if x and x[0] == "with":
            if any(len(m) > 3 and m[3] for m in x[1]):
                return True  # a suppressing manager swallows it too
        return any(catches_exception(y) for y in x)
    return False


def boom_paths(x, path=()):
    if isinstance(x, list):
        if x and x[0] == "boom":
            yield path
            return
        for i, y in enumerate(x):
            yield from boom_paths(y, path + (i,))


def put(prog, path, node):
    prog = copy.deepcopy(prog)
    t = prog
    for p in path[:-1]:
        t = t[p]
    t[path[-1]] = node
    return prog


def depth_info(prog, path):
    """(number of statement-producing ancestors, inside fn/lfor?)"""
    t = prog
    n = 0
    infn = False
    for p in path:
        if isinstance(t, list) and t and isinstance(t[0], str):
            if t[0] in ("do", "if", "when", "cond", "and", "or", "setv", "let", "while", "for", "try", "with"):
                n += 1
            if t[0] in ("fn", "lfor"):
                infn = True
        t = t[p]
    return n, infn


AUG = {"+=": ("s", '"s" 1'), "-=": ("s", '"s" 1'), "*=": ("s", '"s" "t"'), "/=": ("s", '"s" "t"'), "//=": ("s", '"s" "t"'), "**=": ("2", '"s" 2'),
       "<<=": ("1", '"s" 1'), ">>=": ("1", '"s" 1'), "|=": ("1", '"s" 1'), "&=": ("1", '"s" 1'), "@=": ("1", '"s" 1')}


def check_aug(case):
    """(op= x a b) where combining a and b (the synthesized aggregation) raises TypeError: the innermost frame of the program's
    file must name a line of the (op= ...) form"""
    import types

    import hy
    import hy.compiler

    op, pad, wrap, layout = case["op"], int(case["pad"]), case["wrap"], case["layout"]
    if op not in AUG or not 0 <= pad <= 8 or wrap not in ("none", "when", "defn", "let") or layout not in ("one-line", "multi-line"):
        return None
    a, b = AUG[op][1].split(" ")
    form = "(%s x %s %s)" % (op, a, b) if layout == "one-line" else "(%s x\n    %s\n    %s)" % (op, a, b)
    lines = ["(setv pad%d %d)" % (i, i) for i in range(pad)] + ["(setv x 1)"]
    if wrap == "when":
        body = "(when True\n  %s)" % form
    elif wrap == "defn":
        body = "(defn f []\n  (global x)\n  %s)\n(f)" % form
    elif wrap == "let":
        body = "(let [q 1]\n  %s)" % form
    else:
        body = form
    src = "\n".join(lines) + "\n" + body + "\n"
    start = 1 + src[: src.index("(" + op)].count("\n")
    end = start + form.count("\n")
    mod = types.ModuleType("vfprog17a")
    tree = hy.compiler.hy_compile(hy.read_many(src), mod, filename="<vfprog17a>", source=src)
    try:
        exec(compile(tree, "<vfprog17a>", "exec"), mod.__dict__)
    except TypeError as e:
        frames = [f for f in traceback.extract_tb(e.__traceback__) if f.filename == "<vfprog17a>"]
        if not frames:
            return ("no-frame-in-program-file", dict(source=src))
        got = frames[-1].lineno
        if not (start <= got <= end):
            return ("wrong-line:aggregation-of-augmented-assignment", dict(source=src, expected_lines=[start, end], reported_line=got))
        return None
    return ("augmented-assignment-did-not-raise", dict(source=src))


UNPACK_SITES = {
    "let-list": "(let [%s[a b] %s%s]%s a)", "let-tuple": "(let [%s#(a b) %s%s]%s a)", "let-star": "(let [%s[a b #* r] %s%s]%s a)",
    "let-second": "(let [q 1 %s[a b] %s%s]%s a)", "setv-list": "(setv %s[a b] %s%s%s)", "setv-star": "(setv %s#(a b #* r) %s%s%s)",
    "for": "(for [%s[a b] %s[%s]]%s a)", "lfor": "(lfor %s[a b] %s[%s]%s a)", "with-as": "(with [%s[a b] %s(CM %s)]%s a)",
}
UNPACK_VALUES = {"short": ("[1]", ValueError), "long": ("[1 2 3]", ValueError), "not-iterable": ("5", TypeError)}


def check_unpack(case):
    """a destructuring target (let / setv / for / lfor / with) whose value evaluates fine but cannot be unpacked: the innermost
    frame of the program's file must name a line of that form"""
    import types

    import hy
    import hy.compiler

    site, val, pad, wrap, layout = case["site"], case["value"], int(case["pad"]), case["wrap"], case["layout"]
    if site not in UNPACK_SITES or val not in UNPACK_VALUES or not 0 <= pad <= 8 or wrap not in ("none", "when", "defn", "let") or layout not in ("one-line", "multi-line"):
        return None
    vtext, etype = UNPACK_VALUES[val]
    if site.endswith("star") and val == "long":
        return None  # a starred target takes any longer value
    nl = "\n    " if layout == "multi-line" else ""
    form = UNPACK_SITES[site] % (nl, nl, vtext, nl)
    lines = ["(setv pad%d %d)" % (i, i) for i in range(pad)]
    lines.append("(defclass CM [] (defn __init__ [self v] (setv self.v v)) (defn __enter__ [self] self.v) (defn __exit__ [self #* a] False))")
    if wrap == "when":
        body = "(when True\n  %s)" % form
    elif wrap == "defn":
        body = "(defn f []\n  %s)\n(f)" % form
    elif wrap == "let":
        body = "(let [q2 1]\n  %s)" % form
    else:
        body = form
    src = "\n".join(lines) + "\n" + body + "\n"
    at = src.index(form)
    start = 1 + src[:at].count("\n")
    end = start + form.count("\n")
    mod = types.ModuleType("vfprog17u")
    tree = hy.compiler.hy_compile(hy.read_many(src), mod, filename="<vfprog17u>", source=src)
    try:
        exec(compile(tree, "<vfprog17u>", "exec"), mod.__dict__)
    except etype as e:
        frames = [f for f in traceback.extract_tb(e.__traceback__) if f.filename == "<vfprog17u>"]
        if not frames:
            return ("no-frame-in-program-file", dict(source=src))
        got = frames[-1].lineno
        if not (start <= got <= end):
            return ("wrong-line:destructuring-target:" + site.split("-")[0], dict(source=src, expected_lines=[start, end], reported_line=got))
        return None
    return ("destructuring-did-not-raise", dict(source=src))


def check_case(case):
    if case.get("kind") == "aug":
        return check_aug(case)
    if case.get("kind") == "unpack":
        return check_unpack(case)
    prog = case["prog"]
    mode = case.get("mode", "module")
    if '"boom"' not in json.dumps(prog):
        return None
    try:
        ref = P.interpret(prog, mode)
    except Exception:
        return None
    if ref["exc"] != "XBOOM:0":
        return None
    try:
        c = P.Compiled(prog, mode, name=NAME, multiline=True, prelude=PRELUDE)
    except SyntaxError:
        return None
    text = {"plain": "(BOOM)", "macro-arg": "(wrap (BOOM))", "macro-template": "(mboom)", "shared-atom": "(mshared)", "py-twice": '(py "BOOM()")',
            "passthru-op": "(+ BOOMER\n1)", "passthru-get": "(get BOOMER\n1)"}
    variant = next(v for v in text if '["boom", "%s"]' % v in json.dumps(prog))
    idx = c.src.find(text[variant], len(PRELUDE))
    if idx < 0:
        return None
    idx2 = c.src.find(text[variant], idx + 1)
    if variant in ("shared-atom", "py-twice") and idx2 >= 0:
        # two expansion sites of the macro that splices the shared atom: exactly one of them is reached
        if c.src.find(text[variant], idx2 + 1) >= 0:
            return None
        sites = [pth for pth in boom_paths(prog)]
        if len(sites) != 2:
            return None
        alone = []
        for k in (0, 1):
            try:
                alone.append(P.interpret(put(prog, sites[1 - k], ["lit", 0]), mode)["exc"] == "XBOOM:0")
            except Exception:
                return None
        if alone == [False, True]:
            idx = idx2
        elif alone != [True, False]:
            return None
    elif idx2 >= 0:
        return None
    want = 1 + c.src[:idx].count("\n")
    try:
        out = c.run()
    except NameError as e:
        if variant != "shared-atom":
            raise
        out = dict(exception=e)
    exc = out.get("exception")
    if variant == "shared-atom":
        # the shared atom raises NameError, which (unlike the reference's exception) handlers for Exception and bare
        # handlers catch: programs with such handlers, or an exception raised while another was handled, are not judged
        if catches_exception(prog) or getattr(exc, "__context__", None) is not None:
            return None
        if not (isinstance(exc, NameError) and "UNDEFINED_SHARED_NAME" in str(exc)):
            return None  # caught by a handler of the program (Exception catches NameError, unlike the reference's exception)
    elif not isinstance(exc, P.XBOOM):
        return None  # a different (unordered-sibling) outcome; not judged here
    frames = [f for f in traceback.extract_tb(exc.__traceback__) if f.filename == "<%s>" % NAME]
    if not frames:
        return ("no-frame-in-program-file", dict(source=c.src, expected_line=want))
    got = frames[-1].lineno
    if variant.startswith("passthru") and want <= got <= want + 1:
        return None  # the raising form spans two lines
    if got != want:
        return ("wrong-line:" + variant, dict(source=c.src, expected_line=want, reported_line=got,
                                               reported_text=c.src.split("\n")[got - 1] if 0 < got <= c.src.count("\n") + 1 else None))
    return None


def shard(ctx):
    from hypothesis import strategies as st

    strat = st.tuples(G.program(budget=30 if ctx.quick else 50, depth=4), st.sampled_from(["module", "function"]),
                      st.sampled_from(["plain", "plain", "macro-arg", "macro-template", "shared-atom", "shared-atom", "py-twice", "passthru-op", "passthru-get"]))

    def one(t):
        prog, mode, variant = t
        seen = set()
        paths = list(leaf_paths(prog))
        if variant in ("shared-atom", "py-twice"):
            # pairs of sites: an earlier (in source order) expansion that is never evaluated, and a later one that raises -
            # and the other way round; single sites as well
            try:
                base = P.interpret(prog, mode)
            except Exception:
                return
            reach = {}
            for path in paths:
                try:
                    reach[path] = P.interpret(put(prog, path, ["boom", variant]), mode)["exc"] == "XBOOM:0"
                except Exception:
                    reach[path] = None
            live = [p_ for p_ in paths if reach[p_] is True]
            dead = [p_ for p_ in paths if reach[p_] is False]
            # the informative order is "never-evaluated site first": the first expansion is the one that would stamp its
            # line on a shared atom
            first = [(d, l) for l in live for d in dead if d < l]
            pairs = first[:: max(1, len(first) // 10)][:10] + [(d, l) for d in dead[:2] for l in live[:2] if d > l][:2]
            if variant == "py-twice":  # identical inline-Python text at two sites: here the later, unreached one matters as much
                last = [(d, l) for l in live for d in dead if d > l]
                pairs = last[:: max(1, len(last) // 6)][:6] + first[:: max(1, len(first) // 4)][:4]
            for d, l in pairs:
                if ctx.out_of_time():
                    return
                p2 = put(put(prog, d, ["boom", variant]), l, ["boom", variant])
                try:
                    if P.interpret(p2, mode)["exc"] != "XBOOM:0" or P.interpret(put(prog, d, ["boom", variant]), mode)["exc"] == "XBOOM:0":
                        continue
                except Exception:
                    continue
                src = P.wrap_source(p2, mode, True)
                ctx.case(key=src, nontrivial=True, cls=["variant:" + variant, "two-expansion-sites:" + ("unreached-one-first" if d < l else "unreached-one-last")], sample=src)
                r = check_case(dict(prog=p2, mode=mode))
                if r is not None and r[0] not in seen:
                    seen.add(r[0])
                    ctx.fail(dict(prog=p2, mode=mode), r[0], r[1])
        for path in paths:
            if ctx.out_of_time():
                return
            p2 = put(prog, path, ["boom", variant])
            try:
                ref = P.interpret(p2, mode)
            except Exception:
                continue
            if ref["exc"] != "XBOOM:0":
                ctx.count("skipped:form-not-reached-or-exception-caught")
                continue
            n, infn = depth_info(p2, path)
            src = P.wrap_source(p2, mode, True)
            ctx.case(key=src, nontrivial=n >= 2 or infn, cls=["variant:" + variant, "in-fn-or-comprehension" if infn else "stmt-ancestors:%d" % min(n, 4)], sample=src)
            r = check_case(dict(prog=p2, mode=mode))
            if r is not None and r[0] not in seen:
                seen.add(r[0])
                ctx.fail(dict(prog=p2, mode=mode), r[0], r[1])

    _unpack_leg(ctx)  # enumerated and cheap: before the sampled programs, which may use up the time budget
    ctx.hyp(strat, one, ctx.per_shard(110, 20000), "programs")

    # augmented assignment with several values: the failure happens in the synthesized aggregation (enumerated, striped over shards)
    i = 0
    for op in sorted(AUG):
        for pad in (0, 1, 4):
            for wrap in ("none", "when", "defn", "let"):
                for layout in ("one-line", "multi-line"):
                    i += 1
                    if i % ctx.n != ctx.k:
                        continue
                    case = dict(kind="aug", op=op, pad=pad, wrap=wrap, layout=layout)
                    ctx.case(key=json.dumps(case, sort_keys=True), nontrivial=pad > 0, cls=["variant:augmented-assignment-aggregation", "aug:" + wrap], sample="(%s x %s) after %d lines in %s" % (op, AUG[op][1], pad, wrap))
                    r = check_case(case)
                    if r is not None:
                        ctx.fail(case, r[0], r[1])


def _unpack_leg(ctx):
    i = 0
    for site in sorted(UNPACK_SITES):
        for val in sorted(UNPACK_VALUES):
            for pad in (0, 3):
                for wrap in ("none", "when", "defn", "let"):
                    for layout in ("one-line", "multi-line"):
                        i += 1
                        if i % ctx.n != ctx.k or (site.endswith("star") and val == "long"):
                            continue
                        case = dict(kind="unpack", site=site, value=val, pad=pad, wrap=wrap, layout=layout)
                        ctx.case(key=json.dumps(case, sort_keys=True), nontrivial=True, cls=["variant:destructuring-target", "unpack:" + site],
                                 sample="%s <- %s after %d lines in %s, %s" % (site, UNPACK_VALUES[val][0], pad, wrap, layout))
                        r = check_case(case)
                        if r is not None:
                            ctx.fail(case, r[0], r[1])


def shrink(case, same, budget):
    return case


MATCHERS = {}
