"""C04 Comprehension forms produce the reference nested-loop result."""
import itertools

from vf import c04_comp as C

PROP = "C04"
RULE = (
    "A case is a clause-list IR (JSON) of one lfor/sfor/dfor/gfor/for form: 0..5 clauses over {iteration (simple name, #(a b) / [a b], "
    "starred [a #* r] / [#* r a], nested #(k #(a b)) targets), :if, :setv (simple and destructuring), :do (effects, setx, setv, "
    "when+break/continue after an iteration clause)}; final value / #* X / dfor key+value / #** X / for body + else. Every subform "
    "is plain (literal, variable, operator, collection, (E id e), (if c a b), (setx q e)) or statement-producing ((do (E i k) e), "
    "(if c (do (E i) a) b), (do None e), (do (setv w e) w)); comprehensions may nest one level (inner names may shadow outer "
    "ones). Each case is rendered to Hy text and run as written and with one drawn subform e rewritten to (do (E 9000 None) e) (the "
    "metamorphic partner that forces Hy's generator-function strategy), at module level, inside a function and (no body "
    "assignment) inside a class body, with a drawn subset of the names pre-assigned to sentinels, free names as globals or "
    "function locals, and in a drawn scope additionally inside a let that binds one of the iteration/:setv/setx/free names. "
    "Oracle: my reference evaluator of api.rst's nested-loop semantics (never calls Hy): (a) result value with exact type "
    "(list/set/dict in insertion order/iterator), exact effect log [id value] (dfor key vs. value effects may interleave), (b) both "
    "strategies agree with the reference and with each other, (c) gfor: the log length after creation and after every next() equals "
    "the reference generator's (k=0: empty or the first clause's expression), (d) after the form every iteration/:setv name is "
    "absent or still the sentinel, setx/setv-in-body names hold the reference's last value, all for variables leak, the let binding "
    "is unchanged (or updated by setx / for), (e) for-else effects occur iff the outermost loop ended without break. Enumerated "
    "sweep: every clause-kind vector of length <= 3 (quick) / <= 4 (thorough) x every form kind, once with arbitrary subforms and, "
    "for lfor/sfor/dfor/gfor, once per expression slot with all subforms plain and exactly that slot forced (one salted Hypothesis "
    "example each); the rest is sampled with lengths 0..5. Non-trivial = >= 2 clauses and both the form as written and its "
    "forced-function partner executed (for `for`: >= 2 clauses); distinct by rendered text + configuration"
)
ASSUMPTIONS = [
    "reference evaluator vf/c04_comp.py:Ref (a transcription of docs/api.rst lfor/for/gfor/dfor/sfor) is the trusted base",
    "no clauses at all: empty result, nothing evaluated (tests/native_tests/comprehensions.hy test-fors-no-loopers); a false :if before any iteration clause ends the form",
    "evaluation order inside calls/collections/operators is unspecified: at most one effectful child is generated there; dfor key and value effects may interleave",
    "setx/setv inside a :setv value, an :if test, a :do form, the value form or a nested comprehension counts as 'inside the form' (api.rst: 'variables defined within the body, as with a setx expression, will be visible outside the form')",
    "not generated (undefined by the docs or forbidden by Python): break/continue/assignment in an iteration clause's iterable, break/continue outside :do / for body or before the first iteration clause, assignment to a name that is an iteration/:setv variable, reading a name before the same form binds it (also an outer form's variable of that name), re-binding a name with a value of another type, setx in a class-scope comprehension, reading class-level names inside a comprehension, for-else without an iteration clause",
    "gfor laziness at k=0: the first clause's expression may already have been evaluated when the iterator is created (Python evaluates a generator expression's first iterable eagerly)",
    "for-else effects are not compared when the outermost iteration clause was never reached (a false :if before it)",
]
BUDGET_QUICK = 900
BUDGET_THOROUGH = 3000

ITER_NAMES = ["x", "y", "z", "a", "b", "c", "d", "e", "f", "h", "i", "j", "k", "m", "n"]
STAR_NAMES = ["r", "s", "t", "u", "o", "l"]
SETX_NAMES = ["q", "p"]
SETV_NAMES = ["w", "v"]
FREE = {"L": "g0", "i": "g1", "LP": "g2", "LL": "g3", "D": "g4", "LD": "g5"}
CLAUSE_KINDS = ("iter", "if", "setv", "do")


# ----------------------------------------------------------------------------- checking one case
def _free_values(free):
    ref = C.Ref()
    fr = C.Frame("outer", None)
    return {n: ref.ev(v, fr) for n, v in free.items()}


def _else_ids(comp):
    f = comp["final"]
    if comp["kind"] != "for" or f[2] is None:
        return set()
    return {n[1] for x in f[2] for n in C.walk_expr(x) if n[0] == "E"}


def plan(case):
    """-> list of (scope, let|None) the case is run in"""
    comp = case["comp"]
    leaks = C.leak_names(comp)
    inner_leak = False
    if comp["kind"] != "for":
        inner_leak = bool(leaks)
    else:
        # a `for` in a class body makes its variables class-level names, which Python hides from nested scopes: a nested
        # comprehension must neither assign (setx) nor read them there
        own = set(leaks)
        for c in comp["clauses"]:
            if c[0] in ("iter", "setv"):
                own |= set(C.target_names(c[1]))
        for e in C.walk_comp(comp):
            if e[0] == "comp":
                if C.leak_names(e[1]) or any(n[0] == "var" and n[1] in own for n in C.walk_comp(e[1])):
                    inner_leak = True
    scopes = ["module", "function"] + ([] if inner_leak else ["class"])
    runs = [(s, None) for s in scopes]
    let = case.get("let")
    if let is not None and let["scope"] in scopes and not (let["scope"] == "class" and let["name"] in case["free"]):
        runs.append((let["scope"], let))
    return runs


def judge(ref, obs, comp, roles, let):
    """None or (what, expected, actual)"""
    kind = comp["kind"]
    if "stage" in obs:
        return (obs["stage"] + ":" + obs["error"].split(":")[0] + ("(%s)" % obs["cause"] if obs.get("cause") else ""), "runs, result " + ref["result"], obs["error"])
    if kind == "gfor" and not obs["is_iterator"]:
        return ("gfor-not-an-iterator", "an iterator", "not an iterator")
    if obs["result"] != ref["result"]:
        return ("value", ref["result"], obs["result"])
    rlog, olog = ref["log"], C.normalise(obs["log"], ref["log"], ref["par"])
    if not ref["else_defined"]:
        ids = _else_ids(comp)
        rlog = [e for e in rlog if e[0] not in ids]
        olog = [e for e in olog if e[0] not in ids]
    if rlog != olog:
        what = "effect-order" if sorted(map(str, rlog)) == sorted(map(str, olog)) else "effects"
        if what == "effects" and kind == "for" and comp["final"][2] is not None:
            ids = _else_ids(comp)
            if [e for e in rlog if e[0] not in ids] == [e for e in olog if e[0] not in ids]:
                what = "for-else"
        return (what, rlog, olog)
    if kind == "gfor":
        rm, om = ref["marks"], obs["marks"]
        ok0 = [0]
        if ref["first_span"] is not None and ref["first_span"][0] == 0:
            ok0.append(ref["first_span"][1])
        if om is None or len(om) != len(rm) or om[1:] != rm[1:] or om[0] not in ok0:
            return ("laziness", "log length after creation in %r, then after each next(): %r" % (ok0, rm[1:]), om)
    for n in sorted(roles):
        exp = ref["post"].get(n, C.ABSENT)
        if obs["post"][n] != exp:
            return ("leak:" + roles[n], "%s = %s" % (n, exp), "%s = %s" % (n, obs["post"][n]))
    if let is not None and obs["let_after"] != ref["let_after"]:
        return ("let-binding:" + roles.get(let["name"], "free-name"), "%s = %s" % (let["name"], ref["let_after"]), "%s = %s" % (let["name"], obs["let_after"]))
    return None


def run_case(case):
    """-> (failure | None, info).  failure = (bucket, detail)"""
    comp = case["comp"]
    kind = comp["kind"]
    free = case["free"]
    pre = [n for n in case["pre"]]
    roles = dict(C.leak_names(comp))
    roles.update(C.binder_roles(comp))
    names = sorted(roles)
    outer_vars = dict(_free_values(free))
    for n in pre:
        outer_vars[n] = C.sentinel(n)
    variants = [("as-written", comp)]
    sl = C.slots(comp)
    if case.get("wrap") is not None and sl and kind != "for":
        variants.append(("forced-function", C.wrap_at(comp, sl[case["wrap"] % len(sl)])))
    info = dict(strategies=set(), scopes=set(), runs=0, pairs=0, steps=None)
    failures = []
    for scope, let in plan(case):
        lv = None
        if let is not None:
            lv = (let["name"], _free_values({"v": let["value"]})["v"])
        seen = {}
        for vname, vcomp in variants:
            ref = C.reference(vcomp, outer_vars, lv)
            if vname == "as-written":
                info["steps"] = ref["marks"] and len(ref["marks"]) - 2
                info["nlog"] = len(ref["log"])
                info["result"] = ref["result"]
            src = C.build_source(vcomp, scope, free, pre, bool(case.get("free_local")), let)
            obs = C.run_real(src, scope, names)
            info["runs"] += 1
            info["scopes"].add(scope + ("+let" if let else ""))
            if kind == "for":
                strat = "statements"
            elif "genfn" in obs:
                strat = "function" if obs["genfn"] else "native"
            else:
                strat = "native" if C.native_eligible(vcomp) else "function"
            info["strategies"].add(strat)
            seen[vname] = (obs, strat)
            j = judge(ref, obs, vcomp, roles, let)
            if j is not None:
                what, exp, act = j
                # root-cause proxy: what went wrong + the compilation strategy; the form kind only where the result
                # container matters; the scope kind for leaks (module: global, function: nonlocal, class: neither)
                if "stage" in obs:
                    bucket = "%s:%s" % (what, strat)
                elif what.startswith(("leak", "let-binding")):
                    bucket = "%s:%s:%s" % (what, strat, scope)
                else:
                    bucket = "%s:%s:%s" % (what, kind, strat)
                failures.append((bucket, dict(source=src, scope=scope, variant=vname, strategy=strat, expected=exp, actual=act)))
        if len(seen) == 2:
            (o1, s1), (o2, s2) = seen["as-written"], seen["forced-function"]
            if "stage" not in o1 and "stage" not in o2:
                info["pairs"] += 1
                for field in ("result", "post", "let_after"):
                    if o1[field] != o2[field]:
                        failures.append(("strategies-disagree:%s:%s:%s-vs-%s" % (field, kind, s1, s2), dict(source=C.r_comp(comp), scope=scope, field=field, as_written=o1[field], forced_function=o2[field])))
                        break
                else:
                    if sorted(map(str, o1["log"])) != sorted(str(e) for e in o2["log"] if e[0] != C.WRAP_ID):
                        failures.append(("strategies-disagree:effects:%s:%s-vs-%s" % (kind, s1, s2), dict(source=C.r_comp(comp), scope=scope, as_written=o1["log"], forced_function=o2["log"])))
    return (failures[0] if failures else None), info


def check_case(case):
    try:
        C.validate(case)
        run = run_case(case)
    except C.Invalid:
        return None  # a shrunk candidate that is no longer a case the generator may produce
    return run[0]


# ----------------------------------------------------------------------------- generation
def strategies():
    from hypothesis import strategies as st

    class Gen:
        def __init__(self, draw, plain, leak_ok, salt=0, nest_ok=True):
            self.d = draw
            self.plain, self.leak_ok, self.nest_ok = plain, leak_ok, nest_ok
            self.eid = 0
            self.free = {}
            self.depth_comp = 0
            self.force_pure = 0
            self.salt, self.k = salt, 0

        def n(self, lo, hi):
            """a Hypothesis draw; with a salt (the enumerated sweep, which runs one example per combination) the drawn
            value is rotated by a fixed pseudo-random offset so that Hypothesis' all-minimal first example is not trivial"""
            v = self.d(st.integers(0, hi - lo))
            if self.salt:
                self.k += 1
                v = (v + (((self.salt + self.k) * 2654435761) >> 11)) % (hi - lo + 1)
            return lo + v

        def p(self, pct):
            return self.n(0, 99) < pct

        def pick(self, xs):
            return xs[self.n(0, len(xs) - 1)]

        def size(self, lo=0):
            return max(lo, self.pick([2, 1, 3, 2, 3, 1, 2, 0]))  # Hypothesis favours the first entries

        def new_id(self):
            self.eid += 1
            return self.eid

        # ---- literal values of a type (no names, no effects)
        def literal(self, T):
            if T == "i":
                return ["lit", self.n(0, 4)]
            if T in ("L", "IL"):
                return ["list", [["lit", self.n(0, 4)] for _ in range(self.size())]]
            if T == "L1":
                return ["list", [["lit", self.n(0, 4)] for _ in range(self.size(1))]]
            if T == "P":
                return ["tuple", [["lit", self.n(0, 4)], ["lit", self.n(0, 4)]]]
            if T in ("LP", "ILP"):
                return ["list", [self.literal("P") for _ in range(self.size())]]
            if T == "LL":
                return ["list", [self.literal("L1") for _ in range(self.size())]]
            if T == "D":
                keys = sorted({self.n(0, 4) for _ in range(self.n(0, 2))})
                return ["dict", [[["lit", k], ["lit", self.n(5, 9)]] for k in keys]]
            if T == "LD":
                return ["list", [self.literal("D") for _ in range(self.size())]]
            raise ValueError(T)

        # ---- names
        def vars_of(self, env, T):
            ok = {"i": ("i",), "L": ("L", "L1"), "L1": ("L1",), "IL": ("L", "L1"), "P": ("P",), "LP": ("LP",), "ILP": ("LP",), "LL": ("LL",), "D": ("D",), "LD": ("LD",)}.get(T, ())
            return [n for n, t in env.items() if t in ok]

        def freevar(self, T):
            base = {"IL": "L", "ILP": "LP"}.get(T, T)
            if base not in FREE:
                return None
            name = FREE[base]
            self.free.setdefault(name, base)
            return ["var", name]

        # ---- expressions
        def node(self, T, env, impure, depth, setx_ok):
            """an expression of type T whose root is not a wrapper; `impure` may be handed to at most one child of an
            unordered parent"""
            vs = self.vars_of(env, T)
            roll = self.n(0, 99)
            deep = depth >= 3
            if vs and roll < 45:
                return ["var", self.pick(vs)]
            if roll < 55:
                fv = self.freevar(T)
                if fv is not None:
                    return fv

            def kids(types):
                who = self.n(0, len(types) - 1) if impure and types else -1
                return [self.build(t, env, impure and i == who, depth + 1, setx_ok) for i, t in enumerate(types)]

            if T == "i":
                if deep or roll < 70:
                    return ["lit", self.n(0, 4)]
                if roll < 85:
                    return ["op", self.pick(["+", "-", "*"]), kids(["i", "i"])]
                if roll < 92:
                    return ["op", "%", [self.build("i", env, impure, depth + 1, setx_ok), ["lit", self.n(2, 3)]]]
                return ["call", "len", kids(["L"])]
            if T == "c":
                ints = self.vars_of(env, "i")
                if ints and roll < 80 or roll < 30:
                    lhs = ["var", self.pick(ints)] if ints and self.p(80) else self.build("i", env, impure, depth + 1, setx_ok)
                    if self.p(35):
                        return ["op", self.pick(["=", "!="]), [["op", "%", [lhs, ["lit", 2]]], ["lit", self.n(0, 1)]]]
                    return ["op", self.pick(["<", "<=", ">", ">=", "=", "!="]), [lhs, ["lit", self.n(0, 3)]]]
                if roll < 88:
                    return ["lit", self.p(70)]
                if roll < 94:
                    return ["op", "not", [self.build("c", env, impure, depth + 1, setx_ok)]]
                return self.build(self.pick(["i", "L"]), env, impure, depth + 1, setx_ok)
            if T in ("L", "L1", "IL"):
                if T == "IL" and roll < 65:
                    return ["call", "range", [["lit", self.size()]]]
                if not deep and T != "L1" and roll < 68 and self.nest_ok and self.depth_comp == 0:
                    return self.nested(env, "lfor", setx_ok, impure)
                if not deep and T != "L1" and roll < 72:
                    return ["call", self.pick(["list", "sorted"]), kids(["L"])]
                lo = 1 if T == "L1" else 0
                return ["list", kids(["i"] * self.size(lo))] if not deep else self.literal(T)
            if T == "P":
                return ["tuple", kids(["i", "i"])]
            if T in ("LP", "ILP"):
                if T == "ILP" and not deep:
                    if roll < 65:
                        return ["call", "enumerate", kids(["IL"])]
                    if roll < 72:
                        return ["call", "zip", kids(["IL", "IL"])]
                    if roll < 79:
                        return ["items", self.build("D", env, impure, depth + 1, setx_ok)]
                return ["list", kids(["P"] * self.size())] if not deep else self.literal("LP")
            if T == "LL":
                return ["list", kids(["L1"] * self.size())] if not deep else self.literal("LL")
            if T == "D":
                if not deep and roll < 62 and self.nest_ok and self.depth_comp == 0:
                    return self.nested(env, "dfor", setx_ok, impure)
                keys = sorted({self.n(0, 4) for _ in range(self.n(0, 2))})
                vals = kids(["i"] * len(keys)) if keys else []
                return ["dict", [[["lit", k], v] for k, v in zip(keys, vals)]]
            if T == "LD":
                return ["list", kids(["D"] * self.size())] if not deep else self.literal("LD")
            if T == "vars":
                names = [n for n in env]
                if not names:
                    return ["list", kids(["i"])]
                return ["list", [["var", self.pick(names)] for _ in range(self.n(1, 3))]]
            if T == "mix":
                return ["list", kids([self.pick(["i", "i", "L", "P"]) for _ in range(self.n(1, 3))])]
            raise ValueError(T)

        def build(self, T, env, impure=True, depth=0, setx_ok=True):
            impure = impure and not self.force_pure
            if impure and depth < 3:
                roll = self.n(0, 99)
                if roll < 20:
                    return ["E", self.new_id(), self.build(T, env, impure, depth + 1, setx_ok)]
                if not self.plain:
                    if roll < 29:
                        return ["do", [["E", self.new_id(), ["lit", self.n(0, 2)]], self.build(T, env, impure, depth + 1, setx_ok)]]
                    if roll < 35:
                        return ["if", self.build("c", env, False, depth + 1), ["do", [["E", self.new_id(), ["lit", None]], self.build(T, env, False, depth + 1)]], self.build(T, env, False, depth + 1)]
                    if roll < 38:
                        return ["do", [["lit", None], self.build(T, env, impure, depth + 1, setx_ok)]]
                    if roll < 42 and self.leak_ok and setx_ok:
                        w = self.pick(SETV_NAMES)
                        return ["do", [["setv", w, self.build(T, env, False, depth + 1)], ["var", w]]]
                if roll < 49 and self.leak_ok and setx_ok:
                    return ["setx", self.pick(SETX_NAMES), self.build(T, env, impure, depth + 1, setx_ok)]
                if roll < 54 and T != "c":
                    return ["if", self.build("c", env, False, depth + 1), self.build(T, env, impure, depth + 1, setx_ok), self.build(T, env, impure, depth + 1, setx_ok)]
            return self.node(T, env, impure, depth, setx_ok)

        # ---- targets
        def fresh(self, env, pool, taken, T, avoid=()):
            """a name for a new binding of type T; now and then an already bound name of the same type (re-binding a name
            with another type would change what earlier clauses read on the next turn of an enclosing loop).  avoid: outer
            names this form has already read - binding them now would make those reads refer to a not yet bound variable"""
            same = [n for n in pool if env.get(n) == T and n not in taken and n not in avoid]
            if same and self.p(12):
                return self.pick(same)
            unused = [n for n in pool if n not in env and n not in taken and n not in avoid]
            if unused:
                return self.pick(unused[:3])
            if same:
                return self.pick(same)
            k = 0
            while True:  # pool exhausted: numbered names
                name = "%s%d" % ("n" if pool is ITER_NAMES else "rr", k)
                if name not in env and name not in taken and name not in avoid:
                    return name
                k += 1

        def target(self, env, shape, avoid=()):
            """-> (target, {name: type})"""
            taken = []

            def nm(pool=ITER_NAMES):
                n = self.fresh(env, pool, taken, "i" if pool is ITER_NAMES else "L", avoid)
                taken.append(n)
                return n

            br = self.pick(["tuple", "list"])
            if shape == "pair":
                a, b = nm(), nm()
                return [br, [a, b]], {a: "i", b: "i"}
            if shape == "star":
                a, r = nm(), nm(STAR_NAMES)
                parts = [a, ["star", r]] if self.p(70) else [["star", r], a]
                return [br, parts], {a: "i", r: "L"}
            if shape == "nested-pair":
                k, a, b = nm(), nm(), nm()
                return [br, [k, [self.pick(["tuple", "list"]), [a, b]]]], {k: "i", a: "i", b: "i"}
            if shape == "nested-star":
                k, a, r = nm(), nm(), nm(STAR_NAMES)
                return [br, [k, ["list", [a, ["star", r]]]]], {k: "i", a: "i", r: "L"}
            raise ValueError(shape)

        # ---- statement lists (:do clauses, for bodies)
        def stmt(self, env, seen_iter, jump_ok=True, sx=True):
            roll = self.n(0, 99)
            if not sx and 30 <= roll < 58:
                roll = 90
            if roll < 30 and seen_iter and jump_ok:
                body = []
                if self.p(40):
                    body.append(["E", self.new_id(), ["lit", self.n(0, 2)]])
                body.append([self.pick(["break", "continue"])])
                return ["when", self.build("c", env, self.p(30), 1), body]
            if roll < 45 and self.leak_ok:
                return ["setx", self.pick(SETX_NAMES), self.build("i", env, True, 1)]
            if roll < 58 and self.leak_ok:
                return ["setv", self.pick(SETV_NAMES), self.build(self.pick(["i", "L"]), env, True, 1)]
            if roll < 66:
                return ["if", self.build("c", env, False, 1), ["E", self.new_id(), self.build("i", env, False, 2)], ["lit", None]]
            return ["E", self.new_id(), self.build(self.pick(["i", "i", "L", "P"]), env, False, 1)]

        # ---- a comprehension
        def comp(self, kind, vec, outer_env, sx=True, ints=False):
            """sx: setx/setv may be generated (not inside an iterable); ints: the elements (keys and values) must be ints"""
            env = dict(outer_env)
            clauses = []
            seen_iter = False
            own, reads = set(), set()

            def avoid():
                for c in clauses:
                    for x in ([c[2]] if c[0] in ("iter", "setv") else [c[1]] if c[0] == "if" else c[1]):
                        reads.update(C.free_reads(x))
                return reads - own

            for ck in vec:
                if ck == "iter":
                    shape = self.pick(["int"] * 6 + ["list", "list", "pairvar", "dictvar", "pair", "pair", "pair", "star", "star", "star", "star-pair", "nested-pair", "nested-star"])
                    if kind == "dfor" and self.p(15):
                        shape = "dictvar"
                    if shape == "int":
                        it, t, b = self.build("IL", env, True, 0, False), None, "i"
                    elif shape == "list":
                        it, t, b = self.build("LL", env, True, 0, False), None, "L1"
                    elif shape == "pairvar":
                        it, t, b = self.build("ILP", env, True, 0, False), None, "P"
                    elif shape == "dictvar":
                        it, t, b = self.build("LD", env, True, 0, False), None, "D"
                    elif shape == "pair":
                        it = self.build("ILP", env, True, 0, False)
                        t, b = self.target(env, "pair", avoid() | C.free_reads(it if ck == "iter" else v))
                    elif shape == "star":
                        it = self.build("LL", env, True, 0, False)
                        t, b = self.target(env, "star", avoid() | C.free_reads(it if ck == "iter" else v))
                    elif shape == "star-pair":
                        it = self.build("ILP", env, True, 0, False)
                        t, b = self.target(env, "star", avoid() | C.free_reads(it if ck == "iter" else v))
                    elif shape == "nested-pair":
                        it = ["call", "enumerate", [self.build("LP", env, True, 1, False)]]
                        t, b = self.target(env, "nested-pair", avoid() | C.free_reads(it))
                    else:
                        it = ["call", "enumerate", [self.build("LL", env, True, 1, False)]]
                        t, b = self.target(env, "nested-star", avoid() | C.free_reads(it))
                    if t is None:
                        t = self.fresh(env, ITER_NAMES, [], b, avoid() | C.free_reads(it))
                        b = {t: b}
                    clauses.append(["iter", t, it])
                    env.update(b)
                    own |= set(b)
                    seen_iter = True
                elif ck == "if":
                    clauses.append(["if", self.build("c", env, True, 0, sx)])
                elif ck == "setv":
                    roll = self.n(0, 99)
                    if roll < 65:
                        T = self.pick(["i", "i", "L", "P", "mix", "D"])
                        v = self.build(T, env, True, 0, sx)
                        t = self.fresh(env, ITER_NAMES, [], T, avoid() | C.free_reads(v))
                        b = {t: T}
                    elif roll < 82:
                        v = self.build("P", env, True, 0, sx)
                        t, b = self.target(env, "pair", avoid() | C.free_reads(it if ck == "iter" else v))
                    else:
                        v = self.build(self.pick(["L1", "P"]), env, True, 0, sx)
                        t, b = self.target(env, "star", avoid() | C.free_reads(it if ck == "iter" else v))
                    clauses.append(["setv", t, v])
                    env.update(b)
                    own |= set(b)
                elif ck == "do":
                    clauses.append(["do", [self.stmt(env, seen_iter, True, sx) for _ in range(self.n(1, 2))]])
                else:
                    raise ValueError(ck)
            if kind == "for":
                body = [self.stmt(env, seen_iter, True, sx) for _ in range(self.n(0, 3))]
                orelse = None
                if seen_iter and self.p(65):
                    orelse = [self.stmt(dict(outer_env), False, False, sx) for _ in range(self.n(1, 2))]
                final = ["body", body, orelse]
            elif kind == "dfor":
                if self.p(25):
                    final = ["unpack-map", self.build("D", env, True, 0, sx)]
                else:
                    who = self.n(0, 2)
                    kt = "i" if ints else self.pick(["i", "i", "P"])
                    vt = "i" if ints else self.pick(["i", "L", "P", "mix", "vars"])
                    # key and value are unordered: only one of them may assign (setx) at all
                    final = ["kv", self.build(kt, env, who != 1, 0, sx and who == 0), self.build(vt, env, who != 0, 0, sx and who != 0)]
            else:
                hashable = kind == "sfor"
                if self.p(22):
                    ut = "IL" if ints else self.pick(["IL", "ILP"] if hashable else ["IL", "ILP", "LL", "L"])
                    final = ["unpack", self.build(ut, env, True, 0, sx)]
                else:
                    vt = "i" if ints else self.pick(["i", "i", "P"] if hashable else ["i", "i", "L", "P", "mix", "D", "vars", "vars"])
                    final = ["value", self.build(vt, env, True, 0, sx)]
            return dict(kind=kind, clauses=clauses, final=final)

        def nested(self, env, kind, setx_ok, impure):
            self.depth_comp += 1
            self.force_pure += 0 if impure else 1
            try:
                vec = ["iter"] + [self.pick(["iter", "if", "setv"] + ([] if self.plain or not impure else ["do"])) for _ in range(self.n(0, 1))]
                # the inner form's own names may shadow the outer form's
                inner = self.comp(kind, vec, env, setx_ok and impure, True)
            finally:
                self.depth_comp -= 1
                self.force_pure -= 0 if impure else 1
            return ["comp", inner]

    def case_strategy(kind=None, vec=None, plain=None, wrap=None, salt=0):
        @st.composite
        def make(draw):
            g = Gen(draw, False, False, salt)
            k = kind if kind is not None else g.pick(C.KINDS)
            g.plain = g.p(40) if plain is None else plain
            g.leak_ok = g.p(55)
            plain_ = g.plain
            if vec is not None:
                v = list(vec)
            else:
                n = g.pick([2] * 8 + [3] * 8 + [1] * 4 + [4] * 6 + [5] * 5 + [0])  # Hypothesis favours the first entries
                kinds = ["iter"] * 9 + ["if"] * 4 + ["setv"] * 4 + ([] if plain_ else ["do"] * 4)
                v = [g.pick(kinds) for _ in range(n)]
                if v and v[0] != "iter" and g.p(70):
                    v[0] = "iter"
            comp = g.comp(k, v, {})
            free = {}
            for name, T in sorted(g.free.items()):
                free[name] = g.literal(T)
            roles = dict(C.leak_names(comp))
            roles.update(C.binder_roles(comp))
            pre = [n for n in sorted(roles) if g.p(50)]
            sl = C.slots(comp)
            w = g.n(0, len(sl) - 1) if sl and k != "for" else None
            if w is not None and wrap is not None:
                w = wrap % len(sl)
            let = None
            if g.p(45) and (roles or free):
                cands = sorted(roles) + sorted(free)
                name = g.pick(cands)
                if name in free:
                    value = g.literal(g.free[name])
                    scope = g.pick(["module", "function"])
                else:
                    value = ["lit", "LET:" + name]
                    scope = g.pick(["module", "function", "class"])
                let = dict(name=name, value=value, scope=scope)
            return dict(comp=comp, free=free, pre=pre, wrap=w, free_local=g.p(50), let=let)

        return make()

    return case_strategy


def classify(case, info):
    comp = case["comp"]
    kind = comp["kind"]
    cls = ["kind:" + kind, "clauses:%d" % len(comp["clauses"])]
    vec = [c[0] for c in comp["clauses"]]
    cls.append("vector:" + (",".join(vec) if len(vec) <= 2 else "len>=3"))
    cls.append("first-clause:" + (vec[0] if vec else "none"))
    cls.append("final:" + comp["final"][0])
    for s in info["strategies"]:
        cls.append("strategy:" + s)
    for s in info["scopes"]:
        cls.append("scope:" + s)
    if len(info["strategies"]) == 2:
        cls.append("pair:native+function")
    elif info["pairs"]:
        cls.append("pair:function+function")
    roles = set(C.binder_roles(comp).values()) | set(C.leak_names(comp).values())
    for r in roles:
        cls.append("name:" + r)
    if case.get("let"):
        cls.append("let:" + ({**C.leak_names(comp), **C.binder_roles(comp)}).get(case["let"]["name"], "free-name"))
    kinds = {n[0] for n in C.walk_comp(comp)}
    for k in ("break", "continue", "comp", "setx", "setv", "when"):
        if k in kinds:
            cls.append("has:" + k)
    if any(C.is_stmt(e) for e in C.comp_exprs(comp)):
        cls.append("has:statement-subform")
    if case.get("wrap") is not None and kind != "for" and C.native_eligible(comp):
        sl = C.slots(comp)
        cls.append("forced-at:" + C.slot_kind(comp, sl[case["wrap"] % len(sl)]))
    # exactly one statement-producing subform and nothing else forcing the function strategy: which slot is it?
    if kind != "for" and not C.native_eligible(comp) and comp["final"][0] in ("value", "kv") and not any(c[0] == "do" for c in comp["clauses"]):
        st = [p for p in C.slots(comp) if C.is_stmt(_at(comp, p))]
        if len(st) == 1:
            cls.append("only-statement-slot:" + C.slot_kind(comp, st[0]))
    if kind == "for" and comp["final"][2] is not None:
        cls.append("for-else")
    if kind == "gfor" and info.get("steps") is not None:
        cls.append("gfor-steps:" + ("0" if info["steps"] == 0 else "1-3" if info["steps"] <= 3 else ">3"))
    n = info.get("nlog", 0)
    cls.append("effects:" + ("0" if n == 0 else "1-5" if n <= 5 else ">5"))
    cls.append("result:" + ("empty" if info.get("result") in ("[]", "{}", "#{}", "None") else "non-empty"))
    return sorted(set(cls))


def _at(comp, path):
    t = comp
    for p in path:
        t = t[p]
    return t


def shard(ctx):
    case_strategy = strategies()

    def one(case):
        C.validate(case)  # a generator that leaves its own discipline is a harness error
        failure, info = run_case(case)
        comp = case["comp"]
        text = C.r_comp(comp)
        nt = len(comp["clauses"]) >= 2 and (info["pairs"] > 0 or comp["kind"] == "for")
        key = (text, tuple(case["pre"]), str(case.get("let")), case.get("wrap"), case.get("free_local"), str(case["free"]))
        ctx.case(key=key, nontrivial=nt, cls=classify(case, info), sample=text)
        ctx.count("runs", info["runs"])
        if failure is not None:
            ctx.fail(case, failure[0], failure[1])

    maxlen = 3 if ctx.quick else 4
    combos = []  # (kind, vec, plain, wrap)
    for n in range(0, maxlen + 1):
        for vec in itertools.product(CLAUSE_KINDS, repeat=n):
            for kind in C.KINDS:
                if kind != "for":
                    # the systematic strategy sweep: everything plain, exactly one slot forced, every slot in turn
                    for w in range(n + 2 if "do" not in vec else 1):
                        combos.append((kind, vec, True, w))
                combos.append((kind, vec, False, None))
    def batch(strategy, n, tag):
        """Generate with Hypothesis, then run the cases outside Hypothesis' call stack: Hy's compiler recurses deeply and
        CPython 3.12 maps/unmaps a 16 KB frame-stack chunk whenever the depth crosses a chunk boundary, which under
        Hypothesis' extra frames happened in a hot loop (90% of the run time was munmap)."""
        got = []
        ctx.hyp(strategy, got.append, n, tag)
        for case in got:
            if ctx.out_of_time():
                return False
            one(case)
        return True

    mine = [i for i in range(len(combos)) if i % ctx.n == ctx.k]
    ctx.count("sweep-combinations", len(mine))
    for i in mine:
        kind, vec, plain, w = combos[i]
        salt = 1 + core_derive(ctx.seed, "C04", i) % (2**30)
        if not batch(case_strategy(kind, vec, plain, w, salt), 1, "sweep-%d" % i):
            return
    left = ctx.per_shard(1700, 40000)
    part = 0
    while left > 0:
        if not batch(case_strategy(), min(left, 400), "sampled-%d" % part):
            return
        left -= 400
        part += 1


def core_derive(*parts):
    from vf import core

    return core.derive_seed(*parts)


# ----------------------------------------------------------------------------- shrinking
def _sub_paths(e, path):
    """(path, expression) for e and every expression below it; path is relative to the comprehension JSON"""
    yield path, e
    k = e[0]
    if k == "E":
        yield from _sub_paths(e[2], path + (2,))
    elif k in ("list", "tuple", "do"):
        for i, x in enumerate(e[1]):
            yield from _sub_paths(x, path + (1, i))
    elif k == "dict":
        for i, (a, b) in enumerate(e[1]):
            yield from _sub_paths(a, path + (1, i, 0))
            yield from _sub_paths(b, path + (1, i, 1))
    elif k in ("op", "call"):
        for i, x in enumerate(e[2]):
            yield from _sub_paths(x, path + (2, i))
    elif k == "items":
        yield from _sub_paths(e[1], path + (1,))
    elif k == "if":
        for i in (1, 2, 3):
            yield from _sub_paths(e[i], path + (i,))
    elif k == "when":
        yield from _sub_paths(e[1], path + (1,))
        for i, x in enumerate(e[2]):
            yield from _sub_paths(x, path + (2, i))
    elif k in ("setx", "setv"):
        yield from _sub_paths(e[2], path + (2,))
    elif k == "comp":
        yield from _expr_paths(e[1], path + (1,))


def _expr_paths(comp, path=()):
    for i, c in enumerate(comp["clauses"]):
        if c[0] in ("iter", "setv"):
            yield from _sub_paths(c[2], path + ("clauses", i, 2))
        elif c[0] == "if":
            yield from _sub_paths(c[1], path + ("clauses", i, 1))
        else:
            for j, x in enumerate(c[1]):
                yield from _sub_paths(x, path + ("clauses", i, 1, j))
    f = comp["final"]
    if f[0] == "body":
        for j, x in enumerate(f[1]):
            yield from _sub_paths(x, path + ("final", 1, j))
        for j, x in enumerate(f[2] or []):
            yield from _sub_paths(x, path + ("final", 2, j))
    else:
        for j in range(1, len(f)):
            yield from _sub_paths(f[j], path + ("final", j))


def _children(e):
    k = e[0]
    if k == "E":
        return [e[2]]
    if k in ("list", "tuple", "do"):
        return list(e[1])
    if k in ("op", "call"):
        return list(e[2])
    if k == "items":
        return [e[1]]
    if k == "if":
        return [e[2], e[3]]
    if k == "when":
        return list(e[2])
    if k in ("setx", "setv"):
        return [e[2]]
    if k == "dict":
        return [v for _, v in e[1]]
    return []


def _candidates(case):
    import copy

    def put(path, v):
        c = copy.deepcopy(case)
        t = c["comp"]
        for p in path[:-1]:
            t = t[p]
        t[path[-1]] = v
        return c

    for key, v in (("let", None), ("pre", []), ("wrap", None)):
        if case.get(key) != v and case.get(key) is not None:
            c = copy.deepcopy(case)
            c[key] = v
            yield c
    comp = case["comp"]
    sl = C.slots(comp)
    for i in range(len(comp["clauses"])):
        c = copy.deepcopy(case)
        del c["comp"]["clauses"][i]
        if case.get("wrap") is not None and sl:
            # keep the forced slot the same subform
            P = list(sl[case["wrap"] % len(sl)])
            if P[0] == "clauses":
                if P[1] == i:
                    continue
                if P[1] > i:
                    P[1] -= 1
            new = C.slots(c["comp"])
            if P not in new:
                continue
            c["wrap"] = new.index(P)
        yield c
    f = comp["final"]
    if f[0] == "body":
        if f[2] is not None:
            yield put(("final", 2), None)
        for i in range(len(f[1])):
            yield put(("final", 1), f[1][:i] + f[1][i + 1 :])
    for i, cl in enumerate(comp["clauses"]):
        if cl[0] == "do" and len(cl[1]) > 1:
            for j in range(len(cl[1])):
                yield put(("clauses", i, 1), cl[1][:j] + cl[1][j + 1 :])
        if cl[0] in ("iter", "setv") and not isinstance(cl[1], str):
            for n in C.target_names(cl[1]):
                yield put(("clauses", i, 1), n)
    for path, e in sorted(_expr_paths(comp), key=lambda t: len(t[0])):
        for ch in _children(e):
            yield put(path, ch)
        if e[0] == "comp":
            inner = e[1]
            for i in range(len(inner["clauses"])):
                yield put(path + (1, "clauses"), inner["clauses"][:i] + inner["clauses"][i + 1 :])
            continue
        for lit in (["lit", 0], ["list", []], ["list", [["lit", 1]]], ["lit", True], ["tuple", [["lit", 0], ["lit", 1]]], ["dict", []]):
            if e != lit:
                yield put(path, lit)
        if e[0] in ("list", "do") and len(e[1]) > 1:
            for j in range(len(e[1])):
                yield put(path, [e[0], e[1][:j] + e[1][j + 1 :]])
    for n, v in case["free"].items():
        if v[0] == "list" and v[1]:
            for j in range(len(v[1])):
                c = copy.deepcopy(case)
                c["free"][n] = ["list", v[1][:j] + v[1][j + 1 :]]
                yield c
    used = {n[1] for n in C.walk_comp(comp) if n[0] == "var"}
    for n in list(case["free"]):
        if n not in used and not (case.get("let") and case["let"]["name"] == n):
            c = copy.deepcopy(case)
            del c["free"][n]
            yield c


def shrink(case, same, budget):
    import json

    size = lambda c: len(json.dumps(c))
    best, calls, progress = case, 0, True
    while progress and calls < budget:
        progress = False
        for cand in _candidates(best):
            if calls >= budget:
                break
            if size(cand) >= size(best):
                continue
            try:
                C.validate(cand)
            except C.Invalid:
                continue
            calls += 1
            if same(cand):
                best, progress = cand, True
                break
    return best


def nested_body_assignment_stops_at_hidden_function(case, bucket, detail):
    """Root cause (only needed if the proposed repair of ScopeGen.finalize is not taken): a name assigned by setx/setv inside a
    comprehension that is itself inside a comprehension compiled with the generator-function strategy becomes a local of the
    outer hidden function instead of reaching the enclosing scope.  Recognised by: a leak mismatch of a body-assigned name
    under the function strategy whose actual state is 'never assigned', and the name is assigned only inside nested forms."""
    if not bucket.startswith(("leak:setx-var:function", "leak:setv-var:function")):
        return False
    name = detail["expected"].split(" = ")[0]
    if detail["actual"] not in ("%s = %s" % (name, C.ABSENT), "%s = %s" % (name, C.canon(C.sentinel(name)))):
        return False
    comp = case["comp"]
    direct = False
    for e in C.comp_exprs(comp):
        stack = [e]
        while stack:
            n = stack.pop()
            if n[0] == "comp":
                continue
            if n[0] in ("setx", "setv") and n[1] == name:
                direct = True
            stack.extend(C._kids(n))
    nested = any(e[0] == "comp" and name in C.leak_names(e[1]) for e in C.walk_comp(comp))
    return nested and not direct


# no known finding is registered: all four defects found have small repairs (see the report); the matcher above is offered as the
# alternative for the nested-comprehension one
MATCHERS = {"nested_body_assignment_stops_at_hidden_function": nested_body_assignment_stops_at_hidden_function}
