"""C21 Reader source positions delimit each form's text."""
from vf import textgen as T

PROP = "C21"
RULE = (
    "Engine-B multi-form texts (all form kinds, sugar, discards, comments, strings and bracket strings with embedded LF/CR/CRLF, "
    "f-strings, tabs, VT/FF); for every model the reader returns (components inside f-strings excepted, see assumptions): "
    "(1) slicing the source by its 1-based inclusive (start_line,start_column)-(end_line,end_column) and reading the slice gives "
    "an equal model, (2) each child's region lies within its parent's, (3) children appear in source order without overlap, "
    "(4) the region equals the span recorded by the generator when it wrote the text; non-trivial = text has >= 3 lines "
    "and a form spanning several lines; distinct by text"
)
ASSUMPTIONS = [
    "String parts and FComponents directly inside an FString are positioned by a different rule (from the end of the previous part); "
    "they are checked for containment in the f-string and start order only",
    "models that have no text of their own (the head symbol that sugar introduces, and the '.', 'None' and part symbols that a dotted "
    "identifier expands to) inherit the enclosing form's region; they are checked for containment only, unless they report a narrower region, which must then read back to them; for #^ TYPE TARGET, which is defined as (annotate TARGET TYPE), the order clause is not applied to TARGET/TYPE",
    "lines are separated by LF only (a lone CR does not start a new line), as the reader counts",
]


def region(m):
    return (m.start_line, m.start_column, m.end_line, m.end_column)


def check_case(case):
    import hy
    import hy.models as M

    try:
        rd = T.render(case["items"])
    except ValueError:
        return None
    text = rd.text
    try:
        got = list(hy.read_many(text))
    except Exception:
        return None  # C20's business
    if len(got) != len(rd.models) or any(T.model_diff(a, b) for a, b in zip(got, rd.models)):
        return None  # C20's business
    pos = T.offset_to_linecol(text)
    off = {lc: i for i, lc in enumerate(pos)}
    want = {id(m): (s, e, kind) for s, e, m, kind in rd.spans}

    def offsets(m):
        s = off.get((m.start_line, m.start_column))
        e = off.get((m.end_line, m.end_column))
        return s, e

    def walk(actual, expected, parent_span, in_fstring):
        """returns failure or None"""
        s, e = offsets(actual)
        if s is None or e is None or e < s:
            return ("position-not-in-source", dict(text=text, model=hy.repr(actual), region=region(actual)))
        if parent_span is not None and not (parent_span[0] <= s and e <= parent_span[1]):
            return ("child-outside-parent", dict(text=text, model=hy.repr(actual), region=region(actual), parent=parent_span, child=(s, e)))
        w = want.get(id(expected))
        synthesized = w is None  # no text of its own: sugar heads, the parts of a dotted identifier
        if not in_fstring and not synthesized:
            if (w[0], w[1]) != (s, e):
                return ("region-differs-from-written-span:" + w[2].split(":")[0],
                        dict(text=text, model=hy.repr(actual), region=region(actual), got_offsets=(s, e), written=(w[0], w[1]),
                             got_slice=text[s:e + 1], written_slice=text[w[0]:w[1] + 1]))
            sl = text[s:e + 1]
            try:
                back = list(hy.read_many(sl))
            except Exception as ex:  # noqa
                return ("slice-unreadable", dict(text=text, model=hy.repr(actual), slice=sl, error=str(getattr(ex, "msg", ex))[:100]))
            if len(back) != 1 or T.model_diff(back[0], actual):
                return ("slice-reads-differently", dict(text=text, model=hy.repr(actual), slice=sl,
                                                        reread=[hy.repr(b) for b in back][:3]))
        if synthesized and not in_fstring and parent_span is not None and (s, e) != tuple(parent_span) and not isinstance(actual, M.Sequence):
            # a model without text of its own normally inherits the enclosing form's region; when it reports a narrower
            # region, it claims that text, so the text must read back to it (e.g. per-part spans of a dotted identifier)
            sl = text[s:e + 1]
            try:
                back = list(hy.read_many(sl))
            except Exception as ex:  # noqa
                back = None
            if back is None or len(back) != 1 or T.model_diff(back[0], actual):
                return ("narrowed-region-of-synthesized-model-reads-differently",
                        dict(text=text, model=hy.repr(actual), slice=sl, region=region(actual)))
        if isinstance(actual, M.Sequence):
            is_f = isinstance(actual, (M.FString, M.FComponent))
            sugar_head = (isinstance(actual, M.Expression) and len(actual) > 0 and isinstance(actual[0], M.Symbol)
                          and offsets(actual[0]) == (s, e) and len(actual) > 1)
            is_ann_sugar = sugar_head and str(actual[0]) == "annotate"
            prev_end = None
            prev_start = None
            for i, (ca, ce) in enumerate(zip(actual, expected)):
                child_in_f = is_f  # direct parts of an f-string / the spec parts of a component
                if isinstance(actual, M.FComponent) and i == 0:
                    child_in_f = False  # the field's form itself is read like any form
                r = walk(ca, ce, (s, e), child_in_f)
                if r:
                    return r
                if id(ce) not in want and not is_f:
                    continue  # synthesized child (inherits the parent's region)
                cs, cend = offsets(ca)
                if is_ann_sugar:
                    continue
                if is_f:
                    if (cs, cend) == (s, e):
                        continue  # adjacent literal parts merged by the FString constructor inherit the f-string's region
                    if prev_start is not None and cs < prev_start:
                        return ("fstring-parts-out-of-order", dict(text=text, model=hy.repr(actual)))
                else:
                    if prev_end is not None and cs <= prev_end:
                        return ("children-overlap-or-out-of-order", dict(text=text, model=hy.repr(actual), child_index=i,
                                                                         child=(cs, cend), previous_end=prev_end))
                prev_end, prev_start = cend, cs
        return None

    prev_end = None
    for a, b in zip(got, rd.models):
        r = walk(a, b, None, False)
        if r:
            return r
        s, e = offsets(a)
        if prev_end is not None and s <= prev_end:
            return ("top-level-forms-overlap", dict(text=text))
        prev_end = e
    return None


def shard(ctx):
    S = T.strategies(max_depth=3 if ctx.quick else 4)

    def one(items):
        try:
            rd = T.render(items)
        except ValueError:
            ctx.count("skipped:model-constructor-rejects")
            return
        lines = rd.text.count("\n") + 1
        multi = "multiline-string" in rd.features or any(
            "\n" in rd.text[s:e + 1] for s, e, m, k in rd.spans)
        nt = lines >= 3 and multi
        ctx.case(key=rd.text, nontrivial=nt, cls=sorted(rd.features) + ["lines>=3" if lines >= 3 else "lines<3"], sample=rd.text[:300])
        r = check_case(dict(items=items))
        if r is not None:
            ctx.fail(dict(items=items), r[0], r[1])

    ctx.hyp(S["program"], one, ctx.per_shard(5000, 250000), "programs")


MATCHERS = {}
