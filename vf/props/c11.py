"""C11 No subform is silently dropped by the compiler."""
from vf import c11_forms as F

PROP = "C11"
RULE = (
    "JSON form trees [kind, opt, children] rendered to Hy text; every evaluated leaf is a fresh variable v0, v1, ... and every "
    "bound name (targets, parameters, loop variables, function/class names) comes from a disjoint alphabet. Kinds: calls, (.m obj ..), "
    "(. obj (m ..)), (. obj [i]), list/tuple/set/dict displays, get, cut, all maths/comparison/logical/unary operators, chainc, "
    "f-strings with conversions and nested format specs, if/when/cond/do, setx, lfor/sfor/gfor/dfor, quasiquote with "
    "unquote/unquote-splice, fn (plain, called, async) and defn with decorators, defaults, keyword-only defaults, parameter/return "
    "annotations and :tp bounds, defclass with decorators, bases and class keywords, with managers, try/except/else/finally, setv "
    "(name, annotated, attribute and subscript targets), augmented assignment, del, bare annotate, raise :from, assert, while, "
    "for/else, match guards, let, deftype, return/yield/await. Any child slot may hold #* x, #** x, (unpack-iterable) / "
    "(unpack-mapping) with 0, 1 or 2 arguments, or a :keyword value pair. Part 1 enumerates, for a fixed base shape of every kind, "
    "every leaf slot x every one of those 9 wrappers, a (do (a) (b)) operand (needs a statement before its value), an (if c (do (a) (b)) d) operand (its value arrives in a compiler temporary) and a call operand; part 2 draws nested trees with Hypothesis. Oracle: the form is rejected "
    "(HyLanguageError or SyntaxError from Hy, SyntaxError from CPython's compile) or else (static) every vN is an ast.Name in Load "
    "context of the compiled module and (dynamic) running the code object with a namespace whose every global, class-level and "
    "builtin lookup is logged and answered by one all-accepting dummy object looks up every vN whose evaluation Python's semantics "
    "make unconditional (not behind a branch, short-circuit, loop body, handler, uncalled function or lazy annotation); the dynamic "
    "part is decisive only when the run ends normally (or, for a top-level raise, with the dummy as the exception). Non-trivial = at "
    "least one unpack form that is not a direct call/method/base-list argument; distinct by rendered text. A failure is bucketed by the "
    "constructs on the path to the lost operand after the smallest failing sub-form has been isolated (e.g. dropped:list/um1 = a one-argument "
    "unpack-mapping directly in a list display)"
)
ASSUMPTIONS = [
    "a subform counts as present when its variable occurs as ast.Name(Load) in the compiled module, and as evaluated when the name is looked up at run time",
    "which slots are unconditionally evaluated is decided by CPython's semantics for the documented Python equivalent (branches, short-circuits, chain tails, loop bodies, handlers, uncalled bodies and lazy annotations carry no run-time requirement)",
    "an internal error (HyCompileError) or a ValueError/TypeError from CPython's compile() is counted as a rejection here, not as a silent drop; whether such errors are user-facing is C10's subject",
    "eval-and-compile / do-mac / defmacro bodies are outside the domain (their operands run at compile time in the real namespace)",
    "a variable standing alone in a statement sequence (do/let/with/try/loop/function/class bodies) is written as a call (vN): Hy documents in "
    "Result.expr_as_stmt that a bare name whose value is discarded is not emitted, so (do (f) x) never looks x up; that choice is reported, not judged",
    "the annotation of a plain name carries a run-time requirement only when the annotated form is the top-level form itself (nested, Hy may move "
    "the statement into a helper function, where Python does not evaluate annotations of local names)",
]

WRAPPERS = ["ui1s", "ui1", "um1s", "um1", "ui0", "ui2", "um0", "um2", "kw", "do2", "if2", "call"]


def wrap(variant, mk):
    """mk() -> a fresh operand node"""
    if variant == "kw":
        return ["kw", "k1", [mk()]]
    if variant == "do2":  # an operand that needs a statement before its value
        return ["do", 0, [mk(), mk()]]
    if variant == "if2":  # an operand whose value arrives in a compiler temporary (which setv may rename to its target)
        return ["if", 0, [mk(), ["do", 0, [mk(), mk()]], mk()]]
    if variant == "call":
        return ["call", 0, [mk()]]
    kind = variant[:2]
    n = int(variant[2])
    return [kind, 1 if variant.endswith("s") else 0, [mk() for _ in range(n)]]


# -- part 1: base shapes -------------------------------------------------------------------


def bases():
    V = F.V
    P = lambda opt, *c: ["param", opt, list(c)]
    out = [
        ["call", 0, [V(), V(), V()]],
        ["call", 0, [V(), ["kw", "k1", [V()]], V()]],
        ["mcall", 0, [V(), V()]],
        ["dotcall", 0, [V(), V(), V()]],
        ["dotidx", 0, [V(), V()]],
        ["dotattr", 0, [V()]],
        ["list", 0, [V(), V()]],
        ["list", 0, [V()]],
        ["tuple", 0, [V(), V()]],
        ["tuple", 0, [V()]],
        ["set", 0, [V(), V()]],
        ["set", 0, [V()]],
        ["dict", 0, [V(), V()]],
        ["dict", 0, [V(), V(), V(), V()]],
        ["dict", 0, [V()]],
        ["get", 0, [V(), V()]],
        ["get", 0, [V(), V(), V()]],
        ["cut", 0, [V(), V()]],
        ["cut", 0, [V(), V(), V(), V()]],
        ["chainc", ["<", "in"], [V(), V(), V()]],
        ["fstr", 0, [["flit", "a", []], ["ffield", "", [V()]]]],
        ["fstr", 0, [["ffield", "r", [V(), ["flit", ">", []], ["ffield", "", [V()]]]]]],
        ["if", 0, [V(), V(), V()]],
        ["when", 0, [V(), V()]],
        ["cond", 0, [V(), V(), V(), V()]],
        ["do", 0, [V(), V()]],
        ["setx", 0, [V()]],
        ["lfor", "i", [V(), V(), V()]],
        ["sfor", "", [V(), V()]],
        ["gfor", "", [V(), V()]],
        ["dfor", "", [V(), V(), V()]],
        ["dfor", "", [V(), ["um", 1, [V()]]]],
        ["quasi", 0, [["unq", 0, [V()]], ["unqs", 0, [V()]]]],
        ["fn", "plain", [["params", 0, [P("d", V()), P("dk", V())]], V()]],
        ["fn", "call", [["params", 0, [P("d", V())]], V(), ["return", 0, [V()]]]],
        ["fn", "plain", [["params", 0, [P("o"), P("do", V()), P("d", V()), P("dk", V())]], V()]],
        ["fn", "plain", [["params", 0, [P("do", V()), P("doa", V(), V()), P("d", V())]], V()]],
        ["fn", "plain", [["params", 0, [P("da", V(), V()), P("ra", V()), P("wa", V())]], ["yield", 0, [V()]]]],
        ["fn", "plain", [["params", 0, []], ["yieldfrom", 0, [V()]]]],
        ["fn", "async", [["params", 0, []], ["await", 0, [V()]]]],
        ["with", 0, [["witems", 0, [["witem", "b", [V()]]]], V()]],
        ["with", 0, [["witems", 0, [["witem", "n", [V()]], ["witem", "u", [V()]]]], V()]],
        ["try", 0, [V(), ["exc", "one", [V(), ["tbody", 0, [V()]]]], ["else", 0, [V()]], ["finally", 0, [V()]]]],
        ["try", 0, [V(), ["exc", "list", [V(), V(), ["tbody", 0, [V()]]]]]],
        ["try", 0, [V(), ["exc", "nlist", [V(), ["tbody", 0, [V()]]]]]],
        ["try", 0, [V(), ["exc", "bare1", [V(), ["tbody", 0, [V()]]]]]],
        ["try", 0, [V(), ["finally", 0, [V()]]]],
        ["setv", 0, [["tname", 0, []], V(), ["tname", 0, []], V()]],
        ["setv", 0, [["tann", 0, [V()]], V()]],
        ["setv", 0, [["tattr", 0, [V()]], V()]],
        ["setv", 0, [["tget", 0, [V(), V()]], V()]],
        ["ann", 0, [V()]],
        ["del", 0, [["tget", 0, [V(), V()]], ["tattr", 0, [V()]]]],
        ["raise", 0, [V()]],
        ["raise", 0, [V(), V()]],
        ["assert", 0, [V()]],
        ["assert", 0, [V(), V()]],
        ["while", 0, [V(), V()]],
        ["for", 0, [V(), V(), ["else", 0, [V()]]]],
        ["defn", "plain", [["decos", 0, [V(), V()]], ["params", 0, [P("d", V()), P("dk", V())]], V()]],
        ["defn", "plain", [["decos", 0, [V()]], ["params", 0, [P("da", V(), V())]], ["retann", 0, [V()]], ["tp", 0, [V()]], ["return", 0, [V()]]]],
        ["defn", "async", [["params", 0, []], ["await", 0, [V()]]]],
        ["defclass", 0, [["decos", 0, [V()]], ["bases", 0, [V(), ["kw", "metaclass", [V()]]]], V()]],
        ["defclass", 0, [["bases", 0, [V(), V()]], ["setv", 0, [["tname", 0, []], V()]]]],
        ["deftype", 0, [V()]],
        ["match", 0, [V(), V(), V(), V()]],
        ["let", 2, [V(), V(), V()]],
    ]
    # an operator form bound directly to a name (the value's temporary may be renamed to the target there)
    for op in ("+", "-", "**", "|", "@", "<", "and"):
        out.append(["setv", 0, [["tname", 0, []], ["op", op, [V(), V()]]]])
        out.append(["setx", 0, [["op", op, [V(), V(), V()]]]])
        out.append(["let", 1, [["op", op, [V(), V()]], V()]])
    out.append(["setv", 0, [["tname", 0, []], ["call", 0, [V(), V(), V()]]]])
    out.append(["setv", 0, [["tname", 0, []], ["list", 0, [V(), V()]]]])
    out.append(["setv", 0, [["tname", 0, []], ["get", 0, [V(), V()]]]])
    for op in F.MATHS:
        out.append(["op", op, [V(), V()] if op in ("%", "^") else [V(), V(), V()]])
    for op in ("=", "is", "<", "<=", ">", ">="):
        out.append(["op", op, [V()]])
    for op in F.COMPARE:
        out.append(["op", op, [V(), V(), V()]])
        out.append(["op", op, [V(), V()]])
    for op in F.LOGIC:
        out.append(["op", op, [V(), V(), V()]])
    for op in F.UNARY:
        out.append(["op", op, [V()]])
    for op in ("+=", "-=", "**=", "@=", "|="):
        out.append(["aug", op, [["tattr", 0, [V()]], V(), V()]])
    out.append(["aug", "%=", [["tget", 0, [V(), V()]], V()]])
    return out


def leaf_paths(node, path=()):
    if node[0] == "v":
        yield path
    for i, c in enumerate(node[2]):
        yield from leaf_paths(c, path + (i,))


def substitute(node, path, new):
    if not path:
        return new
    k, opt, ch = node
    ch = list(ch)
    ch[path[0]] = substitute(ch[path[0]], path[1:], new)
    return [k, opt, ch]


def enumerated():
    for base in bases():
        yield dict(tree=base, origin="base")
        for path in leaf_paths(base):
            for w in WRAPPERS:
                t = substitute(base, path, wrap(w, F.V))
                if w == "kw" and ":k1 " not in F.render(t)[0]:
                    continue  # not an element list: the renderer writes the bare value there
                yield dict(tree=t, origin="slot")


# -- part 2: drawn trees -------------------------------------------------------------------

EXPR_KINDS = [
    "call", "call", "mcall", "dotcall", "dotidx", "dotattr", "list", "tuple", "set", "dict", "get", "get", "cut", "maths", "maths",
    "compare", "logic", "unary", "chainc", "fstr", "if", "when", "cond", "do", "setx", "comp", "quasi", "fn", "with", "try", "let", "match",
]
STMT_KINDS = ["setv", "setv", "aug", "del", "ann", "assert", "while", "for", "defn", "defn", "defclass", "defclass", "deftype", "raise"]


def strategy(max_depth):
    from hypothesis import strategies as st

    @st.composite
    def tree(draw):
        def i(n):
            return draw(st.integers(0, n - 1))

        def pick(seq):
            return seq[i(len(seq))]

        def chance(pct):
            return i(100) < pct

        def unpack(depth, fn):
            v = pick(["ui1s"] * 7 + ["ui1"] * 2 + ["um1s"] * 5 + ["um1"] * 2 + ["ui0", "ui2", "um0", "um2"])
            return wrap(v, lambda: operand(depth - 1, fn))

        def operand(depth, fn):
            # operand of an unpack form / a position whose value Python operates on: keep it dummy-valued most of the time
            if depth <= 0 or chance(45 if depth >= 2 else 65):
                return F.V()
            return build(pick(["call", "mcall", "dotcall", "dotattr", "get", "maths", "do", "list", "dict", "tuple"]), depth, fn)

        def expr(depth, fn):
            if depth <= 0 or chance(25 if depth >= 2 else 45):
                return F.V()
            return build(pick(EXPR_KINDS), depth, fn)

        def slot(depth, fn):
            """a single evaluated position that is not an argument list"""
            if chance(9):
                return unpack(depth, fn)
            return expr(depth, fn)

        def obj(depth, fn):
            """a position whose value gets called / subscripted / entered"""
            if chance(5):
                return unpack(depth, fn)
            return operand(depth, fn)

        def item(depth, fn, kw=True):
            r = i(100)
            if r < 30:
                return unpack(depth, fn)
            if r < 40 and kw:
                return ["kw", pick(["k1", "k2", "key-w"]), [slot(depth - 1, fn)]]
            return expr(depth - 1, fn)

        def items(depth, fn, lo, hi, kw=True):
            return [item(depth, fn, kw) for _ in range(lo + i(hi - lo + 1))]

        def body(depth, fn, lo=1, hi=2):
            out = []
            for _ in range(lo + i(hi - lo + 1)):
                if chance(30):
                    out.append(build(pick(STMT_KINDS[:-1]), depth - 1, fn))
                else:
                    out.append(slot(depth - 1, fn))
            return out

        def params(depth, fn, must_default):
            ps = []
            for _ in range(i(4)):
                opt = pick(["d", "d", "dk", "da", "a", "", "ra", "wa", "dka", "do", "do", "o", "doa"])
                if must_default and "d" not in opt and "r" not in opt and "w" not in opt:
                    opt = "d" + opt
                ch = []
                if "d" in opt:
                    ch.append(slot(depth - 1, fn))
                if "a" in opt:
                    ch.append(slot(depth - 1, fn))
                ps.append(["param", opt, ch])
            return ["params", 0, ps]

        def target(depth, fn):
            r = i(4)
            if r == 0:
                return ["tname", 0, []]
            if r == 1:
                return ["tann", 0, [slot(depth - 1, fn)]]
            if r == 2:
                return ["tattr", 0, [obj(depth - 1, fn)]]
            return ["tget", 0, [obj(depth - 1, fn)] + [item(depth - 1, fn, False) for _ in range(1 + i(2))]]

        def build(kind, depth, fn):
            d = depth - 1
            if kind == "call":
                return ["call", 0, [obj(d, fn)] + items(depth, fn, 0, 3)]
            if kind == "mcall":
                pre = [pick([["kw", "k1", [expr(d, fn)]], ["um", 1, [operand(d, fn)]]])] if chance(15) else []
                return ["mcall", 0, pre + [obj(d, fn)] + items(depth, fn, 0, 2)]
            if kind == "dotcall":
                return ["dotcall", 0, [obj(d, fn)] + items(depth, fn, 0, 3)]
            if kind == "dotidx":
                return ["dotidx", 0, [obj(d, fn), item(depth, fn, False)]]
            if kind == "dotattr":
                return ["dotattr", 0, [obj(d, fn)]]
            if kind in ("list", "tuple", "set"):
                return [kind, 0, items(depth, fn, 0, 3)]
            if kind == "dict":
                n = pick([0, 1, 2, 2, 3, 4])
                return ["dict", 0, [item(depth, fn, False) for _ in range(n)]]
            if kind == "get":
                return ["get", 0, [obj(d, fn)] + [item(depth, fn, False) for _ in range(1 + i(2))]]
            if kind == "cut":
                return ["cut", 0, [obj(d, fn)] + [item(depth, fn, False) for _ in range(i(4))]]
            if kind == "maths":
                op = pick(F.MATHS)
                n = 2 if op in ("%", "^") else pick([0, 1, 2, 2, 3])
                return ["op", op, [item(depth, fn, False) if chance(50) else operand(d, fn) for _ in range(n)]]
            if kind == "compare":
                return ["op", pick(F.COMPARE), [item(depth, fn, False) if chance(50) else operand(d, fn) for _ in range(pick([1, 2, 2, 3, 4]))]]
            if kind == "logic":
                return ["op", pick(F.LOGIC), items(depth, fn, 0, 3, False)]
            if kind == "unary":
                return ["op", pick(F.UNARY), [slot(d, fn)]]
            if kind == "chainc":
                n = 1 + i(3)
                return ["chainc", [pick(F.COMPARE) for _ in range(n)], [slot(d, fn) for _ in range(n + 1)]]
            if kind == "fstr":
                def field(dd, nest):
                    ch = [slot(dd, fn)]
                    if nest and chance(50):
                        for _ in range(1 + i(2)):
                            ch.append(field(dd - 1, False) if chance(60) else ["flit", pick([">", "5", "<", "^"]), []])
                    return ["ffield", pick(["", "", "r", "s", "a"]), ch]
                parts = []
                for _ in range(1 + i(3)):
                    parts.append(field(d, True) if chance(70) else ["flit", pick(["a", "b c", "x."]), []])
                return ["fstr", 0, parts]
            if kind == "if":
                return ["if", 0, [slot(d, fn), slot(d, fn), slot(d, fn)]]
            if kind == "when":
                return ["when", 0, [slot(d, fn)] + body(depth, fn)]
            if kind == "cond":
                return ["cond", 0, [slot(d, fn) for _ in range(2 * (1 + i(2)))]]
            if kind == "do":
                return ["do", 0, body(depth, fn, 0, 3)]
            if kind == "setx":
                return ["setx", 0, [slot(d, fn)]]
            if kind == "comp":
                k = pick(["lfor", "sfor", "gfor", "dfor"])
                opt = pick(["", "i"])
                ch = [obj(d, fn)] + ([slot(d, fn)] if opt == "i" else [])
                if k == "dfor":
                    ch += [["um", 1, [operand(d, fn)]]] if chance(30) else [slot(d, fn), slot(d, fn)]
                else:
                    ch.append(slot(d, fn))
                return [k, opt, ch]
            if kind == "quasi":
                return ["quasi", 0, [[pick(["unq", "unqs"]), 0, [slot(d, fn)]] for _ in range(1 + i(3))]]
            if kind == "fn":
                opt = pick(["plain", "call", "call", "async"])
                sub = "call" if opt == "call" else opt
                b = body(depth, sub, 0, 2)
                if opt == "call" and chance(40):
                    b.append(["return", 0, [slot(d, sub)] if chance(85) else []])
                elif opt == "plain" and chance(50):
                    b.insert(i(len(b) + 1), pick([["yield", 0, [slot(d, sub)]], ["yieldfrom", 0, [slot(d, sub)]], ["return", 0, [slot(d, sub)]],
                                                  ["raise", 0, [slot(d, sub)]]]))
                elif opt == "async" and chance(60):
                    b.append(["await", 0, [slot(d, sub)]])
                return ["fn", opt, [params(depth, fn, opt == "call")] + b]
            if kind == "with":
                n = 1 + i(3)
                if n == 1 and chance(50):
                    ws = [["witem", "b", [obj(d, fn)]]]
                else:
                    ws = [["witem", pick(["n", "u"]), [obj(d, fn)]] for _ in range(n)]
                return ["with", 0, [["witems", 0, ws]] + body(depth, fn, 0, 2)]
            if kind == "try":
                ch = body(depth, fn, 1, 2)
                for _ in range(pick([0, 1, 1, 2])):
                    eo = pick(["one", "bare1", "list", "nlist", "all"])
                    ts = [item(depth, fn, False) for _ in range(1 if eo in ("one", "bare1") else 0 if eo == "all" else i(3))]
                    hb = body(depth, fn, 0, 2)
                    if chance(20):
                        hb.append(["raise", 0, [slot(d, fn)]])
                    ch.append(["exc", eo, ts + [["tbody", 0, hb]]])
                if any(c[0] == "exc" for c in ch) and chance(40):
                    ch.append(["else", 0, body(depth, fn, 1, 1)])
                if chance(50) or not any(c[0] == "exc" for c in ch):
                    ch.append(["finally", 0, body(depth, fn, 1, 2)])
                return ["try", 0, ch]
            if kind == "let":
                n = i(3)
                return ["let", n, [slot(d, fn) for _ in range(n)] + body(depth, fn)]
            if kind == "match":
                return ["match", 0, [slot(d, fn), slot(d, fn), slot(d, fn), slot(d, fn)]]
            if kind == "setv":
                ch = []
                for _ in range(1 + i(2)):
                    ch += [target(depth, fn), slot(d, fn)]
                return ["setv", 0, ch]
            if kind == "aug":
                op = pick(F.AUG)
                n = 1 if op in ("%=", "^=") else 1 + i(2)
                return ["aug", op, [target(depth, fn)] + [item(depth, fn, False) if chance(40) else operand(d, fn) for _ in range(n)]]
            if kind == "del":
                return ["del", 0, [pick([["tattr", 0, [obj(d, fn)]], ["tget", 0, [obj(d, fn), item(depth, fn, False)]]]) for _ in range(1 + i(2))]]
            if kind == "ann":
                return ["ann", 0, [slot(d, fn)]]
            if kind == "raise":
                return ["raise", 0, [obj(d, fn)] + ([obj(d, fn)] if chance(60) else [])]
            if kind == "assert":
                return ["assert", 0, [slot(d, fn)] + ([slot(d, fn)] if chance(60) else [])]
            if kind == "while":
                return ["while", 0, [slot(d, fn)] + body(depth, fn, 0, 2)]
            if kind == "for":
                ch = [obj(d, fn)] + body(depth, fn, 0, 2)
                if chance(40):
                    ch.append(["else", 0, body(depth, fn, 1, 1)])
                return ["for", 0, ch]
            if kind == "defn":
                opt = pick(["plain", "plain", "plain", "async"])
                ch = []
                if chance(60):
                    ch.append(["decos", 0, items(depth, fn, 0, 3, False)])
                ch.append(params(depth, fn, False))
                if chance(35):
                    ch.append(["retann", 0, [slot(d, fn)]])
                if chance(20):
                    ch.append(["tp", 0, [slot(d, fn) for _ in range(1 + i(2))]])
                b = body(depth, opt, 0, 2)
                if chance(40):
                    b.append(pick([["return", 0, [slot(d, opt)]], ["yield", 0, [slot(d, opt)]]]) if opt == "plain" else ["await", 0, [slot(d, opt)]])
                return ["defn", opt, ch + b]
            if kind == "defclass":
                ch = []
                if chance(50):
                    ch.append(["decos", 0, items(depth, fn, 0, 2, False)])
                if chance(80):
                    ch.append(["bases", 0, items(depth, fn, 0, 3)])
                if chance(15):
                    ch.append(["tp", 0, [slot(d, fn)]])
                return ["defclass", 0, ch + body(depth, fn, 0, 2)]
            if kind == "deftype":
                return ["deftype", 0, [slot(d, fn)]]
            raise ValueError(kind)

        root = pick(EXPR_KINDS + STMT_KINDS + ["assert", "raise"])
        return dict(tree=build(root, max_depth, None), origin="drawn")

    return tree()


# -- oracle --------------------------------------------------------------------------------


def judge(tree):
    """-> (text, Render, outcome); outcome is one of
    ("rejected", class, message), ("held", dynamic class), ("dropped", leaves, module), ("not-evaluated", leaves, module)"""
    text, rd = F.render(tree)
    res = F.observe(text)
    if res[0] == "rejected":
        return text, rd, res
    module, code = res[1], res[2]
    names = F.loaded_names(module)
    missing = [lf for lf in rd.leaves if lf[0] not in names]
    if missing:
        return text, rd, ("dropped", missing, module)
    log, exc, dummy = F.run(code)
    ok_normal = exc is None and rd.abrupt == 0
    ok_raise = exc is dummy and rd.root_raise and rd.abrupt == 1
    if not (ok_normal or ok_raise):
        return text, rd, ("held", "inconclusive:" + ("misplaced-return" if exc is None else "raise" if exc is dummy else type(exc).__name__))
    seen = set(log)
    lazy = [lf for lf in rd.leaves if lf[1] and lf[0] not in seen]
    if lazy:
        return text, rd, ("not-evaluated", lazy, module)
    return text, rd, ("held", "decisive")


def diagnose(tree, kind, ident):
    """Smallest form around the lost operand that still loses it: the deepest node on the path from the root to the
    operand that fails on its own, with every intermediate node hoisted away that is not needed for the failure.
    -> (label, hy text of that form).  The label names the constructs left on the path: the root-cause proxy."""

    def fails(t):
        try:
            _, _, out = judge(t)
        except (ValueError, IndexError):  # a fragment that is not a form on its own
            return False
        return out[0] == kind and any(lf[2] == ident for lf in out[1])

    def chain(t, path):
        nodes = [t]
        for i in path:
            nodes.append(nodes[-1][2][i])
        return nodes

    path = F.path_to(tree, ident)
    S, spath = tree, path
    nodes = chain(tree, path)
    for depth in range(len(path) - 1, 0, -1):
        if nodes[depth][0] not in F.FRAGMENTS and fails(nodes[depth]):
            S, spath = nodes[depth], path[depth:]
            break
    changed = True
    while changed:
        changed = False
        nodes = chain(S, spath)
        for j in range(1, len(nodes) - 1):
            cand = substitute(S, spath[:j], nodes[j + 1])
            if fails(cand):
                S, spath, changed = cand, spath[:j] + spath[j + 1:], True
                break
    nodes = chain(S, spath)
    labels = [F.label(n) for n in nodes[:-1]]
    # what sits inside a slot that cannot hold Python statements is irrelevant to the cause: only that it needs statements
    for i, lab in enumerate(labels[:-1]):
        if lab in ("deftype", "tp", "retann") or (lab in ("ui1", "um1") and i and labels[i - 1] in ("lfor", "sfor", "gfor", "dfor")):
            labels = labels[: i + 1] + ["<statements>"]
            break
    return "/".join(labels[-4:]) or "operand", S


def analyse(case):
    """-> dict(text, classes, nontrivial, failure=None | (bucket, detail))"""
    tree = case["tree"]
    text, rd, res = judge(tree)
    classes = ["root:" + tree[0]]
    for parent, variant in rd.sites:
        classes.append("unpack:%s@%s" % (variant, parent))
    nontrivial = any(parent not in F.CALLISH for parent, _ in rd.sites)
    out = dict(text=text, classes=classes, nontrivial=nontrivial, failure=None)
    if res[0] == "rejected":
        classes.append("outcome:rejected:" + res[1])
        return out
    classes.append("outcome:accepted")
    if res[0] == "held":
        classes.append("dynamic:" + res[1])
        return out
    kind, leaves, module = res
    inside = [lf for lf in leaves if any(n[0] in ("ui", "um") for n in _chain(tree, F.path_to(tree, lf[2])))]
    lab, minimal = diagnose(tree, kind, (inside or leaves)[0][2])
    detail = dict(hy=text, python=_unparse(module), minimal=F.render(minimal)[0])
    out["minimal_tree"] = minimal
    if kind == "dropped":
        detail["dropped"] = [lf[0] for lf in leaves]
        detail["expected"] = "every vN of the source occurs as a loaded name in the compiled module, or the form is rejected"
    else:
        classes.append("dynamic:decisive")
        detail["never_looked_up"] = [lf[0] for lf in leaves]
        detail["expected"] = "the run finished, so every unconditionally evaluated vN must have been looked up"
    out["failure"] = (kind + ":" + lab, detail)
    return out


def _chain(tree, path):
    nodes = [tree]
    for i in path:
        nodes.append(nodes[-1][2][i])
    return nodes


def _unparse(module):
    import ast

    try:
        return ast.unparse(module)[:600]
    except Exception as e:  # noqa: only for the report text
        return "<unparse failed: %s>" % type(e).__name__


def subtrees(node):
    yield node
    for c in node[2]:
        yield from subtrees(c)


def shrink(case, same, budget):
    """structural reduction that keeps every node's kind and option intact"""
    best = case["tree"]
    size = lambda t: sum(1 for _ in subtrees(t))
    first = analyse(case).get("minimal_tree")  # the diagnosis already isolated the smallest failing sub-form
    if first is not None and first is not best and same(dict(tree=first)):
        best = first
    budget = min(budget, 40)
    calls = 0
    improved = True
    while improved and calls < budget:
        improved = False
        cands = [t for t in subtrees(best) if t is not best]
        for path in _all_paths(best):
            node = _at(best, path)
            if node[0] != "v" and node[0] not in ("params", "witems", "tbody"):
                cands.append(substitute(best, path, F.V()))
            for i in range(len(node[2])):
                cands.append(substitute(best, path, [node[0], node[1], node[2][:i] + node[2][i + 1:]]))
        cands.sort(key=size)
        for cand in cands:
            if calls >= budget:
                break
            if size(cand) >= size(best):
                continue
            calls += 1
            try:
                ok = same(dict(tree=cand))
            except Exception:  # noqa: a fragment that cannot be rendered is simply not a candidate
                ok = False
            if ok:
                best, improved = cand, True
                break
    return dict(tree=best)


def _all_paths(node, path=()):
    yield path
    for i, c in enumerate(node[2]):
        yield from _all_paths(c, path + (i,))


def _at(node, path):
    for i in path:
        node = node[2][i]
    return node


def check_case(case):
    return analyse(case)["failure"]


def shard(ctx):
    seen = set()

    def one(case):
        origin = case.get("origin", "drawn")
        case = dict(tree=case["tree"])
        text = F.render(case["tree"])[0]
        if text in seen:  # Hypothesis repeats small draws; a text already judged in this shard is not judged again
            ctx.count("skipped:duplicate-text")
            return
        seen.add(text)
        a = analyse(case)
        ctx.case(key=a["text"], nontrivial=a["nontrivial"], cls=a["classes"] + ["origin:" + origin], sample=a["text"])
        if a["failure"] is not None:
            ctx.fail(case, a["failure"][0], a["failure"][1])

    for idx, case in enumerate(enumerated()):
        if idx % ctx.n == ctx.k:
            one(case)
    ctx.hyp(strategy(3 if ctx.quick else 4), one, ctx.per_shard(24000, 400000), "forms")


BUDGET_QUICK = 600
BUDGET_THOROUGH = 3000
def unary_comparison_operand_dropped(case, bucket, detail):
    """Root cause D (offered in case its repair, which needs five vacuous test assertions corrected, is not applied):
    the smallest failing sub-form is a comparison operator applied to exactly one operand."""
    if bucket == "dropped:compare1":
        return True
    # the same root cause with a larger operand: the smallest failing sub-form (the diagnosis hoists everything away that
    # is not needed for the failure) is itself a comparison operator applied to exactly one operand, which it drops whole
    if not (bucket.startswith("dropped:compare1/") or bucket.startswith("not-evaluated:compare1/")):
        return False
    try:
        m = analyse(case).get("minimal_tree")
    except Exception:
        return False
    return bool(m) and m[0] == "op" and m[1] in F.COMPARE and len(m[2]) == 1


MATCHERS = {"unary_comparison_operand_dropped": unary_comparison_operand_dropped}
