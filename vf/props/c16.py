"""C16 Compile-time staging: eval-when-compile, eval-and-compile, do-mac across compile / run / bytecode histories."""
import json
import os
import shutil
import subprocess
import sys
import tempfile

from vf import core
from vf import c16_model as M

PROP = "C16"
RULE = (
    "cases: JSON trees of 1..5 top-level forms over {E effect, do, if, let + variable, fn called 0..3 times, module-level defn + calls, "
    "eval-when-compile, eval-and-compile, do-mac (last argument a literal, a computed value, a quote, or a quasiquote with unquotes, "
    "directly or chosen through let/if)}, staging forms nested up to 3 deep in each other and in every other form, in statement and value "
    "positions; the Hy source is a deterministic rendering of the tree. Each batch is written as modules under .work/ and executed in a "
    "child interpreter with bytecode writing enabled and a private bytecode directory: (1) HyLoader.get_code = compile phase (writes the "
    ".pyc), exec of the code object = run phase; (2) a real import in the same process (must load the bytecode, no compilation); (3) "
    "hy.eval of the whole hy.read_many stream; (4) hy.eval form by form (phases interleave); then in a second, fresh interpreter (5) a "
    "real import from the bytecode (no compilation) and (6) with the .pyc removed, a real import from source. Oracle: a reference model of "
    "staging written from docs/api.rst (vf/c16_model.py: C = compile in place, R = run, compile-time evaluation = C then R at module "
    "level) predicts the exact effect log [tag, value] of the compile phase and of the run phase, the interleaved log of (4) and the "
    "values of top-level forms; (2) and (5) must log exactly the run phase and not compile; (3) and (6) must log compile phase followed by "
    "run phase. Non-trivial = a staging form inside a function (fn or defn) that is called >= 2 times (the bytecode histories are run for "
    "every case); distinct by case tree"
)
ASSUMPTIONS = [
    "\"evaluated at compile time\" (api.rst) = compiled at module scope, then run there; so a staging form nested inside an eval-and-compile "
    "body is compiled twice (for the compile-time evaluation and as part of the code that is left in the program) and its compile-time "
    "effects occur once per compilation; 'once' in the property is read per compilation of the form. Example: "
    "(eval-and-compile (eval-when-compile (E \"a\" 0))) logs a twice while compiling and nothing when run",
    "compile-time effects of sibling subforms occur in source order (Hy compiles subforms left to right); within one compile-time "
    "evaluation all of the body is compiled before any of it runs",
    "the namespace in which compile-time code runs is not compared with the run-time namespace: programs only call a function where it has "
    "been defined in the same phase (on a source import both phases share the module dict, from bytecode they do not; see report)",
    "effects are observed through a builtin function E injected by the worker; compilation is observed by counting hy.importer.hy_compile calls",
]
NSHARDS = 16
BUDGET_QUICK = 240
BUDGET_THOROUGH = 1700
BATCH = 60


def _env():
    env = dict(os.environ)
    env.pop("PYTHONDONTWRITEBYTECODE", None)
    env["PYTHONHASHSEED"] = env.get("PYTHONHASHSEED", "0")
    pp = env.get("PYTHONPATH", "")
    if core.ROOT not in pp.split(os.pathsep):
        env["PYTHONPATH"] = core.ROOT + (os.pathsep + pp if pp else "")
    return env


def run_batch(sources):
    """sources: list of Hy texts -> list of merged worker results (passes A and B)"""
    os.makedirs(core.WORK, exist_ok=True)
    rundir = tempfile.mkdtemp(prefix="c16-", dir=core.WORK)
    try:
        batch = dict(dir=rundir, cases=[["c%04d" % i, s] for i, s in enumerate(sources)])
        bpath = os.path.join(rundir, "batch.json")
        with open(bpath, "w") as f:
            json.dump(batch, f)
        merged = [dict() for _ in sources]
        for which in ("A", "B"):
            r = subprocess.run([sys.executable, "-m", "vf.c16worker", which, bpath], env=_env(), capture_output=True, text=True, cwd=core.ROOT)
            if r.returncode != 0:
                raise RuntimeError("c16worker %s failed (%d): %s" % (which, r.returncode, r.stderr[-1500:]))
            out = json.loads(r.stdout)
            if len(out) != len(sources):
                raise RuntimeError("c16worker %s returned %d results for %d cases" % (which, len(out), len(sources)))
            for m, o in zip(merged, out):
                m.update(o)
        return merged
    finally:
        shutil.rmtree(rundir, ignore_errors=True)


def _kind(expected, actual):
    """mismatch kind between two logs"""
    if sorted(map(json.dumps, expected)) == sorted(map(json.dumps, actual)):
        return "order"
    et, at = sorted(t for t, _ in expected), sorted(t for t, _ in actual)
    if et == at:
        return "value"
    return "count"


def _constructs(case, expected, actual):
    """the construct (ewc / eac / mac body / tmpl = code returned by do-mac / unq / plain) that owns the effect at which the
    expected and the actual log first part (root-cause proxy for the bucket)"""
    owner = {}

    def walk(f, own):
        if M.is_lit(f):
            return
        k = f[0]
        if k == "e":
            owner[f[1]] = own
        if k in M.STAGING:
            own = k
        elif k == "quote":
            own = "tmpl"
        elif k == "unq":
            own = "unq"
        for c in M.children(f):
            walk(c, own)

    for f in case["forms"]:
        walk(f, "plain")
    i = 0
    while i < len(expected) and i < len(actual) and expected[i] == actual[i]:
        i += 1
    # the first event on which the two logs part: an unexpected event if there is one, else the missing one
    ev = actual[i] if i < len(actual) else expected[i]
    return owner.get(ev[0], "?")


def judge(case, pred, res):
    """-> None | (bucket, detail)"""
    src = M.render(case)

    def fail(bucket, **kw):
        d = dict(source=src)
        d.update(kw)
        return (bucket, d)

    ct, rt = pred["ct"], pred["rt"]
    # any exception: the model says the program runs
    for stepname in ("compile", "run", "reimport", "lazy", "stream", "bc", "src"):
        st = res.get(stepname)
        if st is None:
            if stepname == "run" and "exc" in res.get("compile", {}):
                continue
            raise RuntimeError("worker result lacks step %s" % stepname)
        if "exc" in st:
            return fail("exception-in-%s|%s" % (stepname, st["exc"].split(":")[0]), error=st["exc"], log_so_far=st["log"], expected_compile=ct, expected_run=rt)

    def logs(name, exp, act):
        if exp != act:
            kind = _kind(exp, act)
            # for a wrong multiplicity the construct owning the first stray/missing effect is part of the root-cause proxy
            where = "|" + _constructs(case, exp, act) if kind == "count" else ""
            return fail("%s-%s%s" % (name, kind, where), history=name, expected=exp, actual=act)

    r = logs("compile-phase", ct, res["compile"]["log"]) or logs("run-phase", rt, res["run"]["log"])
    if r:
        return r
    if res["compile"]["compiles"] != 1:
        return fail("first-load-compiled-%d-times" % res["compile"]["compiles"])
    if not res.get("pyc_written"):
        return fail("no-bytecode-written")
    if res["reimport"]["compiles"] != 0:
        return fail("bytecode-reimport-compiled", compiles=res["reimport"]["compiles"], log=res["reimport"]["log"], expected=rt)
    r = logs("bytecode-reimport", rt, res["reimport"]["log"])
    if r:
        return r
    if not res.get("pyc_present") or res["bc"]["compiles"] != 0:
        return fail("bytecode-fresh-process-compiled", compiles=res["bc"]["compiles"], pyc_present=res.get("pyc_present"), log=res["bc"]["log"], expected=rt)
    r = logs("bytecode-fresh-process", rt, res["bc"]["log"])
    if r:
        return r
    if res["src"]["compiles"] != 1:
        return fail("source-import-compiled-%d-times" % res["src"]["compiles"])
    r = (logs("source-import", ct + rt, res["src"]["log"]) or logs("eval-lazy", ct + rt, res["lazy"]["log"])
         or logs("eval-stream", pred["stream"], res["stream"]["log"]))
    if r:
        return r
    ev, av = pred["stream_values"], res["stream"]["values"]
    if len(ev) != len(av):
        return fail("eval-stream-value-count", expected=ev, actual=av)
    for i, (e, a) in enumerate(zip(ev, av)):
        if e != "?" and e != a:
            return fail("top-level-value", form_index=i, expected=ev, actual=av)
    return None


def check_case(case):
    try:
        pred = M.predict(case)
    except M.Invalid:
        return None
    res = run_batch([M.render(case)])[0]
    return judge(case, pred, res)


def _positions(f, path):
    yield path, f
    if M.is_lit(f):
        return
    k = f[0]
    if k == "e":
        yield from _positions(f[2], path + (2,))
    elif k in ("do", "ewc", "eac", "mac"):
        for i, x in enumerate(f[1]):
            yield from _positions(x, path + (1, i))
    elif k == "if":
        for i in (1, 2, 3):
            yield from _positions(f[i], path + (i,))
    elif k == "let":
        for i, b in enumerate(f[1]):
            yield from _positions(b[1], path + (1, i, 1))
        for i, x in enumerate(f[2]):
            yield from _positions(x, path + (2, i))
    elif k == "fn":
        for i, x in enumerate(f[1]):
            yield from _positions(x, path + (1, i))
    elif k == "defn":
        for i, x in enumerate(f[2]):
            yield from _positions(x, path + (2, i))
    elif k in ("quote", "unq"):
        yield from _positions(f[1], path + (1,))


def shrink(case, same, budget):
    """structure-aware reduction: delete list elements, replace a form by one of its sub-forms or by a literal, lower call counts.
    Candidates the model rejects are not executed; the others are executed in batches (one pair of child interpreters per batch)."""
    first = check_case(case)
    if first is None:
        return case
    bucket = first[0]
    calls = [0]
    budget = min(budget, 96 if budget <= 150 else 360)

    def first_ok(cands):
        """the first candidate (they are sorted by size) that fails in the same bucket"""
        valid = []
        for c in cands:
            try:
                valid.append((c, M.predict(c)))
            except M.Invalid:
                pass
        for i in range(0, len(valid), 24):
            if calls[0] >= budget:
                return None
            chunk = valid[i:i + 24]
            calls[0] += len(chunk)
            results = run_batch([M.render(c) for c, _ in chunk])
            for (c, pred), res in zip(chunk, results):
                r = judge(c, pred, res)
                if r is not None and r[0] == bucket:
                    return c
        return None

    best = case
    improved = True
    while improved and calls[0] < budget:
        improved = False
        cands = []
        forms = best["forms"]
        for i in range(len(forms)):
            if len(forms) > 1:
                cands.append(dict(forms=forms[:i] + forms[i + 1:]))
        for i, top in enumerate(forms):
            for path, f in _positions(top, ()):
                if M.is_lit(f):
                    continue
                repl = []
                for c in M.children(f):
                    repl.append(c)
                if f[0] != "e":
                    repl.append(["e", "z", 0])
                repl.append(0)
                if f[0] == "fn" and f[2] > 0:
                    repl.append(["fn", f[1], f[2] - 1])
                # delete one element of a body list
                if f[0] in ("do", "ewc", "eac", "mac", "fn"):
                    for j in range(len(f[1])):
                        repl.append(M.rebuild(f, f[1][:j] + f[1][j + 1:]) if f[0] != "fn" else ["fn", f[1][:j] + f[1][j + 1:], f[2]])
                if f[0] == "defn":
                    for j in range(len(f[2])):
                        repl.append(["defn", f[1], f[2][:j] + f[2][j + 1:]])
                if f[0] == "let":
                    for j in range(len(f[2])):
                        repl.append(["let", f[1], f[2][:j] + f[2][j + 1:]])
                    if len(f[1]) > 1:
                        for j in range(len(f[1])):
                            repl.append(["let", f[1][:j] + f[1][j + 1:], f[2]])
                for r in repl:
                    cands.append(dict(forms=forms[:i] + [core._set(top, path, r)] + forms[i + 1:]))
        size = core._json_size(best)
        cands = [c for c in cands if core._json_size(c) < size]
        cands.sort(key=core._json_size)
        c = first_ok(cands)
        if c is not None:
            best = c
            improved = True
    return best


def shard(ctx):
    pending = []
    size = 22 if ctx.quick else 30

    def flush():
        if not pending:
            return
        results = run_batch([M.render(c) for c, _, _ in pending])
        for (case, pred, meta), res in zip(pending, results):
            cls, info, repaired = meta
            nontrivial = info["staged_in_called_fn"] > 0
            extra = ["ct-call" if pred["ct_calls"] else "no-ct-call"]
            if pred["rt_calls"]:
                extra.append("rt-call")
            if repaired:
                extra.append("calls-repaired")
            if len(pred["ct"]) != len({t for t, _ in pred["ct"]}):
                extra.append("ct-effect-repeated(double-compile-or-call)")
            ctx.case(key=M.key(case), nontrivial=nontrivial, cls=cls + extra, sample=M.render(case).strip().replace("\n", "  ;;  "))
            r = judge(case, pred, res)
            if r is not None:
                ctx.fail(case, r[0], r[1])
        del pending[:]

    def one(case):
        repaired = False
        try:
            pred = M.predict(case)
        except M.Invalid:
            case = M.strip_calls(case)
            repaired = True
            pred = M.predict(case)  # a case that is still invalid is a generator bug: let it surface (exit 2)
        cls, info = M.classify(case)
        pending.append((case, pred, (cls, info, repaired)))
        if len(pending) >= BATCH:
            flush()

    ctx.hyp(M.program(max_top=5, size=size), one, ctx.per_shard(1200, 30000), "programs")
    if not ctx.out_of_time():
        flush()


MATCHERS = {}
