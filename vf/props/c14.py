"""C14 hy2py output is valid Python that behaves like the compiled AST."""
import contextlib
import io
import json
import types

from vf import progs as P
from vf import proggen as G

PROP = "C14"
RULE = (
    "Engine-A programs (the C01 language, incl. try/with/loops/lambdas/walrus/negative constants), with their variables renamed at "
    "random to Python keywords (def class lambda pass from global in is not), non-ASCII and punctuation-bearing Hy names; plus "
    "fault plans from C09 for programs with try/with. Oracle: the text hy2py prints (hy.cmdline.hy2py_worker, cross-checked against "
    "ast.unparse of hy_compile's module) must compile() as Python, and executing it must give the same result value, effect log "
    "(exactly, same order) and escaping exception as executing the compiled AST. Non-trivial = the program has a statement-producing "
    "form in an expression slot and >= 1 of {keyword-named identifier, lambda, walrus, negative constant, non-ASCII name}; distinct by source. "
    "Second leg: the programs of the other properties' generators - match forms with subjects (C08), scoping programs with let/"
    "nonlocal/global/classes/comprehensions (C06/C07), defn signatures with calls (C05), operator forms over the C03 value pool - "
    "operator / attribute / subscript / display forms over literal operands incl. negative and complex numbers, scoping programs "
    "whose pool names are renamed to Python keywords (global/nonlocal lists, class-pattern attributes) - "
    "compiled once, executed from the AST and from the printed text in the same environment; observation (result, log, module "
    "variables) and exception type must agree"
)
ASSUMPTIONS = ["CPython's compile() and exec define 'parses as Python' and the behaviour of both artefacts"]

EXOTIC = ["def", "class", "lambda", "pass", "from", "global", "in", "is", "not", "del", "assert", "λx", "ünï", "foo-bar", "done?", "*star*", "->x",
          "a!b", "_x", "x_", "𝔥𝔢𝔩𝔩𝔬", "if", "else", "while", "yield", "try", "with", "as", "import", "raise", "return", "nonlocal", "await", "async",
          "match", "case", "type", "print", "True-ish", "e", "E1"]


def rename(x, m):
    if isinstance(x, list):
        if x and isinstance(x[0], str):
            k = x[0]
            if k == "var":
                return ["var", m.get(x[1], x[1])]
            if k == "pop":
                return ["pop", m.get(x[1], x[1])]
            if k == "setv":
                return ["setv", [[m.get(n, n), rename(v, m)] for n, v in x[1]]]
            if k == "setx":
                return ["setx", m.get(x[1], x[1]), rename(x[2], m)]
            if k == "let":
                return ["let", [[m.get(n, n), rename(v, m)] for n, v in x[1]], rename(x[2], m)]
            if k == "fn":
                return ["fn", [m.get(p, p) for p in x[1]], rename(x[2], m)]
            if k == "for":
                return ["for", m.get(x[1], x[1]), rename(x[2], m), rename(x[3], m), rename(x[4], m)]
            if k == "lfor":
                return ["lfor", m.get(x[1], x[1]), rename(x[2], m), rename(x[3], m), rename(x[4], m)]
            if k == "try":
                return ["try", rename(x[1], m), [[m.get(h[0], h[0]) if h[0] else None, h[1], rename(h[2], m)] for h in x[2]], rename(x[3], m), rename(x[4], m)]
            if k == "with":
                return ["with", [[m.get(g[0], g[0]) if g[0] else None] + list(g[1:]) for g in x[1]], rename(x[2], m)]
            if k in ("lit", "eff", "raise"):
                return x
        return [rename(y, m) for y in x]
    return x


def names_of(prog):
    out = []

    def w(x):
        if isinstance(x, list):
            if x and isinstance(x[0], str):
                k = x[0]
                if k in ("var", "pop"):
                    out.append(x[1])
                    if k == "pop":
                        return
                elif k in ("setv", "let"):
                    out.extend(n for n, _ in x[1])
                elif k in ("setx", "for", "lfor"):
                    out.append(x[1])
                elif k == "fn":
                    out.extend(x[1])
                elif k == "try":
                    out.extend(h[0] for h in x[2] if h[0])
                elif k == "with":
                    out.extend(g[0] for g in x[1] if g[0])
                if k in ("lit", "eff", "raise"):
                    return
            for y in x:
                w(y)

    w(prog)
    seen = []
    for n in out:
        if n not in seen:
            seen.append(n)
    return seen


def hy2py_text(src):
    from hy.cmdline import hy2py_worker

    opts = types.SimpleNamespace(with_source=False, with_ast=False, without_python=False, output=None)
    buf = io.StringIO()
    with contextlib.redirect_stdout(buf):
        hy2py_worker(src, opts, filename="vfprog14")
    return buf.getvalue()


NOTE = {}  # side channel from check_case to the shard loop (why a case was not judged)
RESERVED = ("E", "CM", "XA", "XB", "XC", "RESULT", "MAIN")


def names_ok(prog, names):
    """the renaming the generator makes: injective, onto EXOTIC names the program and the harness do not use"""
    if not isinstance(names, dict):
        return False
    ns = names_of(prog)
    vals = list(names.values())
    return (len(set(vals)) == len(vals) and all(k in ns for k in names)
            and all(isinstance(v, str) and v in EXOTIC and v not in ns and v not in RESERVED for v in vals))


LIT_POOL = ["0", "1", "2", "-1", "-3", "-2.5", "0.5", "-0.0", "-1j", "2j", "1+2j", "-1-2j", "1e3", "-1e-3", "True", "None", '"a"', "[-1 2]", "-5", "7"]
BIG = "1" + "0" * 330  # an integer beyond the range of float
LIT_FORMS = {
    "(+ %s -" + BIG + ")": 1, "(.bit-length -" + BIG + ")": 0, "(** -" + BIG + " 2)": 0, "(- " + BIG + " %s)": 1, "[-1e400 1e400 (- 1e400) %s]": 1,
    "(.is-integer -1e400)": 0, "(** -1e400 %s)": 1,
    # names that are Python keywords, in every place a name can stand
    "(do (import os.path :as def) (. def sep))": 0, "(do (import os [path :as class]) (. class sep))": 0, "(do (import os.def) 1)": 0,
    "(do (import lambda.x) 1)": 0, "(do (import os.def [sep]) 1)": 0, "(do (import os.def :as q) 1)": 0, "(do (import .def [sep]) 1)": 0,
    "(do (defclass K [] (setv def %s)) (. (K) def))": 1, "(do (defclass K [] (setv for %s)) (.__class__ (. (K) for)))": 1,
    "(do (defclass K [] (setv None %s)) (. (K) None))": 1, "(do (defclass K [] (setv True %s)) (. (K) True))": 1,
    "(do (setv o (type \"T\" #() {\"None\" %s \"True\" 2})) [(. o None) o.True (.__class__ (. o None))])": 1,
    "((fn [#** kw] (sorted (.items kw))) :None %s :True 1 :False 2)": 1,
    "(do (setv if %s) (del if) 1)": 1, "(do (defn f [] (global while) (setv while %s)) (f) while)": 1,
    "(do (defn f [#* in] in) (f %s))": 1, "(do (for [not [%s]] (setv q not)) q)": 1, "(lfor is [%s] is)": 1, "(do (with [as (open \"/dev/null\")] as.closed))": 0,
    "(try (raise (ValueError %s)) (except [try ValueError] (str try)))": 1,
    # match patterns over literals
    "(match %s -1 \"a\" -2.5 \"b\" -0.0 \"c\" 1+2j \"d\" -1-2j \"e\" _ \"f\")": 1, "(match %s Inf 1 -Inf 2 _ 3)": 1, "(match %s NaN 1 _ 3)": 1,
    "(match [%s %s] [a #* b] [a b])": 2, "(match [%s %s] [a #* b.c] [a])": 2, "(match [%s %s] [a #* 5] [a])": 2, "(match [%s %s] [a #* \"s\"] [a])": 2, "(match {\"k\" %s} {\"k\" v #** r} [v r])": 1, "(match %s (| -1 2j) 1 _ 0)": 1,
    "((fn [#^ int #* xs] (len xs)) %s %s)": 2, "((fn [a #^ dict #** kw] [a (sorted (.items kw))]) %s :k %s)": 2, "((fn [#^ int a] a) %s)": 1,
    "((fn [a * #^ int b] [a b]) %s :b %s)": 2, "((fn [#^ int a / b] [a b]) %s %s)": 2, "((fn [#^ int #* xs #^ int #** kw] [xs (sorted kw)]) %s :z %s)": 2,
    "(** %s %s)": 2, "(** %s %s %s)": 3, "(- %s)": 1, "(- (- %s))": 1, "(+ %s %s)": 2, "(* %s %s)": 2, "(/ %s %s)": 2, "(// %s %s)": 2, "(% %s %s)": 2,
    "(. %s real)": 1, "(. %s imag)": 1, "(.conjugate %s)": 1, "(.bit-length %s)": 1, "(.is-integer %s)": 1, "(get [1 2 3] %s)": 1, "(get %s 0)": 1,
    "(cut [1 2 3] %s %s)": 2, "(< %s %s %s)": 3, "(bnot %s)": 1, "(not %s)": 1, "(abs %s)": 1, "(if %s %s %s)": 3, "(@ %s %s)": 2, "(<< %s %s)": 2,
    "((fn [#** kw] (sorted (.items kw))) :class %s :for %s :if 0)": 2, "((fn [a #** kw] [a (sorted (.items kw))]) %s :lambda %s :x 1)": 2,
    "(do (defclass K [] (defn __init_subclass__ [cls #** kw] (setv cls.kw kw))) (defclass D [K :from %s :in %s]) (sorted (.items D.kw)))": 2,
    "(lfor x [%s %s] (** x 2))": 2, "(.format \"{}\" %s)": 1, "f\"{%s !r :>8}\"": 1, "{%s %s}": 2, "#{%s %s}": 2,
}

# ---------------------------------------------------------------- programs of the other generators (C03 C05 C06 C07 C08)
def foreign_source(case):
    """-> (hy source, namespace factory(log) -> dict, observe(ns) -> text) for a case of another property's generator"""
    kind, c = case["foreign"], case["case"]
    if kind == "c08":
        from vf.props import c08

        hsrc, _psrc, _names = c08.render(c)
        subject = c["subject"]

        def env(log):
            ns = c08.base_ns(log)
            ns["S"] = c08.subject_value(subject)
            return ns

        def observe(ns):
            out = ns.get("OUT")
            return repr(out[0]) if isinstance(out, list) and out else repr(out)

        return hsrc, env, observe
    if kind == "scopes":
        from vf import scopes as S

        if S.comp_conflict(c) or S.reference(c)[0] != "ok":
            return None
        src = S.render(c)
        ren = case.get("rename") or {}
        if ren:
            # the four pool names become Python keywords / exotic names everywhere they occur (they occur only as names)
            if sorted(ren) != sorted(S.POOL + [S.GHOST])[: len(ren)] and not set(ren) <= set(S.POOL + [S.GHOST]):
                return None
            if len(set(ren.values())) != len(ren) or not all(v in EXOTIC for v in ren.values()):
                return None
            import re

            src = re.sub(r"(?<![\w-])(%s)(?![\w-])" % "|".join(sorted(ren)), lambda m: ren[m.group(1)], src)

        def env(log):
            def REC(i, v):
                log.append([i, v if isinstance(v, (int, list)) else "<fn>"])
                return v

            return dict(REC=REC)

        import hy

        names = [hy.mangle(ren.get(n, n)) for n in S.POOL + [S.GHOST]]
        return src, env, lambda ns: repr({n: ns.get(n, "<absent>") for n in names})
    if kind == "c05":
        from vf.props import c05

        lines = [c05.hy_def(c["sig"], "defn").rsplit("\n", 1)[0]]
        for i, call in enumerate(c["calls"]):
            lines.append('(setv R%d (try (repr (sorted (.items %s))) (except [TypeError] "TypeError")))' % (i, c05.hy_call(call)))
        n = len(c["calls"])
        return "\n".join(lines), (lambda log: {}), (lambda ns: repr([ns.get("R%d" % i) for i in range(n)]))
    if kind == "literals":
        # operator / attribute / subscript forms over *literal* operands (negative and complex numbers print differently from names)
        form = c["form"]
        lits = c["lits"]
        if form not in LIT_FORMS or len(lits) != LIT_FORMS[form] or not all(x in LIT_POOL for x in lits):
            return None
        src = "(setv OUT (try %s (except [e Exception] (+ \"raise:\" (. (type e) __name__)))))" % (form % tuple(lits))
        return src, (lambda log: {}), (lambda ns: "%s:%r" % (type(ns.get("OUT")).__name__, ns.get("OUT")))
    if kind == "c03":
        from vf.props import c03

        op, vals = c["op"], c["vals"]
        if op not in c03.OPS or not c03.tame(op, vals) or not (c03.OPS[op][1] <= len(vals) <= c03.OPS[op][2]):
            return None
        src = "(setv OUT (try (%s %s) (except [e Exception] (+ \"raise:\" (. (type e) __name__)))))" % (op, " ".join("v%d" % i for i in range(len(vals))))
        return src, (lambda log: {"v%d" % i: v for i, v in enumerate(c03.values(vals))}), (lambda ns: c03.canon(ns.get("OUT")))
    return None


def check_foreign(case):
    import ast
    import hy
    import hy.compiler

    try:
        fs = foreign_source(case)
    except (KeyError, IndexError, TypeError, ValueError):
        return None
    if fs is None:
        return None
    src, env, observe = fs
    kind = case["foreign"]
    mod = types.ModuleType("vfprog14f")
    import warnings

    warnings.simplefilter("ignore", SyntaxWarning)  # e.g. `-3[0]` in deliberately odd literal forms
    try:
        tree = hy.compiler.hy_compile(hy.read_many(src), mod, filename="<c14>", source=src)
        code_ast = compile(tree, "<ast>", "exec")
    except SyntaxError:
        NOTE["skipped"] = "skipped:not-accepted-by-the-compiler"
        return None
    try:
        text = ast.unparse(tree)
    except Exception as e:  # noqa
        return ("hy2py-raised:" + type(e).__name__, dict(source=src, error=str(e)[:200]))
    try:
        printed = hy2py_text(src)
    except Exception as e:  # noqa
        return ("hy2py-raised:" + type(e).__name__, dict(source=src, error=str(e)[:200]))
    if printed.rstrip("\n") != text.rstrip("\n"):
        return ("hy2py-differs-from-unparse", dict(source=src, hy2py=printed[:500], unparse=text[:500]))
    try:
        code_text = compile(printed, "<hy2py>", "exec")
    except SyntaxError as e:
        return ("hy2py-output-not-python:" + kind, dict(source=src, python=printed[:1200], error=str(e)[:200]))

    def run(code):
        log = []
        ns = dict(mod.__dict__)
        ns.update(env(log))
        out = dict(exc=None, obs=None)
        try:
            exec(code, ns)
            out["obs"] = observe(ns)
        except RecursionError:
            raise
        except Exception as x:  # noqa
            out["exc"] = type(x).__name__
        out["log"] = log
        return out

    a, t = run(code_ast), run(code_text)
    if a != t:
        return ("behaviour-differs:%s:%s" % (kind, "exception" if a["exc"] != t["exc"] else "value" if a["obs"] != t["obs"] else "log"),
                dict(source=src, python=printed[:1200], from_ast=repr(a)[:600], from_text=repr(t)[:600]))
    return None


def check_case(case):
    import ast

    if "foreign" in case:
        return check_foreign(case)
    prog = case["prog"]
    if not P.valid(prog):
        return None
    names = case.get("names", {})
    if not names_ok(prog, names):
        return None  # (a reduced case whose renaming merges two variables is a different program, possibly a non-terminating one)
    prog = rename(prog, names)
    mode = case.get("mode", "module")
    src = P.wrap_source(prog, mode)
    try:
        mod, tree = P.compile_source(src, "vfprog14")
    except SyntaxError:
        return None  # not "a program the compiler accepts"
    try:
        text = ast.unparse(tree)
    except Exception as e:  # noqa
        return ("hy2py-raised:" + type(e).__name__, dict(source=src, error=str(e)[:200]))
    try:
        printed = hy2py_text(src)
    except Exception as e:  # noqa
        return ("hy2py-raised:" + type(e).__name__, dict(source=src, error=str(e)[:200]))
    if printed.rstrip("\n") != text.rstrip("\n"):
        return ("hy2py-differs-from-unparse", dict(source=src, hy2py=printed[:500], unparse=text[:500]))
    NOTE.clear()
    try:
        code_ast = compile(tree, "<ast>", "exec")
    except SyntaxError as e:
        # Python rejects the compiled AST itself (e.g. `break` in a comprehension's iterable, which Hy moves into a
        # function): not "a program the compiler accepts". The printed text must be rejected too, nothing else is claimed.
        try:
            compile(printed, "<hy2py>", "exec")
        except SyntaxError:
            NOTE["skipped"] = "skipped:python-rejects-the-compiled-ast-and-the-text"
            return None
        return ("ast-rejected-but-text-accepted", dict(source=src, python=printed[:800], error=str(e)[:200]))
    try:
        code_text = compile(printed, "<hy2py>", "exec")
    except SyntaxError as e:
        return ("hy2py-output-not-python", dict(source=src, python=printed[:800], error=str(e)[:200]))
    fault = case.get("fault")

    def run(code):
        h = P.Harness(fault)
        ns = dict(mod.__dict__)
        ns.update(h.namespace())
        out = dict(value=None, exc=None)
        try:
            exec(code, ns)
            out["value"] = P.canon(ns.get("RESULT"))
        except (P.XA, P.XB, P.XC) as x:
            out["exc"] = "%s:%s" % (type(x).__name__, x.payload)
        except P.XRUNAWAY:
            out["exc"] = "runaway"
        except Exception as x:  # noqa
            out["exc"] = "python:" + type(x).__name__
        out["log"] = h.log
        return out

    a, t = run(code_ast), run(code_text)
    if a != t:
        return ("behaviour-differs:" + ("exception" if a["exc"] != t["exc"] else "value" if a["value"] != t["value"] else "log"),
                dict(source=src, python=printed[:800], from_ast=a, from_text=t, fault=fault))
    return None


def interesting(prog, names):
    s = json.dumps(prog)
    import keyword

    feats = []
    if any(keyword.iskeyword(v) for v in names.values()):
        feats.append("keyword-name")
    if any(not v.isascii() for v in names.values()):
        feats.append("non-ascii-name")
    if '"fn"' in s:
        feats.append("fn")
    if '"setx"' in s:
        feats.append("walrus")
    if '"lit", -' in s or '"eff", ' in s and ", -" in s:
        feats.append("negative-constant")
    return feats


def shard(ctx):
    from hypothesis import strategies as st

    strat = st.tuples(G.program(budget=40 if ctx.quick else 70, depth=4 if ctx.quick else 5), st.sampled_from(["module", "function"]),
                      st.lists(st.sampled_from(EXOTIC), min_size=0, max_size=6, unique=True), st.integers(0, 40), st.sampled_from([None, "XA", "XC"]))

    def one(t):
        prog, mode, exotic, k, cls = t
        ns = names_of(prog)
        # never rename to a name that the program or the harness already uses
        m = {}
        for old, new in zip(ns, exotic):
            if new not in ns and new not in RESERVED:
                m[old] = new
        case = dict(prog=prog, mode=mode, names=m)
        if cls and k:
            case["fault"] = [[k, cls]]
        feats = interesting(prog, m)
        src = P.wrap_source(rename(prog, m), mode)
        ctx.case(key=(src, k if cls else 0, cls), nontrivial=bool(feats), cls=feats or ["plain"], sample=src)
        r = check_case(case)
        if NOTE.get("skipped"):
            ctx.count(NOTE["skipped"])
        if r is not None:
            ctx.fail(case, r[0], r[1])

    ctx.hyp(strat, one, ctx.per_shard(1000, 100000), "programs")

    # programs of the other properties' generators: match (C08), scoping programs (C06/C07), signatures and calls (C05), operator forms (C03)
    from vf import scopes as S
    from vf.props import c03, c05, c08

    c03_case = st.sampled_from(sorted(c03.OPS)).flatmap(lambda op: st.lists(st.sampled_from(c03.pool_for(op)), min_size=c03.OPS[op][1], max_size=c03.OPS[op][2]).map(lambda vs: dict(op=op, vals=vs)))
    foreign = st.one_of(
        c08.strategies().map(lambda c: dict(foreign="c08", case=c)),
        S.program_strategy("let").map(lambda c: dict(foreign="scopes", case=c)),
        S.program_strategy("decl").map(lambda c: dict(foreign="scopes", case=c)),
        c05.strategies()[0].map(lambda c: dict(foreign="c05", case=c)),
        c03_case.map(lambda c: dict(foreign="c03", case=c)),
        st.sampled_from(sorted(LIT_FORMS)).flatmap(lambda f: st.lists(st.sampled_from(LIT_POOL), min_size=LIT_FORMS[f], max_size=LIT_FORMS[f]).map(
            lambda ls: dict(foreign="literals", case=dict(form=f, lits=ls)))),
        st.tuples(S.program_strategy("decl"), st.lists(st.sampled_from(EXOTIC), min_size=4, max_size=4, unique=True)).map(
            lambda t: dict(foreign="scopes", case=t[0], rename=dict(zip(S.POOL + [S.GHOST], t[1])))),
    )

    def one_foreign(case):
        NOTE.clear()
        r = check_case(case)
        fs = None
        try:
            fs = foreign_source(case)
        except Exception:  # noqa
            pass
        src = fs[0] if fs else "(not judged)"
        if NOTE.get("skipped") or fs is None:
            ctx.count(NOTE.get("skipped") or "skipped:foreign-case-not-a-program")
            return
        ctx.case(key=src, nontrivial=True, cls=["foreign:" + case["foreign"]], sample=src.replace("\n", " ")[:300])
        if r is not None:
            ctx.fail(case, r[0], r[1])

    # literal forms, enumerated: every pooled literal in every operand position of every form, the other positions rotating
    # through the pool (thorough: every pair for the binary forms)
    k = 0
    for f in sorted(LIT_FORMS):
        n = LIT_FORMS[f]
        combos = [[]] if n == 0 else []
        for pos in range(n):
            for i, lit in enumerate(LIT_POOL):
                combos.append([lit if q == pos else LIT_POOL[(i * 7 + q * 3 + len(f)) % len(LIT_POOL)] for q in range(n)])
        if not ctx.quick and n == 2:
            combos = [[a, b] for a in LIT_POOL for b in LIT_POOL]
        for lits in combos:
            k += 1
            if k % ctx.n == ctx.k:
                one_foreign(dict(foreign="literals", case=dict(form=f, lits=lits)))

    ctx.hyp(foreign, one_foreign, ctx.per_shard(1400, 150000), "foreign")


def nan_literal_pattern(case, bucket, detail):
    """Root cause 'a NaN literal used as a match pattern has no spelling in Python': the printed text fails to parse, and it
    parses once every such pattern (ast.unparse writes NaN as (1e309-1e309)) is replaced by a dotted-name value pattern."""
    if not bucket.startswith("hy2py-output-not-python") or not isinstance(detail, dict):
        return False
    try:
        text = hy2py_text(detail["source"])
    except Exception:  # noqa
        return False
    if "(1e309-1e309)" not in text:
        return False
    try:
        compile(text.replace("(1e309-1e309)", "float.NAN"), "<hy2py>", "exec")
    except SyntaxError:
        return False
    return True


MATCHERS = {"nan_literal_pattern": nan_literal_pattern}
