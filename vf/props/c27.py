"""C27 hy.repr round-trips values of the documented types (incl. self-referential containers)."""
import json
import math

PROP = "C27"
RULE = (
    "values are tagged JSON trees drawn by a recursive Hypothesis composite over None, bool, int (to 10**39), float (any bit pattern "
    "plus nan/inf/-0.0/subnormal/1e16/1e22), complex (same parts), str (all code points incl. surrogates, both quotes, backslashes, "
    "controls), bytes, bytearray, Keyword (names the Keyword constructor accepts), Fraction, range, slice (any three values), list, "
    "tuple, dict, set, frozenset, deque (with and without maxlen), OrderedDict, Counter, defaultdict(None | builtin type), ChainMap "
    "(of any of the mapping types), nested to depth 3 (quick) / 4 (thorough); hashed positions draw only hashable shapes; an element "
    "may be the *same object* twice ('twice'); half of the structured cases may place back-references ('cycle', k = k-th enclosing container) in "
    "non-hashed slots (through tuples and slices too, which are closed by patching a mutable descendant). Oracle, acyclic: "
    "y = hy.eval(hy.read(hy.repr(x)), {documented constructors}); at every node type(y) is type(x) and y == x with Python's equality "
    "of that type (NaN equals NaN; set/dict order ignored, OrderedDict order kept; Counter, ChainMap, range, deque compare as their "
    "== does), and a defaultdict keeps its default_factory. Oracle, cyclic: hy.repr returns, and its text is exactly the text of the "
    "same value with every back-reference replaced by a unique integer, with that integer replaced by the placeholder registered "
    "for the referenced container's type ('...' when none); the acyclic variant must itself round-trip; afterwards [[1]] prints as "
    "[[1]]. Non-trivial = depth >= 2, or a type beyond the literal ones (None/bool/int/float/complex/str/bytes), or a cycle; "
    "distinct by the JSON tree"
)
ASSUMPTIONS = [
    "equality is Python's == of the value's type, applied recursively with type identity at every node (each nested value is itself a value of the property's domain)",
    "a defaultdict's default_factory is part of the value (== ignores it, but the property names 'defaultdict of a builtin factory' as a value that round-trips)",
    "the sign of a zero and a deque's maxlen are not compared (== ignores both); they are counted in the class histogram when lost",
    "the documented placeholder of a type is the one registered for it through hy.repr-register's placeholder argument, '...' otherwise (docstring of hy.repr-register)",
    "the constructor names hy.repr prints (Fraction, deque, OrderedDict, Counter, defaultdict, ChainMap) are bound in the evaluation namespace, as in tests/native_tests/hy_repr.hy",
    "ints stay below CPython's int->str digit limit; Keyword names are those hy.models.Keyword() accepts",
]

BUDGET_QUICK = 300  # case counts bound the run; the clock only guards against a loaded machine
BUDGET_THOROUGH = 2400

SENT = 10 ** 40  # back-references become SENT+i in the acyclic variant; generated ints stay below 10**39
FACTORIES = ["int", "float", "complex", "bool", "str", "bytes", "bytearray", "list", "tuple", "dict", "set", "frozenset"]
MAPS = ("dict", "odict", "counter", "ddict", "chainmap")
FRAMES = ("list", "tuple", "slice", "deque") + MAPS  # containers a back-reference can point at
MUTABLE = ("list", "deque") + MAPS
LITERAL = ("none", "bool", "int", "float", "complex", "str", "bytes")


class BadCase(ValueError):
    """The JSON tree is not a well-formed case (harness-side problem, never a verdict)."""


# ---------------------------------------------------------------------------
# tagged tree -> Python value


def _dec(t):
    if t in ("nan", "inf", "-inf"):
        return float(t)
    return float.fromhex(t)


def _enc(x):
    return "nan" if math.isnan(x) else "inf" if x == math.inf else "-inf" if x == -math.inf else x.hex()


def _types():
    import collections
    import fractions

    from hy.models import Keyword

    return dict(list=list, tuple=tuple, slice=slice, deque=collections.deque, dict=dict, odict=collections.OrderedDict,
                counter=collections.Counter, ddict=collections.defaultdict, chainmap=collections.ChainMap,
                Keyword=Keyword, Fraction=fractions.Fraction)


class _Frame:
    __slots__ = ("kind", "obj", "patches")

    def __init__(self, kind, obj):
        self.kind, self.obj, self.patches = kind, obj, []


class _Hole:
    __slots__ = ("frame",)

    def __init__(self, frame):
        self.frame = frame


class Builder:
    """Builds the value a tree denotes; 'cycle' nodes become real back-references."""

    def __init__(self):
        self.T = _types()
        self.stack = []
        self.hashed = 0

    def top(self, n):
        v = self.build(n)
        if self.stack or isinstance(v, _Hole):
            raise BadCase("unbalanced")
        return v

    def seq(self, kids):
        out = []
        for c in kids:
            if c[0] == "twice":
                o = self.build(c[1])
                out += [o, o]
            else:
                out.append(self.build(c))
        return out

    def _leaf(self, n):
        tag = n[0]
        if tag == "none":
            return None
        if tag == "bool":
            if not isinstance(n[1], bool):
                raise BadCase("bool")
            return n[1]
        if tag == "int":
            return int(n[1])
        if tag == "float":
            return _dec(n[1])
        if tag == "complex":
            return complex(_dec(n[1]), _dec(n[2]))
        if tag == "str":
            if not isinstance(n[1], str):
                raise BadCase("str")
            return n[1]
        if tag == "bytes":
            return bytes.fromhex(n[1])
        if tag == "bytearray":
            return bytearray(bytes.fromhex(n[1]))
        if tag == "kw":
            return self.T["Keyword"](n[1])
        if tag == "frac":
            return self.T["Fraction"](int(n[1]), int(n[2]))
        if tag == "range":
            return range(int(n[1]), int(n[2]), int(n[3]))
        raise BadCase("unknown tag %r" % (tag,))

    def _register(self, shell, setter_for):
        for key, o in setter_for:
            if isinstance(o, _Hole):
                o.frame.patches.append((shell, key, o))

    def build(self, n):
        if not isinstance(n, list) or not n or not isinstance(n[0], str):
            raise BadCase("node %r" % (n,))
        tag = n[0]
        if tag == "cycle":
            k = n[1]
            if isinstance(k, bool) or not isinstance(k, int) or not 0 <= k < len(self.stack) or self.hashed:
                raise BadCase("cycle index")
            fr = self.stack[-1 - k]
            if fr.obj is not None:
                return fr.obj
            if self.stack[-1].kind not in MUTABLE or self.stack[-1].kind == "chainmap":
                raise BadCase("back-reference to an immutable container must sit directly in a mutable one")
            return _Hole(fr)
        if tag in ("list", "deque"):
            if tag == "deque":
                ml = n[2]
                if ml is not None and (isinstance(ml, bool) or not isinstance(ml, int) or ml < sum(2 if c[0] == "twice" else 1 for c in n[1])):
                    raise BadCase("maxlen")
                shell = self.T["deque"](maxlen=ml)
            else:
                shell = []
            self.stack.append(_Frame(tag, shell))
            kids = self.seq(n[1])
            self.stack.pop()
            shell.extend(kids)
            self._register(shell, list(enumerate(kids)))
            return shell
        if tag in ("tuple", "slice"):
            fr = _Frame(tag, None)
            self.stack.append(fr)
            kids = self.seq(n[1]) if tag == "tuple" else [self.build(c) for c in n[1:4]]
            self.stack.pop()
            if any(isinstance(o, _Hole) for o in kids) or (tag == "slice" and len(n) != 4):
                raise BadCase("hole directly in an immutable container")
            try:
                obj = tuple(kids) if tag == "tuple" else slice(*kids)
            except TypeError as e:
                raise BadCase(str(e))
            fr.obj = obj
            for shell, key, hole in fr.patches:
                if shell[key] is hole:  # (a later pair with an equal key may have overwritten the slot)
                    shell[key] = obj
            return obj
        if tag in ("set", "frozenset"):
            self.hashed += 1
            kids = [self.build(c) for c in n[1]]
            self.hashed -= 1
            try:
                return set(kids) if tag == "set" else frozenset(kids)
            except TypeError as e:
                raise BadCase(str(e))
        if tag in ("dict", "odict", "counter", "ddict"):
            if tag == "ddict":
                if n[1] is not None and n[1] not in FACTORIES:
                    raise BadCase("factory")
                import builtins

                shell = self.T["ddict"](None if n[1] is None else getattr(builtins, n[1]))
                pairs = n[2]
            else:
                shell = self.T[tag]()
                pairs = n[1]
            self.stack.append(_Frame(tag, shell))
            for k, v in pairs:
                self.hashed += 1
                kk = self.build(k)
                self.hashed -= 1
                vv = self.build(v)
                try:
                    shell[kk] = vv
                except TypeError as e:
                    raise BadCase(str(e))
                if isinstance(vv, _Hole):
                    vv.frame.patches.append((shell, kk, vv))
            self.stack.pop()
            return shell
        if tag == "chainmap":
            shell = self.T["chainmap"]()
            self.stack.append(_Frame(tag, shell))
            for i, m in enumerate(n[1]):
                if m[0] not in MAPS:
                    raise BadCase("ChainMap of a non-mapping")
                if m[0] == "ddict" and m[1] is not None and i != len(n[1]) - 1:
                    # Python's own ChainMap lookup (and so ==) would call the factory for keys of later maps
                    raise BadCase("defaultdict with a factory must be the last map of a ChainMap")
            maps = [self.build(m) for m in n[1]]
            self.stack.pop()
            if maps:
                shell.maps[:] = maps
            return shell
        return self._leaf(n)


def acyclic_tree(n, frames=()):
    """(tree with each ['cycle', k] replaced by a unique int node, [(token text, kind of the referenced container)])."""
    tokens = []

    def go(n, frames):
        tag = n[0]
        if tag == "cycle":
            k = n[1]
            if isinstance(k, bool) or not isinstance(k, int) or not 0 <= k < len(frames):
                raise BadCase("cycle index")
            tok = str(SENT + len(tokens))
            tokens.append((tok, frames[-1 - k]))
            return ["int", tok]
        if tag == "twice":
            return ["twice", go(n[1], frames)]
        if tag in ("list", "tuple", "set", "frozenset", "chainmap"):
            f = frames + (tag,) if tag in FRAMES else frames
            return [tag, [go(c, f) for c in n[1]]]
        if tag == "deque":
            return [tag, [go(c, frames + (tag,)) for c in n[1]], n[2]]
        if tag == "slice":
            return [tag] + [go(c, frames + (tag,)) for c in n[1:4]]
        if tag in ("dict", "odict", "counter"):
            return [tag, [[go(k, frames + (tag,)), go(v, frames + (tag,))] for k, v in n[1]]]
        if tag == "ddict":
            return [tag, n[1], [[go(k, frames + (tag,)), go(v, frames + (tag,))] for k, v in n[2]]]
        return n

    return go(n, frames), tokens


def children(n):
    tag = n[0]
    if tag == "twice":
        return [n[1]]
    if tag in ("list", "tuple", "set", "frozenset", "chainmap", "deque"):
        return list(n[1])
    if tag == "slice":
        return list(n[1:4])
    if tag in ("dict", "odict", "counter"):
        return [x for kv in n[1] for x in kv]
    if tag == "ddict":
        return [x for kv in n[2] for x in kv]
    return []


def walk(n, depth=0):
    yield n, depth
    for c in children(n):
        yield from walk(c, depth if n[0] == "twice" else depth + 1)


# ---------------------------------------------------------------------------
# equality "as == of the type, recursively, type-exact, NaN == NaN"


def _ff(x):
    return "nan" if math.isnan(x) else x


def fp(v):
    """Hashable fingerprint: fp(a) == fp(b) iff a and b have the same type and are equal in the sense of RULE."""
    from collections import ChainMap, Counter, OrderedDict, defaultdict, deque
    from fractions import Fraction

    from hy.models import Keyword

    t = type(v)
    if v is None or t in (bool, int, str, bytes):
        return (t.__name__, v)
    if t is float:
        return ("float", _ff(v))
    if t is complex:
        return ("complex", _ff(v.real), _ff(v.imag))
    if t is bytearray:
        return ("bytearray", bytes(v))
    if t is Keyword:
        return ("kw", v.name)
    if t is Fraction:
        return ("frac", v.numerator, v.denominator)
    if t is range:  # == of ranges: same sequence (len() itself overflows for huge ranges)
        n = _rlen(v)
        return ("range", n, v.start if n else None, v.step if n > 1 else None)
    if t is slice:
        return ("slice", fp(v.start), fp(v.stop), fp(v.step))
    if t in (list, tuple, deque):
        return (t.__name__, tuple(fp(e) for e in v))
    if t in (set, frozenset):
        return (t.__name__, _multiset(fp(e) for e in v))
    if t is OrderedDict:
        return ("odict", tuple((fp(k), fp(x)) for k, x in v.items()))
    if t is Counter:
        return ("counter", _multiset((fp(k), fp(x)) for k, x in v.items() if not _is_zero(x)))
    if t is dict:
        return ("dict", _multiset((fp(k), fp(x)) for k, x in v.items()))
    if t is defaultdict:
        return ("ddict", _multiset((fp(k), fp(x)) for k, x in v.items()))
    if t is ChainMap:  # == of ChainMaps compares the flattened views
        return ("chainmap", _multiset((fp(k), fp(x)) for k, x in _flatten(v).items()))
    return ("other", t.__module__ + "." + t.__qualname__, id(v))


def _rlen(r):
    a, b, s = r.start, r.stop, r.step
    return max(0, (b - a + s - 1) // s) if s > 0 else max(0, (a - b - s - 1) // -s)


def _flatten(cm):
    """A ChainMap's view (first map that has the key wins) without __getitem__, which would insert into defaultdict maps."""
    from collections import ChainMap

    out = {}
    for m in reversed(cm.maps):
        for k, x in (_flatten(m) if type(m) is ChainMap else m).items():
            out.pop(k, None)
            out[k] = x
    return out


def _is_zero(x):
    try:
        return bool(x == 0)
    except Exception:
        return False


def _multiset(it):
    c = {}
    for f in it:
        c[f] = c.get(f, 0) + 1
    return frozenset(c.items())


def diff(x, y, path, notes):
    """None, or (kind, path, expected, got) for the first disagreement."""
    from collections import OrderedDict, defaultdict, deque

    if type(x) is not type(y):
        return ("type-differs", path, type(x).__name__, type(y).__name__ + " " + _short(y))
    t = type(x)
    if t is float and x == 0 and y == 0 and math.copysign(1, x) != math.copysign(1, y):
        notes.append("observed:zero-sign-changed")
    if t in (list, tuple, deque):
        if t is deque and x.maxlen != y.maxlen:
            notes.append("observed:deque-maxlen-dropped")
        if len(x) != len(y):
            return ("value-differs", path + [t.__name__], "%d elements" % len(x), "%d elements: %s" % (len(y), _short(y)))
        for i, (a, b) in enumerate(zip(x, y)):
            d = diff(a, b, path + [t.__name__], notes)
            if d:
                return d
        return None
    if t is slice:
        for a, b in ((x.start, y.start), (x.stop, y.stop), (x.step, y.step)):
            d = diff(a, b, path + ["slice"], notes)
            if d:
                return d
        return None
    if t is OrderedDict and len(x) == len(y):
        for (ka, va), (kb, vb) in zip(x.items(), y.items()):
            d = diff(ka, kb, path + ["odict-key"], notes) or diff(va, vb, path + ["odict"], notes)
            if d:
                return d
        return None
    fx = fp(x)  # x is ours and well-formed; y comes out of the code under test and may be anything of the right type
    try:
        fy = fp(y)
    except Exception as e:  # noqa: e.g. a ChainMap whose maps are not mappings
        fy = ("not-comparable", type(e).__name__)
    if fx != fy:
        return ("value-differs", path + [t.__name__], _short(x), _short(y))
    if t is defaultdict and x.default_factory is not y.default_factory:
        return ("factory-differs", path + ["defaultdict"], repr(x.default_factory), repr(y.default_factory))
    return None


def _short(v):
    try:
        s = repr(v)
    except Exception as e:  # noqa
        s = "<unprintable %s>" % type(e).__name__
    return s if len(s) <= 300 else s[:300] + "..."


# ---------------------------------------------------------------------------
# the oracle


def _norm(msg):
    import re

    return re.sub(r"[0-9]+", "N", msg)[:70]


def _THIS():
    import sys

    return sys.modules[__name__]


def namespace():
    T = _types()
    return dict(Fraction=T["Fraction"], deque=T["deque"], OrderedDict=T["odict"], Counter=T["counter"], defaultdict=T["ddict"], ChainMap=T["chainmap"])


def roundtrip(x, notes):
    """None or (kind, where, detail) for an acyclic value."""
    import hy

    try:
        text = hy.repr(x)
    except Exception as e:  # noqa: any exception of the printer is the finding
        return ("repr-raised:" + type(e).__name__, None, dict(error=_norm(str(e)), value=_short(x)))
    if not isinstance(text, str):
        return ("repr-not-a-string", None, dict(value=_short(x), got=_short(text)))
    try:
        model = hy.read(text)
    except Exception as e:  # noqa
        return ("reread-raised", None, dict(text=text[:400], error=type(e).__name__ + ": " + str(e)[:200], value=_short(x)))
    try:
        y = hy.eval(model, namespace(), module=_THIS())  # module = the calling module, which is also the default (spares hy.eval a stack walk)
    except Exception as e:  # noqa
        return ("eval-raised", None, dict(text=text[:400], error=type(e).__name__ + ": " + str(e)[:200], value=_short(x)))
    d = diff(x, y, [], notes)
    if d:
        kind, path, want, got = d
        return (kind, path, dict(text=text[:400], at="/".join(path) or "top", expected=want, got=got, value=_short(x)))
    return None


def _refine(n):
    """Construct name of the smallest failing subtree (root-cause proxy for the bucket)."""
    tag = n[0]
    if tag == "ddict":
        return "defaultdict(%s)" % ("None" if n[1] is None else "builtin-type")
    if tag == "slice":
        return "slice(keyword-part)" if any(c[0] == "kw" for c in n[1:4]) else "slice"
    if tag == "deque":
        return "deque" if n[2] is None else "deque(maxlen)"
    if tag == "float":
        return "float:" + (n[1] if n[1] in ("nan", "inf", "-inf") else "finite")
    return tag


def localise(tree):
    """Descend to a smallest subtree that still fails on its own; (subtree, failure)."""
    notes = []
    res = roundtrip(Builder().top(tree), notes)
    if res is None:
        return None
    node = tree
    while True:
        for c in children(node):
            if c[0] == "twice":
                c = c[1]
            r = roundtrip(Builder().top(c), notes)
            if r is not None:
                node, res = c, r
                break
        else:
            return node, res


def placeholder_for(kind):
    import hy.core.hy_repr as R

    T = _types()
    entry = R._registry.get(T[kind])
    p = entry[1] if entry is not None else None
    return "..." if p is None else p


def _nan_in_set(tree):
    """A set holding a NaN next to something else iterates in an order that depends on the NaN object's address."""
    for n, _ in walk(tree):
        if n[0] in ("set", "frozenset") and len(n[1]) > 1 and any(m[0] in ("float", "complex") and "nan" in m[1:] for c in n[1] for m, _ in walk(c)):
            return True
    return False


def _same_up_to_set_order(a, b):
    """Texts equal as Hy forms once the elements of every #{...} are sorted (only used when _nan_in_set)."""
    import hy
    import hy.models as M

    def canon(m):
        if isinstance(m, M.Sequence):
            kids = [canon(c) for c in m]
            if isinstance(m, M.Set):
                kids.sort()
            return "(%s %s)" % (type(m).__name__, " ".join(kids))
        for t, f in ((M.String, str), (M.Bytes, bytes), (M.Integer, int), (M.Float, float), (M.Complex, complex), (M.Symbol, str), (M.Keyword, str)):
            if isinstance(m, t):
                return "%s:%r" % (t.__name__, f(m))
        raise BadCase("unexpected model %r" % (m,))

    try:
        ma = list(hy.read_many(a))
    except Exception:  # noqa: an unreadable print-out is not "the same text"
        return False
    return [canon(m) for m in ma] == [canon(m) for m in hy.read_many(b)]


def _expected_cyclic_text(text, tokens):
    """Replace each sentinel in the acyclic print-out by the placeholder of the container it stands for;
    also the (start, end, kind) span of every placeholder in the result, in text order."""
    found = []
    for tok, kind in tokens:
        start = 0
        while True:
            i = text.find(tok, start)
            if i < 0:  # (absent altogether when a later pair with an equal key overwrote the back-reference)
                break
            found.append((i, tok, kind))
            start = i + len(tok)
    out, spans, pos = [], [], 0
    n = 0
    for i, tok, kind in sorted(found):
        out.append(text[pos:i])
        n += len(out[-1])
        p = placeholder_for(kind)
        spans.append((n, n + len(p), kind))
        out.append(p)
        n += len(p)
        pos = i + len(tok)
    out.append(text[pos:])
    return "".join(out), spans


def check_case(case):
    import hy

    tree = case["v"]
    flat, tokens = acyclic_tree(tree)
    notes = []
    xa = Builder().top(flat)
    res = roundtrip(xa, notes)
    if res is not None:
        node, res = localise(flat) or (flat, res)
        kind, path, detail = res
        detail["smallest_failing_subvalue"] = json.dumps(node)[:300]
        return ("%s:%s" % (kind, _refine(node)), detail)
    if tokens:
        xc = Builder().top(tree)
        expected, spans = _expected_cyclic_text(hy.repr(xa), tokens)
        try:
            got = hy.repr(xc)
        except RecursionError:
            return ("cycle-print-recursed", dict(expected=expected[:400], back_references_to=sorted({k for _, k in tokens})))
        except Exception as e:  # noqa
            return ("cycle-print-raised:" + type(e).__name__, dict(expected=expected[:400], error=_norm(str(e))))
        if got != expected and not (isinstance(got, str) and _nan_in_set(tree) and _same_up_to_set_order(got, expected)):
            g = got if isinstance(got, str) else _short(got)
            i = next((j for j, (a, b) in enumerate(zip(g, expected)) if a != b), min(len(g), len(expected)))
            kind = next(("at-reference-to-" + k for a, b, k in spans if b > i), "after-last-placeholder")
            return ("cycle-text-differs:" + kind, dict(expected=expected[:400], got=g[:400], first_difference_at=i))
    try:
        canary = hy.repr([[1]])
    except Exception as e:  # noqa
        canary = "raised " + type(e).__name__
    if canary != "[[1]]":
        return ("state-leak-after-print", dict(canary_expected="[[1]]", canary_got=canary))
    case_notes = case.get("_notes")
    if isinstance(case_notes, list):
        case_notes.extend(notes)
    return None


# ---------------------------------------------------------------------------
# generator


def strategies(max_depth):
    from hypothesis import strategies as st

    from hy.models import Keyword

    special_f = [math.nan, math.inf, -math.inf, -0.0, 0.0, 5e-324, 2.2250738585072014e-308, 1.7976931348623157e308, 1e16, 1e22, 1e-5, 1e-4,
                 0.1, 1e23, 123456789012345680.0, 9007199254740993.0, -1.5, 1.0, 100.0, 1e100, -1e-100]
    fl = st.one_of(st.sampled_from(special_f), st.floats(allow_nan=True, allow_infinity=True, allow_subnormal=True), st.floats(width=16))
    i_small = st.integers(-3, 12)
    i_any = st.one_of(i_small, st.integers(-(2 ** 70), 2 ** 70), st.integers(-(10 ** 39) + 1, 10 ** 39 - 1), st.sampled_from([2 ** 63, -(2 ** 63), 2 ** 64, 10 ** 16, -1, 0]))
    spice = "\"'\\\n\r\t\x00\x1b\x7f\x85\xa0  𐏿\udc80{}#;~`()[] :.\U0010ffff\U0001f600̀﻿​\xe9\xdfİab0"
    ch = st.one_of(st.sampled_from(spice), st.characters(exclude_categories=()), st.characters(max_codepoint=127, exclude_categories=()))
    text = st.one_of(st.text(st.sampled_from(spice), max_size=6), st.text(ch, max_size=8), st.text(st.characters(exclude_categories=()), max_size=5),
                     st.text(st.sampled_from("\"'\\a"), min_size=1, max_size=5))
    bspice = st.sampled_from(list(b"\"'\\\n\r\t\x00\x7f\x80\xff ab0{}"))
    byts = st.lists(st.one_of(bspice, st.integers(0, 255)), max_size=8).map(lambda xs: bytes(xs).hex())
    kwch = st.one_of(st.sampled_from("abcxyzABC019-_?!*+<>=/&%$^|@#:,\\\xe9λ♥"), st.characters(exclude_categories=("Cs",)))

    def kw_ok(s):
        try:
            Keyword(s)
            return True
        except ValueError:
            return False

    kw = st.one_of(st.sampled_from(["a", "foo", "", "foo-bar", "a?", "is_ok", "1", "-", ":x", "#", "λ"]), st.text(kwch, max_size=5).filter(kw_ok))

    leaf_none = st.just(["none"])
    leaf_bool = st.booleans().map(lambda b: ["bool", b])
    leaf_int = i_any.map(lambda i: ["int", str(i)])
    leaf_float = fl.map(lambda x: ["float", _enc(x)])
    leaf_complex = st.tuples(fl, fl).map(lambda p: ["complex", _enc(p[0]), _enc(p[1])])
    leaf_str = text.map(lambda s: ["str", s])
    leaf_bytes = byts.map(lambda h: ["bytes", h])
    leaf_bytearray = byts.map(lambda h: ["bytearray", h])
    leaf_kw = kw.map(lambda s: ["kw", s])
    leaf_frac = st.tuples(i_any, st.one_of(st.integers(1, 12), st.integers(1, 2 ** 70))).map(lambda p: ["frac", str(p[0]), str(p[1])])
    step = st.one_of(st.sampled_from([1, 1, -1, 2, -2, 3]), st.integers(-(2 ** 65), 2 ** 65).filter(bool))
    r_int = st.one_of(i_small, st.integers(-(2 ** 66), 2 ** 66))
    leaf_range = st.one_of(
        st.tuples(st.just(0), r_int, st.just(1)), st.tuples(r_int, r_int, st.just(1)), st.tuples(st.just(0), r_int, step), st.tuples(r_int, r_int, step)
    ).map(lambda p: ["range", str(p[0]), str(p[1]), str(p[2])])

    LS = dict(none=leaf_none, bool=leaf_bool, int=leaf_int, float=leaf_float, complex=leaf_complex, str=leaf_str, bytes=leaf_bytes,
              bytearray=leaf_bytearray, kw=leaf_kw, frac=leaf_frac, range=leaf_range)
    # (st.one_of drops repeated branches, so weights are spelled out as a list of names to sample from)
    hash_leaves = ["none", "bool"] + ["int"] * 3 + ["float"] * 3 + ["complex"] * 2 + ["str"] * 5 + ["bytes"] * 2 + ["kw"] * 2 + ["frac", "range", "range"]
    leaves = hash_leaves + ["bytearray", "bytearray"]
    containers = ["list", "list", "tuple", "dict", "dict", "set", "frozenset", "deque", "odict", "counter", "ddict", "ddict", "chainmap", "slice", "slice"]

    @st.composite
    def value(draw, depth, frames, hashed, cyc):
        if cyc and frames and not hashed and frames[-1] != "chainmap" and draw(st.integers(0, 99)) < 24:
            ok = [k for k in range(len(frames)) if frames[-1 - k] in MUTABLE or frames[-1] in MUTABLE]
            if ok:
                return ["cycle", draw(st.sampled_from(ok))]
        if depth >= max_depth or draw(st.integers(0, 99)) < (18, 38, 55, 70, 100)[min(depth, 4)]:
            return draw(LS[draw(st.sampled_from(hash_leaves if hashed else leaves))])
        if hashed:
            tag = draw(st.sampled_from(["tuple", "frozenset"]))
        else:
            tag = draw(st.sampled_from(containers))
        width = 4 if depth < 2 else 3

        def kids(f, h, lo=0):
            out = []
            for _ in range(draw(st.integers(lo, width))):
                c = draw(value(depth + 1, f, h, cyc))
                if not h and c[0] in ("list", "dict", "tuple", "deque", "set", "str", "float") and draw(st.integers(0, 99)) < 9:
                    c = ["twice", c]
                out.append(c)
            return out

        def pairs(f, val=None):
            return [[draw(value(depth + 1, f, True, False)), draw(val if val is not None else value(depth + 1, f, hashed, cyc))]
                    for _ in range(draw(st.integers(0, width)))]

        f = frames + (tag,)
        if tag == "list":
            return ["list", kids(f, False)]
        if tag == "tuple":
            return ["tuple", kids(f, hashed)]
        if tag == "set":
            return ["set", [draw(value(depth + 1, frames, True, False)) for _ in range(draw(st.integers(0, width)))]]
        if tag == "frozenset":
            return ["frozenset", [draw(value(depth + 1, frames, True, False)) for _ in range(draw(st.integers(0, width)))]]
        if tag == "deque":
            ks = kids(f, False)
            n = sum(2 if c[0] == "twice" else 1 for c in ks)
            return ["deque", ks, draw(st.sampled_from([None, None, n, n + 2]))]
        if tag == "slice":
            part = lambda: draw(st.one_of(leaf_none, leaf_int, leaf_kw, value(depth + 1, f, False, cyc)))
            return ["slice", part(), part(), part()]
        if tag == "dict":
            return ["dict", pairs(f)]
        if tag == "odict":
            return ["odict", pairs(f)]
        if tag == "counter":
            cnt = st.one_of(st.integers(-3, 9).map(lambda i: ["int", str(i)]), leaf_int, leaf_float, leaf_frac, value(depth + 1, f, False, cyc))
            return ["counter", pairs(f, cnt)]
        if tag == "ddict":
            return ["ddict", draw(st.sampled_from([None] + FACTORIES + ["list", "int"])), pairs(f)]
        if tag == "chainmap":
            maps = []
            nm = draw(st.integers(1, 3))
            for mi in range(nm):
                mt = draw(st.sampled_from(["dict", "dict", "dict", "odict", "counter", "ddict", "chainmap"]))
                g = f + (mt,)
                if mt == "chainmap":
                    maps.append(["chainmap", [["dict", pairs(g + ("dict",))] for _ in range(draw(st.integers(1, 2)))]])
                elif mt == "ddict":
                    maps.append(["ddict", draw(st.sampled_from([None] + (FACTORIES if mi == nm - 1 else []))), pairs(g)])
                else:
                    maps.append([mt, pairs(g)])
            return ["chainmap", maps]
        raise AssertionError(tag)

    top = st.one_of(
        value(0, (), False, False), value(0, (), False, True).map(lambda t: t), value(0, (), False, True),
        st.sampled_from(leaves).flatmap(lambda k: LS[k]),  # bare leaves: escaping and number formatting on their own
    )
    return top


def classify(tree):
    tags, depth, flags = set(), 0, set()
    for n, d in walk(tree):
        tag = n[0]
        depth = max(depth, d)
        tags.add(tag)
        if tag == "float" or tag == "complex":
            for p in n[1:]:
                if p in ("nan", "inf", "-inf"):
                    flags.add("float:" + p)
                elif _dec(p) == 0 and math.copysign(1, _dec(p)) < 0:
                    flags.add("float:-0.0")
                elif 0 < abs(_dec(p)) < 2.2250738585072014e-308:
                    flags.add("float:subnormal")
        elif tag == "str":
            s = n[1]
            if any(0xD800 <= ord(c) <= 0xDFFF for c in s):
                flags.add("str:surrogate")
            if "'" in s and '"' in s:
                flags.add("str:both-quotes")
            elif '"' in s:
                flags.add("str:double-quote")
            if "\\" in s:
                flags.add("str:backslash")
            if any(ord(c) > 0xFFFF for c in s):
                flags.add("str:astral")
        elif tag in ("bytes", "bytearray"):
            b = bytes.fromhex(n[1])
            if b'"' in b and b"'" in b:
                flags.add("bytes:both-quotes")
            if any(c > 127 for c in b):
                flags.add("bytes:high")
        elif tag == "int" and abs(int(n[1])) >= 2 ** 64:
            flags.add("int:big")
        elif tag == "deque" and n[2] is not None:
            flags.add("deque:maxlen")
        elif tag == "ddict":
            flags.add("ddict:factory" if n[1] else "ddict:None")
        elif tag == "slice":
            if any(c[0] == "kw" for c in n[1:4]):
                flags.add("slice:keyword-part")
            if any(c[0] not in ("none", "int") for c in n[1:4]):
                flags.add("slice:non-int-part")
    return tags, depth, flags


def shard(ctx):
    S = strategies(3 if ctx.quick else 4)

    def one(tree):
        tags, depth, flags = classify(tree)
        _, tokens = acyclic_tree(tree)
        cls = sorted("type:" + t for t in tags if t not in ("cycle", "twice")) + sorted(flags) + ["depth:%d" % depth]
        if "twice" in tags:
            cls.append("shared-object-twice")
        if tokens:
            cls.append("cyclic")
            cls += sorted({"cycle-to:" + k for _, k in tokens})
        else:
            cls.append("acyclic")
        key = json.dumps(tree)
        nontrivial = depth >= 2 or bool(tokens) or any(t not in LITERAL and t not in ("cycle", "twice") for t in tags)
        case = dict(v=tree)
        probe = dict(v=tree, _notes=[])
        r = check_case(probe)
        cls += sorted(set(probe["_notes"]))
        ctx.case(key=key, nontrivial=nontrivial, cls=cls, sample=key[:300])
        if r is not None:
            ctx.fail(case, r[0], r[1])

    # in chunks, each with its own derived seed: once the time budget is hit the runner only skips the bodies of the
    # remaining examples of the current ctx.hyp call, it still generates them
    todo, i = ctx.per_shard(5000, 500000), 0
    while todo > 0 and not ctx.out_of_time():
        n = min(todo, 1000)
        ctx.hyp(S, one, n, "values-%d" % i)
        todo, i = todo - n, i + 1


# ---------------------------------------------------------------------------
# structure-aware shrinking of the tagged tree


def _paths(n, path=()):
    yield path
    tag = n[0]
    if tag == "twice":
        yield from _paths(n[1], path + (1,))
    elif tag in ("list", "tuple", "set", "frozenset", "chainmap", "deque"):
        for i, c in enumerate(n[1]):
            yield from _paths(c, path + (1, i))
    elif tag == "slice":
        for i in (1, 2, 3):
            yield from _paths(n[i], path + (i,))
    elif tag in ("dict", "odict", "counter", "ddict"):
        j = 2 if tag == "ddict" else 1
        for i, (k, v) in enumerate(n[j]):
            yield from _paths(k, path + (j, i, 0))
            yield from _paths(v, path + (j, i, 1))


def _get(n, path):
    for p in path:
        n = n[p]
    return n


def _put(n, path, v):
    if not path:
        return v
    n = list(n)
    n[path[0]] = _put(n[path[0]], path[1:], v)
    return n


def _variants(n):
    tag = n[0]
    for c in children(n):
        yield c
    if tag == "twice":
        return
    if tag in ("list", "tuple", "set", "frozenset", "chainmap", "deque"):
        for i in range(len(n[1])):
            m = list(n)
            m[1] = n[1][:i] + n[1][i + 1:]
            if tag == "deque" and m[2] is not None:
                m[2] = None
            if tag != "chainmap" or m[1]:
                yield m
        if tag == "deque" and n[2] is not None:
            yield [tag, n[1], None]
    elif tag in ("dict", "odict", "counter", "ddict"):
        j = 2 if tag == "ddict" else 1
        for i in range(len(n[j])):
            m = list(n)
            m[j] = n[j][:i] + n[j][i + 1:]
            yield m
    elif tag == "str" and n[1]:
        yield ["str", ""]
        for i in range(len(n[1])):
            yield ["str", n[1][:i] + n[1][i + 1:]]
    elif tag in ("bytes", "bytearray") and n[1]:
        yield [tag, ""]
        for i in range(0, len(n[1]), 2):
            yield [tag, n[1][:i] + n[1][i + 2:]]
    elif tag == "int" and n[1] not in ("0", "1"):
        yield ["int", "0"]
        yield ["int", "1"]
    elif tag == "kw" and len(n[1]) > 1:
        yield ["kw", "a"]
    elif tag not in ("none", "int", "cycle"):
        yield ["none"]
        yield ["int", "0"]


def shrink(case, same, budget):
    best = case["v"]
    size = lambda t: len(json.dumps(t))
    calls, improved = 0, True
    while improved and calls < budget:
        improved = False
        for path in sorted(_paths(best), key=len):
            for cand_node in _variants(_get(best, path)):
                cand = _put(best, path, cand_node)
                if size(cand) >= size(best) or calls >= budget:
                    continue
                calls += 1
                try:
                    ok = same(dict(v=cand))
                except Exception:  # an ill-formed candidate (dangling cycle index, unhashable key) is just not a candidate
                    ok = False
                if ok:
                    best, improved = cand, True
                    break
            if improved or calls >= budget:
                break
    return dict(v=best)


# ---------------------------------------------------------------------------
# root-cause predicates for known_findings.json (only consulted for entries with status "known")


def _defaultdict_factory_printed_with_repr(case, bucket, detail):
    """The smallest failing sub-value is a defaultdict of a builtin type whose factory was printed as Python's <class '...'>."""
    return bucket == "eval-raised:defaultdict(builtin-type)" and isinstance(detail, dict) and str(detail.get("text", "")).startswith("(defaultdict <class '")


def _slice_part_keyword_unquoted(case, bucket, detail):
    """The smallest failing sub-value is a slice one of whose parts is a Keyword, printed bare in argument position."""
    if bucket != "eval-raised:slice(keyword-part)" or not isinstance(detail, dict):
        return False
    import hy
    import hy.models as M

    try:
        m = hy.read(str(detail.get("text", "")))
    except Exception:  # noqa
        return False
    return isinstance(m, M.Expression) and len(m) > 1 and m[0] == M.Symbol("slice") and any(isinstance(a, M.Keyword) for a in m[1:])


MATCHERS = {
    "defaultdict_factory_printed_with_repr": _defaultdict_factory_printed_with_repr,
    "slice_part_keyword_unquoted": _slice_part_keyword_unquoted,
}
