"""C01 Compiled code means what the Hy program means."""
from vf import progs as P
from vf import proggen as G

PROP = "C01"
RULE = (
    "Engine-A programs over do/if/when/cond/and/or/not/setv/setx/let/fn+call/operators/get/cut/list/tuple/dict/while(+else)/"
    "for(+else)/break/continue/return/raise/try(except,else,finally)/with (1-3 managers, manager expressions that need statements)/lfor, nesting depth <= 4 (quick) / 5 (thorough), every "
    "expression slot filled by a leaf, an effectful expression (E id v) or a statement-producing form; each program is run at "
    "module level and inside a function; oracle: reference interpreter (vf/progs.py) -> result value, escaping exception and a "
    "series-parallel effect trace (documented orders are Seq, argument lists are Par); the real log must have the same multiset "
    "of effect events and respect every Seq; non-trivial = >= 1 statement-producing form in an expression slot and >= 2 effects "
    "executed; distinct by source text"
)
ASSUMPTIONS = [
    "the reference interpreter (vf/progs.py, ~350 lines transcribing docs/api.rst) is trusted",
    "generator discipline: unique names, definite assignment, no read/write races between siblings of an unspecified-order "
    "context, siblings of a possibly-exiting argument are pure (docs/semantics.rst leaves these orders open)",
]


def check_case(case):
    prog = case["prog"]
    if not P.valid(prog):
        return None
    for mode in case.get("modes", ["module", "function"]):
        try:
            r = P.compare(prog, mode)
        except RecursionError:
            return None
        if r is not None:
            return (r[0] + "@" + mode, r[1])
    return None


def nontrivial(prog, ref):
    import json

    s = json.dumps(prog)
    stmt = any('"%s"' % k in s for k in ("do", "setv", "while", "for", "try", "with", "raise", "let", "when", "cond", "return", "break", "continue"))
    return stmt and ref["nevents"] >= 2


def shard(ctx):
    depth = 4 if ctx.quick else 5
    budget = 45 if ctx.quick else 80
    from hypothesis import strategies as st

    strat = st.tuples(G.program(budget=budget, depth=depth), st.sampled_from(["module", "function"]))

    def one(pm):
        prog, mode = pm
        src = P.wrap_source(prog, mode)
        try:
            ref = P.interpret(prog, mode)
        except Exception as e:  # noqa  (generator produced something the interpreter cannot run: harness problem)
            raise RuntimeError("reference interpreter failed on %s: %r" % (src, e))
        nt = nontrivial(prog, ref)
        kinds = sorted({k for k in _kinds(prog)})
        ctx.case(key=src, nontrivial=nt, cls=["form:" + k for k in kinds] + ["mode:" + mode, "outcome:" + ("exception" if ref["exc"] else "value")], sample=src)
        r = check_case(dict(prog=prog, modes=[mode]))
        if r is not None:
            ctx.fail(dict(prog=prog, modes=[mode]), r[0], r[1])

    ctx.hyp(strat, one, ctx.per_shard(3200, 200000), "programs")

    # collections / calls / operators ALL of whose operands are statement-lifted constructs (every result temporary is live at
    # once), also placed in the else position of an if and in a later clause of a cond, where Hy chains ifs (shared with C12)
    from vf.props import c12

    ctx.hyp(st.tuples(c12.all_lifted_program(30 if ctx.quick else 50, 2 if ctx.quick else 3), st.sampled_from(["module", "function"])), one,
            ctx.per_shard(1000, 50000), "all-operands-lifted")

    # `with` forms of up to three managers in which a manager expression itself needs statements ((do (E k 0) (CM ...))): Hy then
    # splits the form into nested `with` statements, and the lifted statements must run exactly once, after the earlier managers
    # were entered (seeded change C01-E re-compiled the clause and ran them twice)
    wide = st.tuples(G.program(budget=budget, depth=depth, forms=["with", "withpre", "do2", "if", "setv", "setx", "callfn", "let", "and", "or", "when", "while", "for"]), st.sampled_from(["module", "function"]))
    ctx.hyp(wide, one, ctx.per_shard(1200, 60000), "with-managers-needing-statements")


def _kinds(x):
    if isinstance(x, list):
        if x and isinstance(x[0], str) and x[0] in ("do", "if", "when", "cond", "and", "or", "not", "setv", "setx", "let", "fn", "call", "op", "list", "tuple",
                                                     "dict", "get", "cut", "while", "for", "break", "continue", "return", "raise", "try", "with", "lfor", "eff"):
            yield x[0]
        for y in x:
            yield from _kinds(y)


MATCHERS = {}
