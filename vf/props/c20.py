"""C20 Whitespace, comments, discards and reader sugar are transparent."""
import copy

from vf import textgen as T

PROP = "C20"
RULE = (
    "Engine-B syntax trees (symbols, keywords, numbers, dotted identifiers, strings under every prefix, bracket strings, "
    "f-strings with fields/conversions/=/specs, all five sequence kinds, the sugar ' ` ~ ~@ #* #** #^ in sugar or long form) "
    "with random separators (ASCII whitespace incl. CR/LF/VT/FF, ; comments, #_ discards) at every boundary; oracles: "
    "(a) read(text) equals the models built independently by constructors, (b) read(text without any separator beyond the "
    "single spaces tokenisation needs) gives the same models, (c) read(t1 + sep + t2) == read(t1) ++ read(t2), "
    "(d) all sugar rewritten to long form gives the same models; non-trivial = the text contains a comment, a discard or a "
    "sugar form; distinct by text"
)
ASSUMPTIONS = [
    "the expected models are built from hy.models constructors by vf/textgen.py (trusted, ~500 lines), never by the reader",
    "syntax trees whose expected model the constructors reject (a debug-= text that contains the enclosing bracket closer) are skipped and counted",
]


def strip_seps(item, sugar=None):
    """Remove every separator / gap; optionally force the sugar flag."""
    k = item[0]
    if k == "seq":
        return ["seq", item[1], [strip_seps(x, sugar) for x in item[2] if not T.is_sep(x)]]
    if k == "pre":
        return ["pre", item[1], item[2] if sugar is None else sugar, [], strip_seps(item[4], sugar)]
    if k == "ann":
        return ["ann", item[1] if sugar is None else sugar, [], strip_seps(item[3], sugar), [], strip_seps(item[5], sugar)]
    if k == "fstr":
        return ["fstr", item[1], item[2], item[3], [strip_part(p, sugar) for p in item[4]]]
    return item


def strip_part(p, sugar):
    # inside a field the verbatim text matters (expression / debug prefix), so fields are left untouched
    return p


def long_form(item):
    k = item[0]
    if k == "seq":
        return ["seq", item[1], [x if T.is_sep(x) and x[0] != "dis" else long_form(x) if not T.is_sep(x) else ["dis", x[1], long_form(x[2])] for x in item[2]]]
    if k == "pre":
        return ["pre", item[1], False, item[3], long_form(item[4])]
    if k == "ann":
        return ["ann", False, item[2], long_form(item[3]), item[4], long_form(item[5])]
    return item


def read_models(text):
    import hy

    return list(hy.read_many(text))


def compare(got, want, tag):
    if len(got) != len(want):
        return (tag + ":count", "read %d models, expected %d" % (len(got), len(want)))
    for i, (a, b) in enumerate(zip(got, want)):
        d = T.model_diff(a, b)
        if d:
            return (tag + ":" + d.split(":")[1].strip().split(" ")[0], "form %d%s" % (i, d))
    return None


def check_case(case):
    try:
        rd = T.render(case["items"])
    except ValueError:
        return None
    text = rd.text
    try:
        got = read_models(text)
    except Exception as e:  # noqa
        return ("absolute:read-raised:" + type(e).__name__, dict(text=text, error=str(getattr(e, "msg", e))[:200]))
    r = compare(got, rd.models, "absolute")
    if r:
        return (r[0], dict(text=text, diff=r[1]))
    # (b) no separators
    try:
        rd2 = T.render([strip_seps(x) for x in case["items"] if not T.is_sep(x)])
        got2 = read_models(rd2.text)
    except ValueError:
        rd2 = None
    except Exception as e:  # noqa
        return ("stripped:read-raised:" + type(e).__name__, dict(text=rd2.text, original=text, error=str(getattr(e, "msg", e))[:200]))
    if rd2 is not None:
        r = compare(got2, got, "stripped")
        if r:
            return (r[0], dict(text=text, stripped=rd2.text, diff=r[1]))
    # (d) long forms
    try:
        rd3 = T.render([x if (T.is_sep(x) and x[0] != "dis") else (["dis", x[1], long_form(x[2])] if T.is_sep(x) else long_form(x)) for x in case["items"]])
        got3 = read_models(rd3.text)
    except ValueError:
        rd3 = None
    except Exception as e:  # noqa
        return ("longform:read-raised:" + type(e).__name__, dict(text=rd3.text, original=text, error=str(getattr(e, "msg", e))[:200]))
    if rd3 is not None:
        # (f-string nodes are left untouched by long_form: their fields keep verbatim source text)
        r = compare(got3, got, "longform")
        if r:
            return (r[0], dict(text=text, longform=rd3.text, diff=r[1]))
    # (c) concatenation
    if "items2" in case:
        try:
            rdb = T.render(case["items2"])
        except ValueError:
            return None
        sep = case.get("sep", " ")
        if sep == "" and not (text[-1:] in " \n\t)]}\"" or rdb.text[:1] in " \n\t([{'`~;"):
            sep = " "
        if text.rstrip(" \t\r\x0b\x0c").endswith(";") or _ends_in_comment(text):
            sep = "\n" + sep
        try:
            gb = read_models(rdb.text)
            gc = read_models(text + sep + rdb.text)
        except Exception as e:  # noqa
            return ("concat:read-raised:" + type(e).__name__, dict(a=text, b=rdb.text, sep=sep, error=str(getattr(e, "msg", e))[:200]))
        r = compare(gc, got + gb, "concat")
        if r:
            return (r[0], dict(a=text, b=rdb.text, sep=sep, diff=r[1]))
    return None


def _ends_in_comment(text):
    last = text.split("\n")[-1]
    # conservative: any ';' on the last line might start a comment
    return ";" in last


def shard(ctx):
    from hypothesis import strategies as st

    S = T.strategies(max_depth=3 if ctx.quick else 4)
    prog = S["program"]
    pair = st.tuples(prog, st.one_of(st.none(), prog), st.sampled_from(["", " ", "\n", " ; c\n", "\r\n", "\t"]))

    def one(t):
        items, items2, sep = t
        case = dict(items=items)
        if items2 is not None:
            case.update(items2=items2, sep=sep)
        try:
            rd = T.render(items)
        except ValueError:
            ctx.count("skipped:model-constructor-rejects")
            return
        nt = bool(rd.features & {"comment", "discard", "sugar"})
        cls = sorted(rd.features) or ["plain"]
        ctx.case(key=rd.text, nontrivial=nt, cls=cls, sample=rd.text[:300])
        r = check_case(case)
        if r is not None:
            ctx.fail(case, r[0], r[1])

    ctx.hyp(pair, one, ctx.per_shard(6000, 300000), "programs")


MATCHERS = {}
